"""C05, runtime-level part: CancelToken / with_cancel / with_personality / fail_fast /
time::timeout / dropping the future, on a real compio_runtime::Runtime (both drivers).
Exact differential correspondence with the extracted model (coq/model/CancelTok.v,
RunC05RT.v) + an oracle that states the property on the implementation's output only."""
import diffcheck
import gen_c05rt
from gen_c05rt import parse, parse_out

ECANCELED_CLS, ELAPSED_CLS, CANCELLED_CLS, DROPPED_CLS = 2, 3, 4, 6


def oracle(case, out):
    if out[:1] == [99999]:
        return None
    if out[:1] == [2] and len(out) == 2:
        return "panic/abort/hang (code %d) in the runtime program" % out[1]
    pr = parse(case)
    po = parse_out(out)
    if pr is None:
        return "the harness accepted a malformed program"
    if po is None:
        return "malformed harness output"
    steps = pr["steps"]
    uring = pr["drv"] == 0
    # positions -> number of runs completed before the step
    runs_before = []
    n = 0
    for s in steps:
        runs_before.append(n)
        if s[0] == "run":
            n += 1
    total_runs = n + 1                      # the harness adds a closing run
    spawns = [(p, s) for p, s in enumerate(steps) if s[0] == "spawn"]
    if len(spawns) != len(po["tasks"]):
        return "task count mismatch"
    fires = {}
    for p, s in enumerate(steps):
        if s[0] == "fire":
            fires.setdefault(s[1], []).append(p)
    drops = {}
    for p, s in enumerate(steps):
        if s[0] == "drop":
            drops.setdefault(s[1], p)
    for r, left in enumerate(po["left"]):
        if left >= 9998:
            return "resource %d: what is left unread is not the unconsumed part of what was written" % r
    for i, ((sp, (_, r, wx, ws)), (fin, cls, val, pers), (dc, freed)) in enumerate(zip(spawns, po["tasks"], po["keys"])):
        toks_all = [a for (w, a) in ws if w in (1, 3, 5)]
        ff_toks = [a for (w, a) in ws if w == 3]
        inner = toks_all[0] if toks_all else None       # wraps are listed innermost first
        timeouts = [a for (w, a) in ws if w == 4]
        perss = [a for (w, a) in ws if w == 2]
        bogus = uring and perss[:1] == [2]
        # honest: never a fabricated success
        if cls == 7:
            return "task %d reports Ok with bytes that were never written (or delivered twice)" % i
        if cls == 1 and pr["kinds"][r] == 4:
            return "task %d: connect to a black hole reports success" % i
        # local: a cancellation result needs a cancellation route of THIS task
        if cls == ECANCELED_CLS and not any(t in fires for t in toks_all):
            return "task %d reports ECANCELED but no token it is registered with ever fired" % i
        if cls == ECANCELED_CLS and inner is not None and inner not in fires:
            return "task %d reports ECANCELED but its innermost token never fired (cancelled through a replaced token)" % i
        if cls == CANCELLED_CLS and not any(t in fires for t in ff_toks):
            return "task %d reports Cancelled but none of its fail-fast tokens fired" % i
        if cls == ELAPSED_CLS and not any(d in (0, 1) for d in timeouts):
            return "task %d reports Elapsed without a short timeout" % i
        if cls == DROPPED_CLS and i not in drops:
            return "task %d vanished without its handle being dropped" % i
        if cls == 5 and not (bogus and val == 22):
            return "task %d failed with errno %d" % (i, val)
        # the driver is asked at most once per operation, and only through a route of this task
        if dc > 1:
            return "task %d: %d driver cancels for one operation" % (i, dc)
        if dc == 1 and not (any(t in fires for t in toks_all) or any(d in (0, 1) for d in timeouts) or i in drops):
            return "task %d: a driver cancel was issued for an operation nobody cancelled" % i
        # the personality that reaches the operation is the innermost one
        if pers != 0 and (not uring or not wx or not perss or pers != perss[0] + 1):
            return "task %d ran under personality #%d, expected the innermost one %r" % (i, pers, perss[:1])
        if uring and wx and perss and cls in (1, 2, 5) and pers != perss[0] + 1:
            return "task %d lost its personality (got #%d, innermost is #%d)" % (i, pers, perss[0] + 1)
        # prompt: once a cancellation route of the task is taken, it is finished by the next run
        deadline = None
        if inner is not None and inner in fires:
            p0 = fires[inner][0]
            deadline = runs_before[max(p0, sp)] + 1
        for t in ff_toks:
            later = [p for p in fires.get(t, []) if p > sp]
            if later:
                d = runs_before[later[0]] + 1
                deadline = d if deadline is None else min(deadline, d)
        if any(d in (0, 1) for d in timeouts):
            d = runs_before[sp] + 1
            deadline = d if deadline is None else min(deadline, d)
        if deadline is not None and cls != DROPPED_CLS:
            if fin == 0:
                return ("task %d was cancelled (token / timeout) but never finished although the awaited event "
                        "never has to happen (not prompt)" % i)
            if fin > deadline:
                return "task %d was cancelled before run %d but finished only in run %d (not prompt)" % (i, deadline, fin)
        # whoever finished or was dropped released its operation: the cancel really ended it
        if (fin != 0 or cls == DROPPED_CLS) and freed == 0:
            return "task %d is over but its operation is still in the driver at the end (cancel did not end it)" % i
        # neighbours: an operation nobody cancelled gets its own data when it is written
        clean = not toks_all and not any(d in (0, 1) for d in timeouts) and i not in drops and not bogus
        if clean and pr["kinds"][r] != 4:
            for p in range(sp + 1, len(steps)):
                s = steps[p]
                if s[0] == "write" and s[1] == r:
                    # nobody may queue up in front of it between the write and the next run
                    q = p + 1
                    ok = True
                    while q < len(steps) and steps[q][0] != "run":
                        if steps[q][0] == "spawn" and steps[q][1] == r:
                            ok = False
                        q += 1
                    if ok:
                        want = runs_before[p] + 1
                        if cls != 1 or fin == 0 or fin > want:
                            return ("task %d (never cancelled) did not complete with its own data by run %d although "
                                    "it was written (class %d, finished in run %d): a neighbour's cancellation hit it"
                                    % (i, want, cls, fin))
                    break
    # tokens: is_cancelled / wait() agree with what the program did
    for t, (c, w) in enumerate(po["toks"]):
        if c != (1 if t in fires else 0) or w != c:
            return "token %d: is_cancelled=%d wait-finished=%d, fired in the program: %s" % (t, c, w, t in fires)
    return None


class C05RT(diffcheck.DiffProp):
    pid = "C05"
    evidence_name = "C05_rt"
    corpus_name = "C05_rt"
    prop_file = "prop/C05.v"
    model_name = "c05rt"
    harness_bin = "c05rt"
    package = "rt"
    shards = 12
    thorough_release = False
    gen = gen_c05rt
    counts = {"quick": 420, "thorough": 7000}
    rule = ("runtime programs on compio_runtime::Runtime, both drivers: up to 7 tasks each awaiting one submit(op) "
            "(socket recv, pipe read, accept, poll-readable, connect to a black hole) under a generated nesting of "
            "with_cancel / with_personality / fail_fast / fail_slow / timeout(0, short, long), tokens shared between "
            "ops and fired before the first poll / after / twice, JoinHandles dropped before and after the first poll, "
            "data written for every live op (neighbours on one descriptor), bounded runs in between; compared exactly "
            "with the model: per task finishing run, result class, errno, personality seen by the op, driver cancels "
            "issued, storage released; per resource the unconsumed chunks; per token is_cancelled/wait. "
            "non-trivial = some task cancelled by any route; distinct = distinct programs")
    trusted_base = [
        "Coq 8.16.1 kernel (coqc, full .vo build); vm_compute only in Examples",
        "extraction: ExtrOcamlBasic only; coq/extract/driver.ml; coq/model/RunC05RT.v decoder and environment rules",
        "harness/rt/src/bin/c05rt.rs (program interpreter on the real runtime), tools/gen_c05rt.py, tools/p_c05rt.py oracle",
        "hook commits in /repo: compio_driver::verif event log (KEY_NEW / KEY_FREE / CANCEL_PUSH / POLL_CANCEL) reports faithfully",
    ]
    assumptions = [
        "kernel, io_uring: a request is acted on when the driver next enters the kernel; data that is there wins over "
        "a cancel request; AsyncCancel ends a pending recv/accept/connect/poll with ECANCELED; an unregistered "
        "personality fails the SQE with EINVAL",
        "polling driver: Recv/Accept are tried at push (inline completion), pipe Read and PollOnce wait for readiness "
        "first; a cancel removes the operation from the descriptor queue synchronously",
        "local-event 0.1.3 Event semantics (listen / notify_all / poll / drop hand-over) as modelled",
        "timing: a task is first polled less than 100 ms after it was built, a 100 ms sleep fires within a 135 ms run; "
        "the executor runs tasks in scheduling order (spawn order for fresh tasks)",
        "one operation per task; multishot streams (SubmitMulti) and wakers cloned to other threads are not exercised",
    ]

    def oracle(self, case, out):
        return oracle(case, out)


PROP = C05RT()
