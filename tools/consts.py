#!/usr/bin/env python3
"""Constants translator: regenerates coq/gen/Consts.v from the Rust sources.

usage: consts.py <repo> <out.v>

Every item is located by an anchored regular expression in a named file; the
right-hand side is evaluated by a tiny expression evaluator (integer literals,
`<<`, `>>`, `|`, `&`, `!` on 64-bit words, `*`, `+`, `-`, `usize::MAX`,
`u64::MAX`, and names of constants already translated from the same file).
An item that cannot be found or evaluated is a broken tie: exit 1.
"""
import os
import re
import sys

M64 = (1 << 64) - 1

# (coq name, file, regex with one group = expression)
CONST_ITEMS = [
    ("SCHEDULED", "compio-executor/src/task/state.rs", r"^const SCHEDULED: usize = (.+);"),
    ("SCHEDULING", "compio-executor/src/task/state.rs", r"^const SCHEDULING: usize = (.+);"),
    ("NOT_SETTING_WAKER", "compio-executor/src/task/state.rs", r"^const NOT_SETTING_WAKER: usize = (.+);"),
    ("HAS_WAKER", "compio-executor/src/task/state.rs", r"^const HAS_WAKER: usize = (.+);"),
    ("COMPLETED", "compio-executor/src/task/state.rs", r"^const COMPLETED: usize = (.+);"),
    ("HAS_RESULT", "compio-executor/src/task/state.rs", r"^const HAS_RESULT: usize = (.+);"),
    ("NOT_CANCELLED", "compio-executor/src/task/state.rs", r"^const NOT_CANCELLED: usize = (.+);"),
    ("RC_SHIFT", "compio-executor/src/task/state.rs", r"^const RC_SHIFT: usize = (.+);"),
    ("RC_UNIT", "compio-executor/src/task/state.rs", r"^const RC_UNIT: usize = (.+);"),
    ("TASK_INIT", "compio-executor/src/task/state.rs", r"^\s*const INIT: usize = (.+);"),
    ("AWAKE_IDLE", "compio-driver/src/sys/driver/mod.rs", r"^const IDLE: u8 = (.+);"),
    ("AWAKE_NOTIFIED", "compio-driver/src/sys/driver/mod.rs", r"^const NOTIFIED: u8 = (.+);"),
    ("AWAKE_AWAKE", "compio-driver/src/sys/driver/mod.rs", r"^const AWAKE: u8 = (.+);"),
    ("UD_CANCEL", "compio-driver/src/sys/driver/iour/mod.rs", r"^\s*const CANCEL: u64 = (.+);"),
    ("UD_NOTIFY", "compio-driver/src/sys/driver/iour/mod.rs", r"^\s*const NOTIFY: u64 = (.+);"),
    ("DEFAULT_BUF_SIZE", "compio-io/src/util/internal.rs", r"^pub\(crate\) const DEFAULT_BUF_SIZE: usize = (.+);"),
    ("DEFAULT_MAX_BUFFER", "compio-io/src/compat/sync_stream.rs", r"^pub\(crate\) const DEFAULT_MAX_BUFFER: usize = (.+);"),
    ("MAX_LFL", "compio-io/src/framed/frame.rs", r"^\s*const MAX_LFL: usize = (.+);"),
    ("BUF_GROUP", "compio-driver/src/sys/buffer_pool/iour.rs", r"^\s*const BUF_GROUP: u16 = (.+);"),
    # anchored literals that are not const items
    ("READ_TO_END_RESERVE", "compio-io/src/read/ext.rs", r"^\s*\$buf\.reserve\((\d+)\);"),
    ("FLUSH_NUM", "compio-io/src/buffer.rs", r"^\s*len > cap \* (\d+) / \d+\s*$"),
    ("FLUSH_DEN", "compio-io/src/buffer.rs", r"^\s*len > cap \* \d+ / (\d+)\s*$"),
    ("FRAMED_RESERVE", "compio-io/src/framed/read.rs", r"\.reserve\((\d+)\)"),
    ("NOOP_MAX_SIZE", "compio-io/src/framed/frame.rs", r"^\s*Self \{ max_size: (\d+) \}"),
    # C07: defaults of the managed buffer pool (ProactorBuilder::new)
    ("POOL_DEFAULT_SIZE", "compio-driver/src/lib.rs", r"^\s*buffer_pool_size: (\d+),"),
    ("POOL_DEFAULT_BUF_LEN", "compio-driver/src/lib.rs", r"^\s*buffer_pool_buffer_len: (\d+),"),
]


def tokenize(s):
    toks = re.findall(r"\s*(<<|>>|[()|&!*+\-~]|0b[01_]+|0x[0-9a-fA-F_]+|\d[\d_]*|[A-Za-z_][A-Za-z0-9_:]*)", s)
    if "".join(toks).replace(" ", "") != re.sub(r"\s+", "", s):
        raise ValueError("cannot tokenize %r" % s)
    return toks


def evaluate(expr, env):
    toks = tokenize(expr)
    pos = [0]

    def peek():
        return toks[pos[0]] if pos[0] < len(toks) else None

    def eat():
        t = toks[pos[0]]
        pos[0] += 1
        return t

    def atom():
        t = eat()
        if t == "(":
            v = bor()
            if eat() != ")":
                raise ValueError("paren")
            return v
        if t == "!":
            return (~atom()) & M64
        if t == "-":
            return -atom()
        if t.startswith("0b"):
            return int(t[2:].replace("_", ""), 2)
        if t.startswith("0x"):
            return int(t[2:].replace("_", ""), 16)
        if t[0].isdigit():
            return int(t.replace("_", ""))
        if t in ("usize::MAX", "u64::MAX"):
            return M64
        if t in env:
            return env[t]
        raise ValueError("unknown name %s" % t)

    def mul():
        v = atom()
        while peek() == "*":
            eat()
            v = v * atom()
        return v

    def add():
        v = mul()
        while peek() in ("+", "-"):
            if eat() == "+":
                v = v + mul()
            else:
                v = v - mul()
        return v

    def shift():
        v = add()
        while peek() in ("<<", ">>"):
            if eat() == "<<":
                v = (v << add()) & M64
            else:
                v = v >> add()
        return v

    def band():
        v = shift()
        while peek() == "&":
            eat()
            v = v & shift()
        return v

    def bor():
        v = band()
        while peek() == "|":
            eat()
            v = v | band()
        return v

    v = bor()
    if pos[0] != len(toks):
        raise ValueError("trailing tokens in %r" % expr)
    return v


def main():
    repo, out = sys.argv[1], sys.argv[2]
    lines = ["(* GENERATED by tools/consts.py from the Rust sources of the repository under check - do not edit. *)",
             "From Coq Require Import NArith.", "Open Scope N_scope.", ""]
    envs = {}
    failed = False
    for name, rel, rx in CONST_ITEMS:
        path = os.path.join(repo, rel)
        try:
            src = open(path).read()
        except OSError as e:
            print("consts: cannot read %s: %s" % (path, e))
            failed = True
            continue
        m = re.search(rx, src, re.M)
        if not m:
            print("consts: item %s not found in %s (regex %s)" % (name, rel, rx))
            failed = True
            continue
        env = envs.setdefault(rel, {})
        try:
            v = evaluate(m.group(1), env)
        except ValueError as e:
            print("consts: cannot evaluate %s = %r: %s" % (name, m.group(1), e))
            failed = True
            continue
        # the Rust-side name is the one in the regex
        rname = re.search(r"const ([A-Z_]+):", rx)
        if rname:
            env[rname.group(1)] = v
        lines.append("Definition %s : N := %d.  (* %s *)" % (name, v, rel))
    text = "\n".join(lines) + "\n"
    if failed:
        sys.exit(1)
    old = open(out).read() if os.path.exists(out) else None
    if old != text:
        os.makedirs(os.path.dirname(out), exist_ok=True)
        open(out, "w").write(text)
    print("consts: %d items -> %s" % (len(CONST_ITEMS), out))


if __name__ == "__main__":
    main()
