"""C20 — child processes: complete stdio and the real exit status (PARTIAL)."""
import string

import diffcheck
import gen_c20

CAP = 65536
LINE_OUT = (string.digits + string.ascii_uppercase + string.ascii_lowercase).encode()
LINE_ERR = LINE_OUT[::-1]


def pat_sum(line, n):
    """sum of the first n bytes of `yes <line>` output"""
    unit = line + b"\n"
    q, r = divmod(n, len(unit))
    return q * sum(unit) + sum(unit[:r])


def in_sum(n):
    q, r = divmod(n, 251)
    return q * sum(range(251)) + sum(range(r))


def oracle(case, out):
    if out[:1] == [99999]:
        return None
    if out[:1] == [2] and len(out) == 2:
        if out[1] == 8:
            return ("the scenario hung (watchdog): stdio or wait never completed although the child and the "
                    "operating system could make progress")
        return "panic/abort (code %d) in the child-process scenario" % out[1]
    if out[:1] == [1] and len(out) == 3:
        where = {0: "spawn", 1: "stdout read", 2: "stderr read", 3: "stdin write", 4: "wait"}.get(out[1], "?")
        return "%s failed with io error kind %d" % (where, out[2])
    if len(case) == 5:
        return huge_oracle(case, out)
    if len(case) != 12 or len(out) != 12 or out[0] != 0:
        return "malformed result %r" % (out,)
    drv, n_out, n_err, n_in, use_stdin, rchunk, wchunk, ek, ea, order, reuse, delay = case
    _, olen, osum, ook, eok, elen, esum, erok, written, code, sig, not_early = out
    if written != n_in:
        return "stdin: %d of %d bytes were accepted" % (written, n_in)
    if olen != n_in + n_out:
        return "stdout: %d bytes read, the child wrote %d (lost or duplicated)" % (olen, n_in + n_out)
    if eok != 1:
        return "stdout: the echoed stdin bytes came back changed or out of order"
    if ook != 1:
        return "stdout: bytes out of order / no end of file / buffer length rule broken"
    if osum != (in_sum(n_in) + pat_sum(LINE_OUT, n_out)) % (1 << 32):
        return "stdout: checksum differs from the bytes the child wrote"
    if elen != n_err:
        return "stderr: %d bytes read, the child wrote %d" % (elen, n_err)
    if erok != 1:
        return "stderr: bytes out of order / no end of file / buffer length rule broken"
    if esum != pat_sum(LINE_ERR, n_err) % (1 << 32):
        return "stderr: checksum differs from the bytes the child wrote"
    want = (ea, 0) if ek == 0 else (256, ea)
    if (code, sig) != want:
        return "exit status (code %d, signal %d) differs from the child's real one (code %d, signal %d)" % (
            code, sig, want[0], want[1])
    if not_early != 1:
        return "wait returned before the child had exited"
    return None


def huge_oracle(case, out):
    """one write / read call with a buffer of m * 2^32 + k bytes"""
    drv, d, m, k, n_out = case
    size = (m << 32) + k
    if len(out) != 6 or out[0] != 0:
        return "malformed result %r" % (out,)
    _, n, bsum, ok, eof, code = out
    if code != 0:
        return "exit status code %d, the child exited with 0" % code
    if d == 0:
        if n == 0:
            return ("ChildStdin::write of a %d-byte buffer returned Ok(0) (WriteZero) although the pipe was empty: "
                    "the request length was computed as 0" % size)
        if n > size or n != min(size, CAP):
            return ("ChildStdin::write of a %d-byte buffer into an empty pipe moved %d bytes, the pipe takes %d"
                    % (size, n, min(size, CAP)))
        if ok != 1:
            return "the buffer came back with another length"
        return None
    if n == 0:
        return ("ChildStdout::read with a %d-byte capacity reported end of file although %d bytes were in the pipe"
                % (size, n_out))
    if n != n_out:
        return ("ChildStdout::read with a %d-byte capacity returned %d of the %d bytes in the pipe: the request "
                "length was not min(capacity, 2^32 - 1)" % (size, n, n_out))
    if ok != 1 or bsum != pat_sum(LINE_OUT, n_out) % (1 << 32):
        return "the bytes read differ from what the child wrote / buffer length rule broken"
    if eof != 1:
        return "no end of file after the child's whole output was read"
    return None


class C20(diffcheck.DiffProp):
    pid = "C20"
    manifest = dict(
        text="Coq proofs over a reference semantics of the child's stdio and of waiting: (1) for every capacity, payload and "
             "schedule (any chunking of reads and writes, any interleaving of producer, consumer and close steps) the bytes "
             "read ++ the bytes in the pipe ++ the bytes not yet written = the data, end of file is reported only after the "
             "writer closed and everything was read, a fair schedule delivers everything; the three streams do not interfere "
             "and the echo system (parent -> cat -> parent, both directions active) returns exactly what was written; a "
             "blocked producer is exactly one facing a full pipe; an echoing child never exits unless its stdin gets closed; (2) every label sequence accepted by the wait state machine "
             "of compio-process (pidfd readiness then child.wait(), or blocking waitpid on the pool) delivers the status at "
             "most once, equal to the status the child exited with, after the exit, with nothing enabled afterwards, and "
             "within four steps once the child has exited. Tied to the code by running real child processes (sh/yes/head/cat) "
             "through compio-process on the io_uring and the polling driver: lengths, checksums, per-byte order flags, echo "
             "equality, ExitStatus and a wait-not-early flag must equal what the extracted reference simulation predicts, and "
             "an independent oracle checks them against the requested scenario.",
        note="PARTIAL. PROVED (Coq, no axioms): FIFO completeness/in-order delivery of the pipe reference for all schedules, "
             "capacities >= 0 and chunkings, independence of stdin/stdout/stderr, echo equality, progress and the "
             "blocked-producer characterisation, liveness of a fair schedule; the wait LTS (both the pidfd and the blocking "
             "path of linux.rs/unix.rs) delivers exactly once, never before EnvExit, the same status, and is live; the request "
             "length of one sequential Read/Write (min(n, 2^32-1) on io_uring, n on polling) is > 0 for n > 0 and <= n, so a "
             "buffer of 2^32 bytes or more still moves >= 1 byte (no WriteZero, no premature end of file). OBSERVED "
             "ONLY (differential run, sampled scenarios): that the kernel's pipes, fork/exec and waitpid behave like the "
             "reference; that compio's sequential Read/Write ops, map_advanced, the drop of ChildStdin, spawn_blocking and "
             "wait_with_output drive them as the reference's steps, on io_uring and on polling. The pidfd path of linux.rs "
             "needs the nightly feature linux_pidfd and is modelled and proved but NOT observed (this toolchain always takes "
             "the blocking path). Exactly-once is enforced in the code by ownership (Child::wait(self)); a second wait cannot "
             "be written, which the model mirrors by enabling StartWait only in the idle state. The child programs and the "
             "300 ms / sleep-based 'not early' observation are part of the trusted harness. Trusted: Coq kernel, extraction "
             "+ OCaml driver, harness/rt/src/bin/c20.rs, coreutils yes/head/cat and dash as the child.",
        technique="Coq proof (invariants over all schedules of a pipe reference; LTS invariants for wait) + extracted "
                  "reference simulation vs real child processes on both drivers (differential correspondence) + oracle")
    prop_file = "prop/C20.v"
    model_name = "c20"
    harness_bin = "c20"
    package = "rt"
    gen = gen_c20
    counts = {"quick": 40, "thorough": 240}
    shards = 4
    thorough_release = False
    rule = ("cases = corpus (witnesses: one write / read call with buffers of 2^32, 2 * 2^32, 2^32 + k bytes on both drivers, "
            "single large stdin write through cat on polling, wait-before-drain above the pipe "
            "capacity, every signal, exit codes 0/255) + random scenarios, each on both drivers: payloads 0..4 MiB below/at/"
            "above the 64 KiB pipe capacity on stdin/stdout/stderr, read/write chunk sizes 1 byte..whole payload, orders "
            "wait-first / drain-first / concurrent / wait_with_output / wait and wait_with_output with the ChildStdin left "
            "inside the Child, exit codes 0..255 and 8 signals, buffer reuse, "
            "exit delays; non-trivial = the scenario completed and moved bytes or returned a non-zero status; distinct = "
            "distinct case lines")
    trusted_base = [
        "Coq 8.16.1 kernel (coqc, full .vo build); vm_compute only in the Example lemmas",
        "extraction: ExtrOcamlBasic only; coq/extract/driver.ml; coq/model/RunC20.v (round-robin simulation over PipeSpec/ProcSpec)",
        "harness/rt/src/bin/c20.rs (child scripts, pattern check, watchdog), tools/gen_c20.py, tools/p_c20.py oracle",
        "the operating system: Linux pipes (capacity 65536), fork/exec, waitpid; coreutils yes/head/cat/sleep, dash",
    ]
    assumptions = [
        "kernel pipes are FIFO byte queues with capacity 65536, partial non-blocking writes and end of file after the last "
        "write end is closed (PipeSpec.v) — observed, not proved",
        "waitpid returns only for a terminated child, with its status, once (environment labels of the wait LTS)",
        "a pidfd polls readable only after the process has terminated (modelled; this path is not exercised here)",
        "the child programs behave as scripted (cat copies stdin to stdout until end of file; yes|head -c N writes exactly N bytes)",
        "the parent keeps its read ends open until end of file (no early close of ChildStdout/ChildStderr)",
    ]

    def oracle(self, case, out):
        return oracle(case, out)

    def known(self, case, out, what):
        return None


PROP = C20()
