"""Case generator for C11 (I/O helpers). One case = list of ints (see coq/model/RunC11.v).

60 % mostly-valid schedules (chunks that eventually deliver everything),
40 % adversarial (errors, EOF in the middle, zero chunks, tiny capacities).
"""
import random

ERR_KINDS = [4, 5, 6, 7]  # Other, BrokenPipe, ConnectionReset, PermissionDenied


def payload(rng, n):
    return [rng.randrange(0, 100) for _ in range(n)]


def sched(rng, total, adversarial, maxlen=14):
    """schedule of (kind, arg) pairs; friendly ones deliver >= total bytes"""
    s = []
    if not adversarial:
        left = total + rng.choice([0, 0, 1, 5])
        while left > 0 and len(s) < maxlen - 1:
            if rng.random() < 0.15:
                s.append((1, 3))  # Interrupted
                continue
            n = rng.choice([1, 1, 2, 3, 5, 8, 64])
            s.append((0, n))
            left -= n
        if left > 0:
            s.append((0, 1000))
        if rng.random() < 0.5:
            s.append((2, 0))
    else:
        for _ in range(rng.randrange(0, maxlen)):
            r = rng.random()
            if r < 0.45:
                s.append((0, rng.choice([0, 1, 2, 3, 7, 100])))
            elif r < 0.65:
                s.append((1, 3))
            elif r < 0.8:
                s.append((1, rng.choice(ERR_KINDS)))
            else:
                s.append((2, 0))
    return s


def enc_sched(s):
    out = [len(s)]
    for k, a in s:
        out += [k, a]
    return out


def len_cap(rng):
    cap = rng.choice([0, 1, 1, 2, 3, 4, 5, 7, 8, 9, 12, 16, 17])
    len_ = rng.choice([0, 0, rng.randrange(0, cap + 1), cap])
    return [len_, cap]


def bytes_lp(bs):
    return [len(bs)] + bs


def gen_case(rng):
    adv = rng.random() < 0.4
    op = rng.choice([1, 1, 2, 2, 3, 4, 4, 5, 5, 6, 7, 7, 7, 8, 8, 8,
                     10, 11, 12, 13, 14, 15, 16, 17, 18, 19, 20, 20, 20, 21, 21, 22])
    if op == 1:
        lc = len_cap(rng)
        n = rng.choice([lc[1], lc[1] + 3, rng.randrange(0, 40)])
        return [1] + lc + enc_sched(sched(rng, min(n, lc[1]), adv)) + payload(rng, n)
    if op == 2:
        lc = len_cap(rng)
        n = rng.choice([0, 1, 5, 33, rng.randrange(0, 80)])
        return [2] + lc + enc_sched(sched(rng, n, adv, maxlen=24)) + payload(rng, n)
    if op == 3:
        lc = len_cap(rng)
        n = rng.randrange(0, 12)
        s = sched(rng, n, adv, maxlen=3)[:1] or [(2, 0)]
        return [3] + lc + [s[0][0], s[0][1]] + payload(rng, n)
    if op == 4:
        n = rng.choice([0, 1, 2, 7, rng.randrange(0, 30)])
        return [4] + enc_sched(sched(rng, n, adv)) + payload(rng, n)
    if op == 5:
        n = rng.choice([0, 1, 9, rng.randrange(0, 50)])
        bsz = rng.choice([1, 1, 2, 3, 8, 64]) if rng.random() < 0.95 else 0
        return ([5, bsz] + enc_sched(sched(rng, n, adv, maxlen=20))
                + enc_sched(sched(rng, n, rng.random() < 0.3, maxlen=24)) + payload(rng, n))
    if op == 6:
        n = rng.randrange(0, 30)
        limit = rng.choice([0, 1, 5, n, n + 4, rng.randrange(0, 40)])
        nr = rng.randrange(1, 6)
        reads = []
        for _ in range(nr):
            reads += len_cap(rng)
        return [6, limit, nr] + reads + enc_sched(sched(rng, n, adv)) + payload(rng, n)
    if op == 7:
        cap = rng.choice([0, 1, 2, 3, 4, 6, 9, 16])
        no = rng.randrange(1, 8)
        ops = []
        tot = 0
        for _ in range(no):
            r = rng.random()
            if r < 0.25:
                # write_vectored, usually with bytes already waiting in the buffer
                segs = [payload(rng, rng.choice([0, 1, 2, 3, 5, 9])) for _ in range(rng.randrange(0, 5))]
                tot += sum(len(x) for x in segs)
                ops += [4, len(segs)] + sum((bytes_lp(x) for x in segs), [])
            elif r < 0.7:
                d = payload(rng, rng.choice([0, 1, 2, 3, 5, 9, 20]))
                tot += len(d)
                ops += [1] + bytes_lp(d)
            elif r < 0.92:
                ops += [2]
            else:
                ops += [3]
        return [7, cap, no] + ops + enc_sched(sched(rng, tot, adv, maxlen=20))
    if op == 8:
        cap = rng.choice([0, 1, 2, 3, 5, 8, 16])
        n = rng.randrange(0, 40)
        ops = []
        for _ in range(rng.randrange(1, 9)):
            r = rng.random()
            if r < 0.55:
                ops.append([1] + len_cap(rng))
            elif r < 0.8:
                ops.append([2])
            else:
                # consume: mostly after a fill_buf and small (valid when a window is there)
                if not (ops and ops[-1] == [2]) and rng.random() < 0.9:
                    ops.append([2])
                ops.append([3, rng.choice([0, 0, 1, 1, 1, 2, 30])])
        return [8, cap, len(ops)] + sum(ops, []) + enc_sched(sched(rng, n, adv)) + payload(rng, n)
    if op == 10:
        return [10] + len_cap(rng) + payload(rng, rng.randrange(0, 25))
    if op == 11:
        n = rng.randrange(0, 25)
        return [11] + len_cap(rng) + [rng.choice([0, 1, n, n + 1, n + 7, rng.randrange(0, 30)])] + payload(rng, n)
    if op == 12:
        nm = rng.randrange(0, 5)
        caps = [rng.choice([0, 1, 2, 3, 5, 8]) for _ in range(nm)]
        return [12, nm] + caps + payload(rng, rng.randrange(0, 25))
    if op == 13:
        nm = rng.randrange(0, 5)
        caps = [rng.choice([0, 1, 2, 3, 5, 8]) for _ in range(nm)]
        n = rng.randrange(0, 25)
        return [13, rng.choice([0, 1, n, n + 1, n + 5, rng.randrange(0, 30)]), nm] + caps + payload(rng, n)
    if op in (14, 16):
        content = payload(rng, rng.choice([0, 1, 3, 10, rng.randrange(0, 20)]))
        cap = len(content) + rng.choice([0, 0, 1, 5, 40])
        data = payload(rng, rng.choice([0, 1, 3, 8, rng.randrange(0, 20)]))
        if op == 14:
            return [14, cap] + bytes_lp(content) + data
        pos = rng.choice([0, 1, len(content), len(content) + 1, len(content) + 9, rng.randrange(0, 30)])
        return [16, cap] + bytes_lp(content) + [pos] + data
    if op in (15, 17):
        content = payload(rng, rng.choice([0, 1, 3, 10, rng.randrange(0, 20)]))
        cap = len(content) + rng.choice([0, 0, 1, 5, 40])
        n = rng.randrange(0, 5)
        bufs = []
        for _ in range(n):
            bufs += bytes_lp(payload(rng, rng.choice([0, 1, 2, 3, 6])))
        if op == 15:
            return [15, cap] + bytes_lp(content) + [n] + bufs
        pos = rng.choice([0, 1, 2, len(content), len(content) + 1, len(content) + 9, rng.randrange(0, 30)])
        return [17, cap] + bytes_lp(content) + [pos, n] + bufs
    if op == 18:
        d = payload(rng, rng.randrange(0, 16))
        pos = rng.choice([0, 1, len(d), len(d) + 3, rng.randrange(0, 20)])
        return [18] + bytes_lp(d) + [pos] + payload(rng, rng.randrange(0, 12))
    if op == 19:
        return [19, rng.randrange(0, 100)] + len_cap(rng)
    if op == 20:
        ms = members(rng)
        total = sum(cp for _, cp in ms)
        n = rng.choice([total, total, total + 3, rng.randrange(0, total + 1), rng.randrange(0, 40)])
        return ([20] + enc_members(ms) + enc_sched(sched(rng, min(n, total), adv, maxlen=20))
                + payload(rng, n))
    if op == 21:
        ms = members(rng)
        total = sum(cp for _, cp in ms)
        n = rng.choice([total, total + 2, rng.randrange(0, total + 1), rng.randrange(0, 30)])
        pos = rng.choice([0, 0, 1, 3, n, n + 2])
        return [21, pos] + enc_members(ms) + payload(rng, n + (pos if rng.random() < 0.6 else 0))
    if op == 22:
        ms = members(rng)
        s1 = sched(rng, 8, adv, maxlen=3)[:1] or [(2, 0)]
        return [22] + enc_members(ms) + [s1[0][0], s1[0][1]] + payload(rng, rng.randrange(0, 12))
    raise AssertionError(op)


def members(rng):
    """(len, cap) of the Vec<u8> members of a vectored buffer: 65 % in sequential-fill order
    (fresh, or full.. partial empty..), 35 % arbitrary fill states; empty members and members
    of capacity 0 included"""
    nm = rng.choice([0, 1, 1, 2, 2, 3, 3, 4, 5])
    caps = [rng.choice([0, 1, 2, 3, 4, 5, 8]) for _ in range(nm)]
    r = rng.random()
    if r < 0.40:
        lens = [0] * nm
    elif r < 0.65:
        t = rng.randrange(0, sum(caps) + 1)
        lens = []
        for cp in caps:
            k = min(t, cp)
            lens.append(k)
            t -= k
    else:
        lens = [rng.choice([0, cp, rng.randrange(0, cp + 1)]) for cp in caps]
    return list(zip(lens, caps))


def enc_members(ms):
    out = [len(ms)]
    for ln, cp in ms:
        out += [ln, cp]
    return out


OP_NAMES = {1: "read_exact", 2: "read_to_end", 3: "append", 4: "write_all", 5: "copy",
            6: "take", 7: "BufWriter", 8: "BufReader", 10: "&[u8]::read", 11: "[u8]::read_at",
            12: "&[u8]::read_vectored", 13: "[u8]::read_vectored_at", 14: "Vec::write",
            15: "Vec::write_vectored", 16: "Vec::write_at", 17: "Vec::write_vectored_at",
            18: "[u8]::write_at", 19: "Repeat::read", 20: "read_vectored_exact",
            21: "[u8]::read_vectored_exact_at", 22: "default read_vectored"}


def generate(seed, n):
    rng = random.Random(seed)
    return [gen_case(rng) for _ in range(n)]


def describe(case):
    return OP_NAMES.get(case[0], "?")


def nontrivial(case, impl_out):
    """a case is non-trivial when it is not rejected, did not error out at once,
    and moved at least one byte (some integer beyond the status words differs from 0)"""
    if impl_out[:1] == [99999]:
        return False
    return any(x != 0 for x in impl_out[1:])
