"""C12 — blocking-style and poll-style compat adapters are lossless FIFO pipes."""
import diffcheck
import gen_c12

WOULD_BLOCK, OOM, WRITE_ZERO = 21, 20, 2

K_SPIN = "C12-max0-poll-write-spin"
K_EOF = "C12-base0-false-eof"
K_OVER = "C12-read-limit-overshoot"


class Cur:
    def __init__(self, v):
        self.v, self.i = v, 0

    def take(self):
        x = self.v[self.i]
        self.i += 1
        return x

    def take_n(self, n):
        if self.i + n > len(self.v):
            raise IndexError
        s = self.v[self.i:self.i + n]
        self.i += n
        return s

    def bytes(self):
        return self.take_n(self.take())

    def done(self):
        return self.i == len(self.v)


def classify(d, what):
    """id of the known finding a violation text belongs to, judged by the
    configuration that identifies the finding; None = not a known finding"""
    if what.startswith("hang") and d["adapter"] == 2 and d["max"] == 0 and \
            any(o[0] == "poll_write" and o[3] for o in d["ops"]):
        return K_SPIN
    if what.startswith("false EOF") and d["base"] == 0:
        return K_EOF
    if what.startswith("read buffer over limit"):
        held = int(what.split()[4])
        if d["max"] >= 1 and d["base"] >= 2 and held <= d["max"] + d["base"] - 1:
            return K_OVER
    return None


def violations(case, out):
    """every violation of the property visible in the implementation's output"""
    try:
        d = gen_c12.decode(case)
    except (IndexError, KeyError):
        return []
    if out[:1] == [99999]:
        return ["well-formed case rejected by the harness"]
    has_consume = any(o[0] == "consume" for o in d["ops"])
    if out[:1] == [2] and len(out) == 2:
        code = out[1]
        if code == 8:
            return ["hang: a call did not return within %d inner flushes (spinning)" % 8]
        if code == 3 and has_consume:
            return []   # consume() beyond the window: caller error (assert), judged by the correspondence
        if code == 9 and has_consume and d["adapter"] == 2:
            return []   # consume() while the buffer is lent to an in-flight read: caller error
        return ["panic/abort (code %d) instead of a result" % code]
    try:
        return _violations(d, out)
    except IndexError:
        return ["malformed result %r" % (out,)]


def _violations(d, out):
    v = []
    o = Cur(out)
    src, base, mx, sync = d["src"], d["base"], d["max"], d["adapter"] == 1
    rkinds = {a for (k, a) in d["rs"] if k == 1}
    wkinds = {a for (k, a) in d["ws"] if k == 1}
    rpend = any(k == 3 for (k, a) in d["rs"])
    wpend = any(k == 3 for (k, a) in d["ws"])
    p = 0                 # stream position: bytes handed to the caller so far
    delivered = 0         # sync: bytes the inner reader delivered so far (sum of fill results)
    accepted = []
    eof_seen = False      # the adapter reported end-of-file
    waiting = {"r": {}, "w": {}}   # entry point -> waker id of a task that got Pending
    last_flush_ok = False
    nreadops = 0
    for (name, w, n, data) in d["ops"]:
        last_flush_ok = False
        if name in ("wake_r", "wake_w"):
            if o.take() != 5:
                raise IndexError
            counts = o.take_n(4)
            side = "r" if name == "wake_r" else "w"
            need = {}
            for e, wid in waiting[side].items():
                need[wid] = need.get(wid, 0) + 1
            for wid, c in need.items():
                if counts[wid] < c:
                    v.append("stranded task: waker %d got Pending through %d entry point(s) of the %s half "
                             "but was woken %d time(s) when the inner operation completed"
                             % (wid, c, "read" if side == "r" else "write", counts[wid]))
            waiting[side] = {}
            continue
        st = o.take()
        side = "r" if name in ("read", "fill_buf", "consume", "fill_read_buf", "poll_read",
                               "poll_fill_buf", "poll_read_uninit") else "w"
        if name in ("fill_read_buf", "poll_read", "poll_read_uninit", "poll_fill_buf"):
            nreadops += 1     # each may have made (at most) one call of the inner reader
        if st == 3:
            if sync:
                v.append("%s returned Pending on the blocking-style adapter" % name)
            if not (rpend if side == "r" else wpend):
                v.append("%s returned Pending but the inner stream never did" % name)
            waiting[side][name] = w
            continue
        waiting[side].pop(name, None)
        if st == 1:
            kind = o.take()
            ok_kinds = (rkinds if side == "r" else wkinds) | ({WOULD_BLOCK} if sync else set())
            if side == "r":
                ok_kinds = ok_kinds | {OOM}
            else:
                ok_kinds = ok_kinds | {WRITE_ZERO}
            if kind not in ok_kinds:
                v.append("%s: error kind %d never produced by the inner stream" % (name, kind))
            if name == "fill_read_buf":
                if kind == OOM and delivered - p < mx:
                    v.append("fill_read_buf reports OutOfMemory with %d bytes buffered, limit %d" % (delivered - p, mx))
            continue
        if st != 0:
            raise IndexError
        if name in ("read", "poll_read", "poll_read_uninit"):
            bs = o.bytes()
            if len(bs) > n:
                v.append("%s returned %d bytes into a buffer of %d" % (name, len(bs), n))
            if bs != src[p:p + len(bs)]:
                v.append("%s: bytes handed out are not the next bytes of the stream (lost, duplicated or reordered)" % name)
            p += len(bs)
            if n > 0 and not bs:
                eof_seen = True
        elif name in ("fill_buf", "poll_fill_buf"):
            win = o.bytes()
            if win != src[p:p + len(win)]:
                v.append("%s: window is not the next bytes of the stream" % name)
            if not win:
                eof_seen = True
            if len(win) > mx:
                v.append("read buffer over limit: %d bytes buffered, max_buffer_size %d" % (len(win), mx))
        elif name == "consume":
            if o.take() != 0:
                raise IndexError
            p += n
        elif name in ("write", "poll_write"):
            k = o.take()
            if k > len(data):
                v.append("%s accepted %d of %d bytes" % (name, k, len(data)))
            if k > mx:
                v.append("%s accepted %d bytes, max_buffer_size %d" % (name, k, mx))
            accepted += data[:k]
        elif name == "fill_read_buf":
            k = o.take()
            delivered += k
            if k == 0:
                eof_seen = True
        elif name == "flush_write_buf":
            o.take()
            last_flush_ok = True
        elif name in ("flush",):
            o.take()
        elif name in ("poll_flush", "poll_close"):
            o.take()
            last_flush_ok = True
        else:
            raise IndexError
    remaining = o.take()
    buffered = o.bytes()
    eof = o.take() if sync else 0
    nlog = o.take()
    sink = []
    for _ in range(nlog):
        t = o.take()
        if t == 1:
            sink += o.bytes()
        elif t not in (2, 3):
            raise IndexError
    pending = o.bytes()
    if not o.done():
        raise IndexError
    consumed = len(src) - remaining
    # read side: exactly once, in order
    if p + len(buffered) != consumed or buffered != src[p:p + len(buffered)]:
        v.append("read side: %d bytes handed out + %d buffered, the inner stream delivered %d "
                 "(lost, duplicated or reordered)" % (p, len(buffered), consumed))
    # write side: exactly once, in order
    if sink + pending != accepted:
        v.append("write side: inner stream got %d bytes + %d pending, %d were accepted from the caller "
                 "(lost, duplicated or reordered)" % (len(sink), len(pending), len(accepted)))
    if len(pending) > mx:
        v.append("write buffer holds %d bytes, max_buffer_size %d" % (len(pending), mx))
    if last_flush_ok and pending:
        v.append("flush reported success with %d bytes still pending" % len(pending))
    if len(buffered) > mx:
        v.append("read buffer over limit: %d bytes buffered, max_buffer_size %d" % (len(buffered), mx))
    # end-of-file honesty
    zero_possible = (any(k == 2 or (k == 0 and a == 0) for (k, a) in d["rs"])
                     or len([1 for (k, a) in d["rs"] if k != 3]) < nreadops   # script exhausted
                     or remaining == 0)
    if (eof or eof_seen) and not zero_possible:
        v.append("false EOF: the adapter reported end-of-file, the inner stream still has %d bytes and "
                 "never returned 0" % remaining)
    return v


def oracle(case, out):
    try:
        d = gen_c12.decode(case)
    except (IndexError, KeyError):
        return None
    vs = violations(case, out)
    if not vs:
        return None
    for w in vs:
        if classify(d, w) is None:
            return w
    return vs[0]


class C12(diffcheck.DiffProp):
    pid = "C12"
    manifest = dict(
        text="Unbounded Coq theorems about an executable model of both compat adapters, by induction over every program of read/fill_buf/consume/write/flush/close calls and wake steps, every inner schedule, payload, base capacity 0.. and limit 0..: SyncStream (two Buffers, eof flag, limits, std::io traits, fill_read_buf/flush_write_buf) and AsyncStream (in-flight read/flush/shutdown futures, three waker slots per half). Theorems: byte-exact FIFO on both sides, flush/close completeness, limits, no stranded waker, bounded iterations, no panic other than caller misuse of consume and the max_buffer_size = 0 spin. The model is tied to the code on every run by an exact differential correspondence plus an independent oracle.",
        note="Trusted: the Coq kernel; ExtrOcamlBasic extraction and the OCaml driver; the harness's scripted inner stream (hand-written Gate future for Pending, counting wakers, drain phase); std Vec exact with_capacity / try_reserve_exact / shrink_to and amortised growth (modelled); Waker::will_wake true for clones of one Arc waker; 8 loop iterations stand for 'does not return' on both sides (C12_progress shows 2 suffice when max >= 1; the refutation is proved for every budget). Environment assumptions: the inner stream obeys the AsyncRead/AsyncWrite contract and keeps the waker of its latest poll; one inner operation per half is blocked at a time and completes only at a wake step; single thread; no allocation failure. Not covered: split() halves as separate values, the read_buf nightly path, &mut aliasing of extend_lifetime_mut. Known findings: base_capacity 0 false EOF, read-limit overshoot, max_buffer_size 0 spin. No axioms.",
        technique="Coq proof (induction over adapter programs and inner schedules) + extracted-model differential correspondence")
    prop_file = "prop/C12.v"
    model_name = "c12"
    harness_bin = "c12"
    package = "pure"
    gen = gen_c12
    counts = {"quick": 1500, "thorough": 40000}
    uses_consts = False
    rule = ("cases = corpus (D13 witnesses, minimised earlier disagreements) + random programs of "
            "read/fill_buf/consume/write/flush/close (+ fill_read_buf/flush_write_buf, wake steps) over "
            "SyncStream and AsyncStream, 70% structured call patterns / 30% adversarial, base capacity 0..9, "
            "max_buffer_size 0..40, inner schedules with short transfers, Pending, errors, EOF; "
            "distinct = distinct case lines; non-trivial = not rejected, no panic/hang, some count/byte non-zero")
    trusted_base = [
        "Coq 8.16.1 kernel (coqc, full .vo build); vm_compute only in witness/example lemmas",
        "extraction: ExtrOcamlBasic only, no Extract Constant; coq/extract/driver.ml; ocamlfind ocamlopt",
        "harness/pure/src/bin/c12.rs: scripted inner stream (hand-written Gate future for Pending, counting wakers, "
        "drain phase that reads back what is still buffered), tools/gen_c12.py, tools/p_c12.py oracle, tools/diffcheck.py",
        "std Vec<u8>: exact with_capacity / try_reserve_exact / shrink_to capacities and amortised growth "
        "max(8, 2*cap, len+additional) (modelled, not verified); Waker::will_wake true for clones of one Arc waker",
        "POLL_FUEL = 8 loop iterations per poll_* call stands for 'does not return' on both sides "
        "(theorem C12_progress: 3 suffice whenever max_buffer_size >= 1)",
    ]
    assumptions = [
        "the inner stream obeys the AsyncRead/AsyncWrite contract (returns n <= capacity / n <= len, records n via "
        "advance_to) and, when it returns Pending, keeps the waker of its latest poll and wakes it when it can progress",
        "one inner operation per half is blocked at a time and is completed only by the program's wake step; "
        "SyncStream's async methods are awaited to completion before the next call (a Pending inner only suspends them)",
        "consume(n) is called with n <= the window last shown and not while a read is in flight (otherwise: panic, "
        "modelled as such)",
        "single thread; no reserve failure (allocation never fails)",
    ]

    def oracle(self, case, out):
        return oracle(case, out)

    def known(self, case, out, what):
        try:
            d = gen_c12.decode(case)
        except (IndexError, KeyError):
            return None
        return classify(d, what)


PROP = C12()
