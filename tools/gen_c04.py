"""Case generator for C04 (task and join-handle lifecycle).  Format: coq/model/RunC04.v.

kind 0: single-threaded programs of spawn / wake / drop-waker / tick / poll-handle /
cancel / drop-handle / detach / drop-executor (compared exactly with the model);
kinds 1..5: cross-thread scenarios on real threads (judged by the oracle only)."""
import random

OPS = {1: "spawn", 2: "wake", 3: "dropw", 4: "tick", 5: "hpoll", 6: "cancel", 7: "hdrop",
       8: "detach", 9: "dropexec"}
KINDS = {0: "single-thread program", 1: "x-thread: handle awaited elsewhere",
         2: "x-thread: handle dropped/cancelled/detached elsewhere",
         3: "x-thread: wakers elsewhere vs tick and executor drop",
         4: "x-thread forced: waker holds Shared across teardown",
         5: "x-thread forced: handle inside SETTING_WAKER at completion",
         6: "x-thread forced: handle inside SETTING_WAKER during Task::drop (waker release)"}


def spawn_op(rng):
    mode = rng.choice([0, 0, 1, 1, 1, 2])
    n = rng.choice([0, 0, 1, 1, 2, 3, 5])
    end = rng.choice([0, 0, 0, 1, 2])
    return [1, mode, n, end]


def program(rng, adversarial):
    mi = rng.choice([1, 1, 2, 2, 3, 4, 61, 61])
    ops = []
    nt = 0
    for _ in range(rng.choice([1, 1, 2, 3, 4])):
        ops.append(spawn_op(rng))
        nt += 1
    dropped = False
    for _ in range(rng.randrange(2, 22)):
        r = rng.random()
        if adversarial and r < 0.08:
            i = rng.randrange(0, nt + 2)       # sometimes a task that does not exist
        else:
            i = rng.randrange(0, nt)
        if r < 0.30:
            ops.append([4, 0, 0, 0])
        elif r < 0.42:
            ops.append([2, i, 0, 0])
        elif r < 0.47:
            ops.append([3, i, 0, 0])
        elif r < 0.62:
            ops.append([5, i, rng.choice([0, 0, 1]), 0])
        elif r < 0.68:
            ops.append([6, i, 0, 0])
        elif r < 0.76:
            ops.append([7, i, 0, 0])
        elif r < 0.82:
            ops.append([8, i, 0, 0])
        elif r < 0.90 and not dropped:
            ops.append(spawn_op(rng))
            nt += 1
        elif r < (0.96 if adversarial else 0.92):
            ops.append([9, 0, 0, 0])
            dropped = True
        else:
            ops.append([4, 0, 0, 0])
    if rng.random() < 0.5:
        ops += [[4, 0, 0, 0]] * rng.randrange(1, 4)
    flat = [x for o in ops for x in o]
    return [0, mi, len(ops)] + flat


def final_wake_program(rng):
    """template: a task that is woken during the very poll in which it completes, with two or
    more runnable tasks queued behind it (hot list surgery at removal), then more ticks"""
    mi = rng.choice([2, 3, 4, 61, 61])
    ops = []
    lead = rng.randrange(0, 2)
    for _ in range(lead):
        ops.append([1, rng.choice([0, 1]), rng.choice([1, 2, 4]), 0])
    ops.append([1, 2, rng.choice([0, 0, 1, 2]), rng.choice([0, 0, 1])])
    for _ in range(rng.randrange(2, 5)):
        ops.append([1, rng.choice([1, 1, 0, 2]), rng.choice([2, 3, 5]), rng.choice([0, 0, 1])])
    nt = len(ops)
    for _ in range(rng.randrange(3, 8)):
        ops.append([4, 0, 0, 0])
        if rng.random() < 0.4:
            ops.append([2, rng.randrange(0, nt), 0, 0])
        if rng.random() < 0.2:
            ops.append([5, rng.randrange(0, nt), 0, 0])
    flat = [x for o in ops for x in o]
    return [0, mi, len(ops)] + flat


def xthread(rng):
    k = rng.choice([1, 1, 2, 2, 2, 3, 3, 4, 5, 6])
    return [k, rng.randrange(0, 12), rng.randrange(0, 4000), rng.randrange(0, 6)]


def generate(seed, n):
    rng = random.Random(seed)
    out = []
    for _ in range(n):
        r = rng.random()
        if r < 0.12:
            out.append(xthread(rng))
        elif r < 0.22:
            out.append(final_wake_program(rng))
        else:
            out.append(program(rng, rng.random() < 0.35))
    return out


def ops_of(case):
    if case[:1] != [0] or len(case) < 3:
        return []
    body = case[3:]
    return [body[i:i + 4] for i in range(0, len(body) - 3, 4)]


def describe(case):
    if not case:
        return "empty"
    k = case[0]
    if k != 0:
        return KINDS.get(k, "?")
    kinds = sorted({o[0] for o in ops_of(case)} - {1, 4})
    return "program{" + ",".join(OPS.get(x, "?") for x in kinds) + "}"


def nontrivial(case, impl_out):
    if not impl_out or impl_out[:1] in ([99999], [2]):
        return False
    if case[0] != 0:
        return True
    # a future was polled and a handle or waker operation took place
    polled = any(impl_out[i] == 100 and impl_out[i + 1] > 0 for i in range(len(impl_out) - 1))
    return polled and any(o[0] in (2, 3, 5, 6, 7, 8, 9) for o in ops_of(case))
