"""C01 — in-flight operations keep their memory and descriptors alive."""
import gen_drv
from p_drv import DrvProp, K, parse


def oracle(case, out):
    evs, slots = parse(out)
    in_kernel, frozen, queued, freed, alloc = set(), set(), {}, set(), set()
    held = set()
    ring_open = True
    for idx, (k, key, arg) in enumerate(evs):
        if k in (17, 19) and key >= 9999999:
            return ("event %d: the poller %s the address of operation storage that is not allocated any more "
                    "(stale user data: use after free)" % (idx, "was armed with" if k == 17 else "delivered an event carrying"))
        if k == K["NEW"]:
            alloc.add(key)
            held.add(key)
        elif k in (K["U_DROP"], K["U_CANCEL"], K["U_PUSH_READY"]) or (k == K["U_POP"] and arg == 1):
            # the submitter gives its handle up (drop, cancel consumes it, the result is taken)
            held.discard(key)
        elif k == K["SUBMIT"]:
            in_kernel.add(key)
        elif k in (K["FINAL"], K["DRAIN"]):
            if key in freed:
                return "event %d: completion handled for operation %d after its storage was freed" % (idx, key)
            in_kernel.discard(key)
        elif k == K["RING_CLOSED"]:
            ring_open = False
            in_kernel.clear()
        elif k == K["B_DISPATCH"]:
            frozen.add(key)
        elif k == K["B_END"]:
            frozen.discard(key)
        elif k in (K["MORE"], K["SETRES"], K["CANCEL_PUSH"], K["B_START"], 17, 19):
            if key in freed:
                return "event %d (kind %d): operation %d used after its storage was freed" % (idx, k, key)
        elif k == K["FREE"]:
            if key in freed:
                return "event %d: storage of operation %d freed twice" % (idx, key)
            if key not in alloc:
                return "event %d: free of unknown storage %d" % (idx, key)
            if key in in_kernel and ring_open:
                return ("event %d: storage (buffer, control data, fd clone) of operation %d freed while the "
                        "OS still owns the operation (no final completion, ring open)" % (idx, key))
            if key in frozen:
                return "event %d: storage of operation %d freed while a pool thread runs it" % (idx, key)
            if key in held:
                return ("event %d: storage of operation %d released while its submitter still holds the handle "
                        "(a reference was released twice; the handle now points to freed memory)" % (idx, key))
            freed.add(key)
    leaked = alloc - freed
    if leaked:
        return "operation storage %s never released although every handle and the driver were dropped" % sorted(leaked)
    return None


class C01(DrvProp):
    pid = "C01"
    manifest = dict(
        text="Coq proof of the reference-count invariant of the operation storage over a labelled transition system in which every hook event / user action is one label (all event sequences of any length, any number of operations, both drivers): storage of an operation the OS still owns is never freed, is released exactly once, is never touched after release; tied to the code by replaying hook-recorded histories of the real driver through the extracted LTS (every history must be a run; every KEY_FREE is predicted) plus an oracle on the history. Polling driver: model of the per-descriptor queues (PollDrv.v) with the invariant, proved for every reachable state, that the user data the OS poller holds is an operation queued on that descriptor (never freed storage), tied by replaying the queue/arm/event hook events through the extracted model (every poller call predicted).",
        note="Partial: the kernel (a CQE ends ownership; closing the ring quiesces in-flight ops) and pool threads are environment labels; memory contents are not modelled (storage identity only); weak memory not modelled (single driver thread). Trusted: Coq kernel, extraction + driver, the cfg(compio_verif) hook commits, harness/rt/src/bin/drv.rs. No axioms. Harness programs include zero-copy send, multishot accept, thread-pool jobs, cancel routes and driver drop.",
        technique="Coq invariant proof over an LTS + acceptance of recorded histories by the extracted LTS")
    prop_file = "prop/C01.v"
    gen = gen_drv.make("c01")
    rule = ("programs of push(recv/send/blocking) / write / poll / pop / drop-handle / cancel / cancel-token / "
            "drop-driver over socket pairs with harness-controlled readiness, both drivers, SQ capacities 1,2,4,1024; "
            "non-trivial = an operation reached the kernel/queue/pool and some storage was freed; distinct = distinct programs")

    def oracle(self, case, out):
        b = self.base_oracle(case, out)
        if b is not None:
            return b or None
        return oracle(case, out)


PROP = C01()
