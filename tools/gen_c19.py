"""Case generator for C19 (actors). Formats: see harness/ext/src/bin/c19.rs.

kind 1: deterministic programs of one controlling thread (spawn named/unnamed
        with capacities and failing hooks, supervisors, dropped spawn futures,
        send/call/stop/lookup, gates that block an actor so that queues fill,
        process-group join/leave/send/call; graceful end or Cluster::join).
kind 2: several threads using one mailbox (send / blocking call / stop).
kind 3: several threads joining / leaving / sending through one process group.
Only well-formed programs are produced (the harness rejects the others)."""
import random

MAXA = 6


def gen_kind1(rng):
    workers = rng.randrange(1, 5)
    end_mode = 1 if rng.random() < 0.15 else 0
    ops = []
    acts = []          # dict(mb=bool sure to have a mailbox, sup=bool used as a supervisor, gate=bool)
    next_id = [1]
    members = [0, 0]   # next member id per group

    def fresh():
        next_id[0] += 1
        return next_id[0]

    def spawn(force_plain=False):
        if len(acts) >= MAXA:
            return
        r = rng.random()
        name, cap, flags, sup = 0, rng.choice([1, 1, 2, 2, 3, 4]), 0, 0
        want_sup = (not force_plain) and r < 0.18
        if want_sup:
            # a future supervisor: roomy mailbox, never named, never failing to start
            cap = rng.choice([4, 6, 8])
            if rng.random() < 0.4:
                flags |= 16
            acts.append(dict(mb=True, sup=True, gate=False))
            ops.append([1, 0, cap, flags, 0])
            return
        if rng.random() < 0.45:
            name = rng.randrange(1, 4)
        k = rng.random()
        if k < 0.08:
            flags |= 1
        elif k < 0.16:
            flags |= 2
        elif k < 0.22:
            flags |= 4
        elif k < 0.28:
            flags |= 8
        elif k < 0.33:
            flags |= rng.randrange(1, 16)
        if rng.random() < 0.08 and not (flags & 1):
            flags |= 32
        sups = [i for i, a in enumerate(acts) if a["sup"]]
        if sups and rng.random() < 0.6:
            sup = rng.choice(sups) + 1
        sure = name == 0 and not (flags & 1) and not (flags & 32)
        acts.append(dict(mb=sure, sup=False, gate=False))
        ops.append([1, name, cap, flags, sup])

    spawn(force_plain=rng.random() < 0.6)
    n = rng.randrange(3, 16)
    for _ in range(n):
        r = rng.random()
        targets = [i for i, a in enumerate(acts) if not a["sup"]]
        anyt = list(range(len(acts)))
        if r < 0.14 or not targets:
            spawn()
        elif r < 0.44:
            i = rng.choice(targets if rng.random() < 0.9 else anyt)
            beh = rng.choice([0, 0, 0, 0, 1, 3, 5, 6, 2, 2])
            if beh == 2 and (acts[i]["gate"] or acts[i]["sup"]):
                beh = 0
            if beh == 2:
                acts[i]["gate"] = True
            ops.append([2, i, fresh(), beh, 0])
        elif r < 0.62:
            i = rng.choice(targets if rng.random() < 0.9 else anyt)
            beh = rng.choice([0, 0, 0, 4, 1, 3, 5, 2])
            if beh == 2 and (acts[i]["gate"] or acts[i]["sup"]):
                beh = 0
            if beh == 2:
                acts[i]["gate"] = True
            ops.append([3, i, fresh(), beh, 0])
        elif r < 0.70:
            ops.append([4, rng.choice(anyt), 0, 0, 0])
        elif r < 0.80:
            ops.append([5, rng.randrange(1, 4), 0, 0, 0])
        elif r < 0.87:
            gated = [i for i, a in enumerate(acts) if a["gate"]]
            i = rng.choice(gated) if gated and rng.random() < 0.85 else rng.choice(anyt)
            acts[i]["gate"] = False
            ops.append([6, i, 0, 0, 0])
        elif r < 0.92:
            g = rng.randrange(0, 2)
            ops.append([7, g, rng.choice(anyt), 0, 0])
            members[g] += 1
        elif r < 0.96:
            if rng.random() < 0.6:
                ops.append([8, 0, fresh(), rng.choice([0, 0, 1, 3, 5]), 0])
            else:
                ops.append([11, 1, fresh(), rng.choice([0, 0, 4, 1, 5]), 0])
        elif r < 0.98:
            g = rng.randrange(0, 2)
            ops.append([9, g, rng.randrange(0, members[g] + 1), 0, 0])
        else:
            ops.append([10, rng.randrange(0, 2), 0, 0, 0])
    flat = [x for o in ops for x in o]
    return [1, workers, end_mode, len(ops)] + flat


def gen_group_program(rng):
    """kind 1 program centred on process-group routing: members that are full
    (gated actor, small capacity), closed (stopped) and free"""
    workers = rng.randrange(1, 5)
    na = rng.randrange(2, 5)
    ops = []
    ident = [10]

    def fresh():
        ident[0] += 1
        return ident[0]

    caps = [rng.choice([1, 1, 2, 3]) for _ in range(na)]
    for c in caps:
        ops.append([1, 0, c, 0, 0])
    g = rng.randrange(0, 2)
    joined = 0
    for i in range(na):
        if rng.random() < 0.85:
            ops.append([7, g, i, 0, 0])
            joined += 1
    for i in range(na):
        k = rng.random()
        if k < 0.35:
            ops.append([2, i, fresh(), 2, 0])          # gate: the actor is stuck, its queue fills
            for _ in range(rng.randrange(0, caps[i] + 1)):
                ops.append([2, i, fresh(), 0, 0])
        elif k < 0.55:
            ops.append([4, i, 0, 0, 0])                # closed member
    for _ in range(rng.randrange(2, 9)):
        if g == 0:
            ops.append([8, 0, fresh(), rng.choice([0, 0, 0, 5]), 0])
        else:
            ops.append([11, 1, fresh(), rng.choice([0, 0, 4]), 0])
        r = rng.random()
        if r < 0.15:
            ops.append([10, g, 0, 0, 0])
        elif r < 0.25 and joined:
            ops.append([9, g, rng.randrange(0, joined), 0, 0])
        elif r < 0.32:
            ops.append([7, g, rng.randrange(na), 0, 0])
            joined += 1
    ops.append([10, g, 0, 0, 0])
    flat = [x for o in ops for x in o]
    return [1, workers, 0, len(ops)] + flat


def gen_names_window(rng):
    """kind 1 programs about the reservation window: a named spawn whose pre_start is held open by
    the harness (op 12 ... op 13) while other spawns of the same name, lookups and unrelated spawns
    happen; then the winner lives, stops, and the name is taken again"""
    workers = rng.choice([1, 1, 2, 3, 4])
    end_mode = 1 if rng.random() < 0.12 else 0
    ops = []
    nact = [0]

    def add_spawn(code, name, cap, flags=0):
        if nact[0] >= MAXA:
            return None
        ops.append([code, name, cap, flags, 0])
        nact[0] += 1
        return nact[0] - 1

    name = rng.randrange(1, 4)
    other = name % 3 + 1
    first_flags = 1 if rng.random() < 0.2 else 0          # pre_start of the first one may fail
    first = add_spawn(12, name, rng.choice([1, 2, 3]), first_flags)
    for _ in range(rng.randrange(1, 5)):
        r = rng.random()
        if r < 0.35:
            add_spawn(1, name, rng.choice([1, 2, 4]))         # must be refused: the name is reserved
        elif r < 0.55:
            add_spawn(12, name, rng.choice([1, 2, 4]))        # a second gated one: refused at once
        elif r < 0.8:
            ops.append([5, name, 0, 0, 0])                    # invisible before activation
        elif r < 0.9:
            add_spawn(rng.choice([1, 12]), other, 2)
        else:
            ops.append([5, other, 0, 0, 0])
    if rng.random() < 0.85:
        ops.append([13, first, 0, 0, 0])                      # pre_start finishes: activation (or failure)
        ops.append([5, name, 0, 0, 0])
        for _ in range(rng.randrange(0, 3)):
            r = rng.random()
            if r < 0.5:
                add_spawn(rng.choice([1, 12]), name, rng.choice([1, 3]))
            elif r < 0.8:
                ops.append([5, name, 0, 0, 0])
            else:
                ops.append([2, first, 50 + len(ops), 0, 0])
        if rng.random() < 0.6:
            ops.append([rng.choice([4, 4, 2]), first, 60 + len(ops), 1, 0])   # stop / failing message
            ops.append([5, name, 0, 0, 0])
            w = add_spawn(rng.choice([1, 12]), name, rng.choice([2, 3]))
            if w is not None and ops[-1][0] == 12 and rng.random() < 0.7:
                ops.append([5, name, 0, 0, 0])
                ops.append([13, w, 0, 0, 0])
            ops.append([5, name, 0, 0, 0])
    # pending spawns that are left are finished (or cancelled) by the end of the program
    flat = [x for o in ops for x in o]
    return [1, workers, end_mode, len(ops)] + flat


def gen_poststop_wait(rng):
    """kind 1 programs in which post_stop waits for the caller of a call that was still queued when
    the actor stopped: the caller gives the signal only after its call returned (op 14)"""
    workers = rng.randrange(1, 5)
    cap = rng.choice([1, 2, 3, 4])
    name = rng.choice([0, 0, 2])
    flags = 64 | (rng.choice([0, 0, 0, 4, 8]))
    ops = [[1, name, cap, flags, 0]]
    ident = 1
    ops.append([2, 0, ident, 2, 0])               # the actor is stuck in a handler
    ncalls = 0
    for _ in range(rng.randrange(1, cap + 2)):
        ident += 1
        if rng.random() < 0.75:
            ops.append([3, 0, ident, rng.choice([0, 0, 4]), 0])
            ncalls += 1
        else:
            ops.append([2, 0, ident, 0, 0])
    how = rng.random()
    if how < 0.7:
        ops.append([4, 0, 0, 0, 0])                # stop() while they are queued
    else:
        ident += 1
        ops.insert(2, [2, 0, 90, 1, 0]) if cap > 1 and rng.random() < 0.5 else ops.append([4, 0, 0, 0, 0])
    ops.append([6, 0, 0, 0, 0])                    # the handler ends; the actor stops and reaches post_stop
    if name:
        ops.append([5, name, 0, 0, 0])
    order = list(range(ncalls))
    rng.shuffle(order)
    for k in order:
        ops.append([14, k, 0, 0, 0])               # each caller has its answer, then signals
    if not order and rng.random() < 0.5:
        ops.append([14, 0, 0, 0, 0])
    if name:
        ops.append([5, name, 0, 0, 0])
    flat = [x for o in ops for x in o]
    return [1, workers, 0, len(ops)] + flat


def gen_kind2(rng):
    workers = rng.randrange(1, 5)
    cap = rng.choice([1, 1, 2, 2, 3, 8])
    flags = rng.choice([0, 0, 0, 0, 0, 0, 2, 4, 8, 12])
    t = rng.randrange(1, 5)
    ident = 0
    threads = []
    for _ in range(t):
        prog = []
        for _ in range(rng.randrange(1, 7)):
            ident += 1
            r = rng.random()
            if r < 0.55:
                prog.append([1, ident, rng.choice([0, 0, 0, 5, 6, 5, 1] if rng.random() < 0.3 else [0, 0, 5, 6])])
            elif r < 0.93:
                prog.append([2, ident, rng.choice([0, 0, 0, 4, 5, 6, 1] if rng.random() < 0.3 else [0, 0, 4, 5, 6])])
            else:
                prog.append([3, 0, 0])
        threads.append(prog)
    out = [2, workers, cap, flags, t]
    for p in threads:
        out.append(len(p))
        for o in p:
            out += o
    return out


def gen_kind3(rng):
    workers = rng.randrange(1, 5)
    na = rng.randrange(1, 5)
    specs = []
    for _ in range(na):
        specs += [rng.choice([1, 1, 2, 3, 4]), 1 if rng.random() < 0.2 else 0]
    t = rng.randrange(1, 5)
    ident = 0
    out = [3, workers, na] + specs + [t]
    for _ in range(t):
        prog = [[1, rng.randrange(na)]]
        for _ in range(rng.randrange(1, 9)):
            r = rng.random()
            if r < 0.2:
                prog.append([1, rng.randrange(na)])
            elif r < 0.3:
                prog.append([2, 0])
            else:
                ident += 1
                prog.append([3, ident])
        out.append(len(prog))
        for o in prog:
            out += o
    return out


def generate(seed, n):
    rng = random.Random(seed * 7919 + 19)
    cases = []
    for _ in range(n):
        r = rng.random()
        if r < 0.33:
            cases.append(gen_kind1(rng))
        elif r < 0.45:
            cases.append(gen_group_program(rng))
        elif r < 0.57:
            cases.append(gen_names_window(rng))
        elif r < 0.66:
            cases.append(gen_poststop_wait(rng))
        elif r < 0.88:
            cases.append(gen_kind2(rng))
        elif r < 0.97:
            cases.append(gen_kind3(rng))
        else:
            cases.append([5, rng.randrange(1, 5), rng.choice([1, 2, 3]), rng.randrange(1, 5)])
    return cases


def describe(case):
    k = case[0] if case else 0
    if k == 1:
        ops = [case[4 + 5 * i] for i in range(case[3])] if len(case) >= 4 else []
        kind = ("group" if any(o in (7, 8, 11) for o in ops) else
                "names-window" if any(o in (12, 13) for o in ops) else
                "post_stop-waits" if 14 in ops else "actors")
        return "program:%s,end=%s,workers=%d" % (kind, "join" if case[2] else "stop", case[1])
    if k == 2:
        return "concurrent-mailbox,threads=%d,cap=%d" % (case[4], case[2])
    if k == 3:
        return "concurrent-group,threads=%d" % case[3 + 2 * case[2]]
    if k == 4:
        return "forced-schedule:late-push"
    if k == 5:
        return "concurrent-post_stop-waits,threads=%d" % case[3]
    return "other"


def nontrivial(case, out):
    if not out or out[0] == 99999 or (out[:1] == [2] and len(out) == 2):
        return False
    k = case[0]
    if k == 1:
        return any(100 <= x < 1100 for x in out)       # some handler ran
    if k == 2:
        return any(out[1 + 3 * i] == 7 for i in range(out[0]))
    if k == 4:
        return len(out) == 3 and out[0] == 1
    if k == 5:
        return len(out) >= 2 and any(x == 4 for x in out[1:])
    if k == 1 and any(case[4 + 5 * i] in (12, 13) for i in range(case[3])):
        return True
    return out[0] > 0
