#!/bin/sh
# dev helper: re-express a seeded change against /repo's current HEAD (3-way apply using the blob ids in
# the patch) when hook/fix commits moved its context. The original is kept as patch.orig.diff.
#   tools/seed_rebase.sh <seed-dir>...
for SD in "$@"; do
  SD=$(readlink -f $SD); WT=/tmp/seedrebase_$$
  git -C /repo worktree add -q --detach $WT HEAD || exit 2
  if git -C $WT apply --check $SD/patch.diff 2>/dev/null; then echo "$(basename $SD): applies as is";
  elif git -C $WT apply -3 $SD/patch.diff 2>/dev/null; then
    [ -f $SD/patch.orig.diff ] || cp $SD/patch.diff $SD/patch.orig.diff
    git -C $WT diff HEAD > $SD/patch.diff; echo "$(basename $SD): rebased ($(wc -l < $SD/patch.diff) lines)"
  else echo "$(basename $SD): CANNOT REBASE"; fi
  git -C /repo worktree remove --force $WT
done
