#!/usr/bin/env python3
"""(dev-time) print the as-built per-property summary for DESIGN.md §10 from the
registry, the prop files, the p_cnn manifests and known_findings.json"""
import importlib, json, os, re, sys
HERE = os.path.dirname(os.path.abspath(__file__)); sys.path.insert(0, HERE)
import registry, vlib
ROOT = os.path.dirname(HERE)
kf = json.load(open(os.path.join(ROOT, "known_findings.json")))
for pid in sorted(registry.PROPS):
    prop = importlib.import_module("p_" + pid.lower()).PROP
    src = vlib.strip_comments(open(os.path.join(ROOT, "coq", prop.prop_file)).read())
    thms = re.findall(r"^\s*(?:Theorem|Lemma|Corollary)\s+([A-Za-z0-9_']+)", src, re.M)
    exs = re.findall(r"^\s*Example\s+([A-Za-z0-9_']+)", src, re.M)
    deps = [d for d in (vlib.coq_deps(prop.prop_file) or []) if d.startswith(("model/", "thm/"))]
    known = [k["id"] for k in kf["known"] if k["property"] == pid]
    fixed = [re.search(r"property=%s (\w+)" % pid, f).group(1) for f in kf["fixed"] if "property=%s " % pid in f]
    m = prop.manifest
    print("### %s\n" % pid)
    print("* **Claim.** %s" % m["text"])
    print("* **Limits / trusted.** %s" % m["note"])
    print("* **Coq files.** %s" % ", ".join("`%s`" % d for d in deps))
    print("* **Pinned theorems (%d) in `%s`.** %s" % (len(thms), prop.prop_file, ", ".join("`%s`" % t for t in thms)))
    print("* **Examples / witnesses (%d).** %s" % (len(exs), ", ".join("`%s`" % t for t in exs)))
    bins = getattr(prop, "harness_bins", [(getattr(prop, "harness_bin", None), getattr(prop, "package", None))])
    print("* **Harness.** %s" % ", ".join("`harness/%s/src/bin/%s.rs`" % (p, b) for b, p in bins if b))
    print("* **Findings.** known: %s; fixed by: %s" % (", ".join(known) or "none", ", ".join(fixed) or "none"))
    print()
