#!/usr/bin/env python3
"""(dev-time) regenerate the table of DESIGN.md §8.3 from seeded/*/meta.json
(between the markers <!-- seeded-table-begin --> and <!-- seeded-table-end -->)."""
import json, os, re
ROOT = os.path.dirname(os.path.dirname(os.path.abspath(__file__)))
rows = []
def key(s):
    m = re.match(r"C(\d+)-m(\d+)", s)
    return (int(m.group(1)), int(m.group(2)))
def short(t, n):
    t = " ".join(str(t).split()).replace("|", "/")
    return t if len(t) <= n else t[:n - 1].rsplit(" ", 1)[0] + " …"
for sid in sorted(os.listdir(os.path.join(ROOT, "seeded")), key=key):
    m = json.load(open(os.path.join(ROOT, "seeded", sid, "meta.json")))
    rows.append("| %s | %s | %s | %s | %s |" % (sid, short(m.get("summary", ""), 230), short(m.get("needs", ""), 200),
                                               m.get("caught", "?"), short(m.get("caught_how", ""), 330)))
metas = [json.load(open(os.path.join(ROOT, "seeded", sid, "meta.json"))) for sid in os.listdir(os.path.join(ROOT, "seeded"))]
n = len(metas)
first_missed = sum(1 for m in metas if "FIRST MISSED" in m.get("caught_how", "") or "first missed" in m.get("caught_how", "").lower())
not_caught = sum(1 for m in metas if m.get("caught") != "yes")
summary = ("Summary: %d independent seeded changes kept (%d properties); %d were reported by the check as it stood when the "
           "seed arrived, %d were first missed and are reported after the strengthening named in the row, %d are still "
           "not reported (caught = no/partly).\n\n" % (n, len({m["property"] for m in metas}), n - first_missed - not_caught, first_missed, not_caught))
table = summary + "| seed | change | needs | caught | by which check, how (and what had to be added when it was first missed) |\n|---|---|---|---|---|\n" + "\n".join(rows)
p = os.path.join(ROOT, "DESIGN.md")
s = open(p).read()
s2 = re.sub(r"<!-- seeded-table-begin -->.*<!-- seeded-table-end -->",
            "<!-- seeded-table-begin -->\n" + table + "\n<!-- seeded-table-end -->", s, flags=re.S)
open(p, "w").write(s2)
print(len(rows), "rows")
