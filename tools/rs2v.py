#!/usr/bin/env python3
"""Fragment translator: regenerates coq/gen/Frag.v from the Rust sources.

usage: rs2v.py <repo> <out.v>

consts.py ties numeric constants to the source; this translator ties small
pieces of *code*: for every entry of FRAGS it locates one Rust function (by
file, optional `impl` header and name, optional cfg selector) or one anchored
expression, parses the body with a small Rust expression parser and prints a
Gallina definition with the same structure.  thm/FragThm.v then proves, for
all arguments, that each hand-written model function equals the translated
fragment, so an edit of the Rust function changes the generated definition and
breaks that proof obligation (or the translation itself: exit 1 = broken tie).

Supported Rust (anything else is a translation error, never a guess):
  statements   let [mut] x [: T] = e;   const X: T = e;   e;   macro!(..);
               (trace!/debug_assert!/assert! are dropped, as are statements
               under #[cfg(compio_verif)] and `if c { abort() }`)
  expressions  integer literals, paths (mapped through the fragment's `bind`
               table or the constants of Consts.v), unary ! - & &mut *,
               binary + - * / % | & ^ << >> < <= > >= == != && ||,
               e as T, (e), tuples, Some(e), None, if/else, match with tuple /
               Some / None / _ / variable patterns, blocks, unsafe blocks,
               methods min max unwrap_or is_some is_none saturating_sub
               checked_sub wrapping_sub count (Snapshot) and the Snapshot
               predicates, constructor calls listed in the fragment's `ctor`.
  atomics      self.0.{load,store,swap,fetch_or,fetch_and,fetch_add,fetch_sub}:
               the fragment is then a state transformer  word -> word * value.
Semantics of the arithmetic are the definitions of model/RsSem.v (hand
written, 30 lines): unbounded N with `not_w` = bitwise complement on the
fragment's word width, plain `-` = checked subtraction only in fragments that
declare sub="checked" (result type R), otherwise a translation error.
"""
import os
import re
import sys

# --------------------------------------------------------------------------
# fragments

class Frag:
    def __init__(self, name, file, fn=None, impl=None, cfg=None, expr=None, params=(), bind=None,
                 atomic=False, width=64, sub=None, ctor=None, generic=None, doc="", nth=0, num="N",
                 out=None, all_sites=False, try_into_bits=32, cast64=False, subst=None, block=None):
        self.name, self.file, self.fn, self.impl, self.cfg = name, file, fn, impl, cfg
        self.expr, self.params, self.bind = expr, list(params), dict(bind or {})
        self.atomic, self.width, self.sub, self.ctor = atomic, width, sub, dict(ctor or {})
        self.generic = dict(generic or {})   # const generic name -> coq param name
        self.doc, self.nth, self.num = doc, nth, num
        self.out = list(out or [])          # rust paths (assigned fields) whose final values are the result
        self.all_sites = all_sites          # anchored expression: every occurrence must translate identically
        self.try_into_bits = try_into_bits
        self.cast64 = cast64                # `as u64` truncates (the operand is a u128)
        self.subst = list(subst or [])      # (regex, replacement) applied to the located text before parsing:
                                            # names effectful sub-expressions (atomic loads, error constructors)
        self.block = block                  # (start regex, end regex): an anchored statement sequence


ST = "compio-executor/src/task/state.rs"
AW = "compio-driver/src/sys/driver/mod.rs"
SL = "compio-buf/src/slice.rs"


def _state(name, fn, generic=None):
    return Frag(name, ST, fn=fn, impl=r"impl State", atomic=True, generic=generic,
                bind={"self.0": "@word"},
                doc="State::%s (compio-executor/src/task/state.rs)" % fn)


def _snap(name, fn):
    return Frag(name, ST, fn=fn, impl=r"impl Snapshot", params=[("w", "N")], bind={"self.0": "w"},
                doc="Snapshot::%s" % fn)


FRAGS = [
    # ---- C04: the task state word ------------------------------------------------
    _state("st_set_has_result", "set_has_result", {"SET": "set"}),
    _state("st_set_has_waker", "set_has_waker", {"SET": "set"}),
    _state("st_start_scheduling", "start_scheduling"),
    _state("st_finish_scheduling", "finish_scheduling"),
    _state("st_unschedule", "unschedule"),
    _state("st_set_cancelled", "set_cancelled"),
    _state("st_finish_running", "finish_running"),
    _state("st_start_setting_waker", "start_setting_waker"),
    _state("st_finish_setting_waker", "finish_setting_waker", {"SUCCESS": "success"}),
    _state("st_set_dropped", "set_dropped"),
    _state("st_inc", "inc"),
    _state("st_dec", "dec"),
    _snap("snap_is_scheduled", "is_scheduled"),
    _snap("snap_is_scheduling", "is_scheduling"),
    _snap("snap_is_completed", "is_completed"),
    _snap("snap_is_cancelled", "is_cancelled"),
    _snap("snap_is_setting_waker", "is_setting_waker"),
    _snap("snap_has_waker", "has_waker"),
    _snap("snap_has_result", "has_result"),
    _snap("snap_count", "count"),
    # ---- C03: AwakeFlag (production variants and the hook variants) ---------------
    Frag("awake_set", AW, fn="set", impl=r"impl AwakeFlag", atomic=True, width=8, bind={"self.0": "@word"},
         doc="AwakeFlag::set"),
    Frag("awake_reset", AW, fn="reset", impl=r"impl AwakeFlag", cfg="not(compio_verif)", atomic=True, width=8,
         bind={"self.0": "@word"}, doc="AwakeFlag::reset (production build)"),
    Frag("awake_wake", AW, fn="wake", impl=r"impl AwakeFlag", cfg="not(compio_verif)", atomic=True, width=8,
         bind={"self.0": "@word"}, doc="AwakeFlag::wake (production build)"),
    Frag("awake_reset_hooked", AW, fn="reset", impl=r"impl AwakeFlag", cfg="compio_verif", atomic=True, width=8,
         bind={"self.0": "@word"}, doc="AwakeFlag::reset (cfg(compio_verif) build: same operation plus events)"),
    Frag("awake_wake_hooked", AW, fn="wake", impl=r"impl AwakeFlag", cfg="compio_verif", atomic=True, width=8,
         bind={"self.0": "@word"}, doc="AwakeFlag::wake (cfg(compio_verif) build)"),
    # ---- C10: Slice arithmetic ------------------------------------------------------
    Frag("slice_flatten", SL, fn="flatten", impl=r"impl<T: IoBuf> Slice<Slice<T>>", num="nat",
         params=[("lb", "nat"), ("le", "option nat"), ("sb", "nat"), ("se", "option nat")],
         bind={"self.buffer.begin": "lb", "self.buffer.end": "le", "self.begin": "sb", "self.end": "se"},
         ctor={"Slice::new": [1, 2]}, doc="Slice<Slice<T>>::flatten: (new_begin, new_end)"),
    Frag("slice_end_or_len", SL, fn="end_or_len", impl=r"impl<T: IoBuf> Slice<T>", num="nat",
         params=[("len0", "nat"), ("e", "option nat")],
         bind={"self.buffer.buf_len()": "len0", "self.end": "e"}, doc="Slice::end_or_len"),
    Frag("slice_end_or_cap", SL, fn="end_or_cap", impl=r"impl<T: IoBufMut> Slice<T>", num="nat",
         params=[("cap0", "nat"), ("e", "option nat")],
         bind={"self.buffer.buf_capacity()": "cap0", "self.end": "e"}, doc="Slice::end_or_cap"),
    # ---- C11 / C12: Buffer::need_flush (the eager-flush threshold) ------------------
    Frag("buffer_need_flush", "compio-io/src/buffer.rs", fn="need_flush", impl=r"impl<B: IoBufMut> Buffer<B>", num="nat",
         params=[("cap0", "nat"), ("len0", "nat")],
         bind={"self.buf_mut()": "@skip", "self.buf_mut().buf_capacity()": "cap0", "self.buf_mut().buf_len()": "len0"},
         doc="Buffer::need_flush"),
    # ---- C13: the two guards and the result of LengthDelimited::extract --------------
    Frag("ld_too_short", "compio-io/src/framed/frame.rs", expr=r"^\s*if (buf\.len\(\) < self\.length_field_len) \{",
         params=[("blen", "N"), ("lfl", "N")], bind={"buf.len()": "blen", "self.length_field_len": "lfl"},
         doc="LengthDelimited::extract: `not even the length field yet`"),
    Frag("ld_incomplete", "compio-io/src/framed/frame.rs", expr=r"^\s*if (buf\.len\(\) - self\.length_field_len < len) \{",
         params=[("blen", "N"), ("lfl", "N"), ("len", "N")], sub="trunc",
         bind={"buf.len()": "blen", "self.length_field_len": "lfl", "len": "len"},
         doc="LengthDelimited::extract: `payload not complete` (the subtraction is guarded by the first test)"),
    Frag("ld_frame", "compio-io/src/framed/frame.rs", expr=r"^\s*Ok\(Some\((Frame::new\(self\.length_field_len, len, 0\))\)\)",
         params=[("lfl", "N"), ("len", "N")], bind={"self.length_field_len": "lfl", "len": "len"},
         ctor={"Frame::new": [0, 1, 2]}, doc="LengthDelimited::extract: the frame (prefix, payload, suffix)"),
    # ---- C10 / C07: BufferRef::set_capacity --------------------------------------------
    Frag("bufref_set_capacity", "compio-driver/src/buffer_pool.rs", fn="set_capacity", impl=r"impl BufferRef",
         params=[("cap", "N"), ("full_cap", "N"), ("cap0", "N"), ("len0", "N")],
         bind={"cap": "cap", "self.full_cap": "full_cap", "self.cap": "cap0", "self.len": "len0"},
         out=["self.cap", "self.len"], doc="BufferRef::set_capacity: (new cap, new len)"),
    # ---- C08 / C20: request length of the io_uring read / write / send / recv SQEs -----
    Frag("iour_request_len", "compio-driver/src/sys/op/general/iour.rs", expr=r"^\s*(slice\.len\(\)\.try_into\(\)\.unwrap_or\(u32::MAX\)),",
         params=[("n", "N")], bind={"slice.len()": "n"}, all_sites=True,
         doc="length field of the SQE built from a buffer of n bytes (general ops)"),
    Frag("iour_request_len_sock", "compio-driver/src/sys/op/socket/iour.rs", expr=r"^\s*(slice\.len\(\)\.try_into\(\)\.unwrap_or\(u32::MAX\)),",
         params=[("n", "N")], bind={"slice.len()": "n"}, all_sites=True,
         doc="length field of the SQE built from a buffer of n bytes (socket ops)"),
    # ---- C17: the slot reservation of AsyncifyPool::dispatch ---------------------------
    Frag("asyncify_reserve", "compio-driver/src/asyncify.rs", expr=r"^\s*(\(n < self\.thread_limit\)\.then_some\(n \+ 1\))\s*$",
         params=[("n", "nat"), ("limit", "nat")], bind={"n": "n", "self.thread_limit": "limit"}, num="nat",
         doc="the closure of counter.fetch_update in AsyncifyPool::dispatch"),
    # ---- C19: round-robin advance of ProcessGroup::send ---------------------------------
    Frag("pg_next_index", "compio-actor/src/process_group/mod.rs", expr=r"^\s*index = (\(index \+ 1\) % state\.members\.len\(\));",
         params=[("index", "nat"), ("len0", "nat")], bind={"index": "index", "state.members.len()": "len0"}, num="nat",
         doc="ProcessGroup::send: the member tried after a full one"),
    # ---- C09: Interval::tick arithmetic (Instants and Durations as nanosecond counts) ---
    Frag("interval_rem", "compio-runtime/src/time/future.rs", expr=r"^\s*let rem = (\(now - self\.start\)\.as_nanos\(\) % self\.period\.as_nanos\(\));",
         params=[("now", "N"), ("start", "N"), ("period", "N")], sub="trunc",
         bind={"now": "now", "self.start": "start", "self.period": "period"},
         doc="Interval::tick: nanoseconds into the current period (Instant - Instant saturates)"),
    Frag("interval_next", "compio-runtime/src/time/future.rs",
         expr=r"^\s*let next = (now \+ self\.period\s*- Duration::new\(\(rem / 1_000_000_000\) as u64, \(rem % 1_000_000_000\) as u32\));",
         params=[("now", "N"), ("period", "N"), ("rem", "N")], sub="trunc", cast64=True,
         bind={"now": "now", "self.period": "period", "rem": "rem"},
         doc="Interval::tick: the instant of the next tick"),
    # ---- C06: Drop for SharedFd: when the waiting closer is woken ---------------------------
    Frag("fd_drop_wakes", "compio-driver/src/fd.rs", expr=r"^\s*if (Shared::strong_count\(&self\.0\) == 2 && self\.0\.waits\.load\(Ordering::Acquire\)) \{",
         subst=[(r"Shared::strong_count\(&self\.0\)", "count"), (r"self\.0\.waits\.load\(Ordering::Acquire\)", "waits")],
         params=[("count", "nat"), ("waits", "bool")], bind={"count": "count", "waits": "waits"}, num="nat",
         doc="Drop for SharedFd: the condition under which the registered waker is woken"),
    # ---- C12: SyncWriteBuf::write: how many bytes are accepted ------------------------------
    Frag("sync_write_accept", "compio-io/src/compat/sync_stream.rs",
         block=(r"^\s*if inner\.buf_len\(\) \+ buf\.len\(\) > self\.max_buffer_size \{", r"^\s*Ok\(buf\.len\(\)\)\s*\n\s*\}"),
         subst=[(r"Err\(would_block\(\"\"\)\)", "None"), (r"inner\.extend_from_slice\([^;]*\)\?;", ""),
                (r"\bOk\(", "Some(")],
         params=[("len0", "nat"), ("n", "nat"), ("maxb", "nat")], num="nat", sub="checked",
         bind={"inner.buf_len()": "len0", "buf.len()": "n", "self.max_buffer_size": "maxb"},
         doc="SyncWriteBuf::write: Some k = k bytes appended, None = WouldBlock (buffer full)"),
    Frag("sync_read_limit_hit", "compio-io/src/compat/sync_stream.rs", expr=r"^\s*if (current_len >= self\.max_buffer_size) \{",
         params=[("len0", "nat"), ("maxb", "nat")], num="nat", bind={"current_len": "len0", "self.max_buffer_size": "maxb"},
         doc="SyncReadBuf::fill_read_buf: the read limit is reported (OutOfMemory)"),
    # ---- C07: the ring slot a returned buffer is written to -----------------------------------
    Frag("pool_ring_idx", "compio-driver/src/sys/buffer_pool/iour.rs",
         expr=r"^\s*let idx = (\(self\.tail\(\)\.load\(Ordering::Acquire\) \+ offset\) % self\.len\.get\(\));",
         subst=[(r"self\.tail\(\)\.load\(Ordering::Acquire\)", "tail"), (r"self\.len\.get\(\)", "len0")],
         params=[("tail", "N"), ("offset", "N"), ("len0", "N")], bind={"tail": "tail", "offset": "offset", "len0": "len0"},
         doc="BufRing::add_buffer: index of the ring entry (u16 arithmetic; the sum is checked in a debug build)"),
    # ---- C01 / C02 / C03: how io_uring completions are classified in poll_entries ----------------
    Frag("iour_notify_rearm", "compio-driver/src/sys/driver/iour/mod.rs", fn="poll_entries", impl=r"impl Driver",
         subst=[(r"(?s)\A.*?Self::NOTIFY => \{\s*let flags = entry\.flags\(\);\s*if (.*?) \{.*\Z", r"\1"),
                (r"more\(flags\)", "more")],
         params=[("more", "bool")], bind={"more": "more"},
         doc="poll_entries, NOTIFY completion: NEED_PUSH_NOTIFIER is set (the notifier is armed again) iff this holds"),
    Frag("iour_cqe_more", "compio-driver/src/sys/driver/iour/mod.rs", fn="poll_entries", impl=r"impl Driver",
         subst=[(r"(?s)\A.*?key => \{\s*let flags = entry\.flags\(\);.*?\n\s*if (?!let )(.*?) \{.*\Z", r"\1"),
                (r"more\(flags\)", "more")],
         params=[("more", "bool")], bind={"more": "more"},
         doc="poll_entries, operation completion: non-final (push_multishot, keep in_flight) iff this holds, else final"),
    # ---- C16: RecvStream::read_to_end: the range covered by the (unordered) chunks ----------------
    Frag("rte_start_step", "compio-quic/src/recv_stream.rs", expr=r"^\s*start = (start\.min\(chunk\.offset\));",
         params=[("m", "nat"), ("off", "nat")], bind={"start": "m", "chunk.offset": "off"}, num="nat",
         doc="read_to_end: lowest offset seen so far, updated for every chunk"),
    Frag("rte_end_step", "compio-quic/src/recv_stream.rs",
         expr=r"^\s*end = (end\.max\(chunk\.offset \+ chunk\.bytes\.len\(\) as u64\));",
         params=[("m", "nat"), ("off", "nat"), ("len0", "nat")],
         bind={"end": "m", "chunk.offset": "off", "chunk.bytes.len()": "len0"}, num="nat",
         doc="read_to_end: highest end seen so far, updated for every chunk"),
    Frag("rte_place", "compio-quic/src/recv_stream.rs", expr=r"^\s*let offset = (\(offset - start\) as usize);",
         params=[("off", "nat"), ("start", "nat")], bind={"offset": "off", "start": "start"}, num="nat", sub="trunc",
         doc="read_to_end: where a chunk is copied to (start is the minimum of the offsets, so the subtraction is exact)"),
    # ---- C05: Proactor::cancel_token: when the driver is NOT asked to cancel --------------------
    Frag("cancel_token_skips", "compio-driver/src/lib.rs", expr=r"^\s*if (key\.set_cancelled\(\) \|\| key\.has_result\(\)) \{",
         subst=[(r"key\.set_cancelled\(\)", "was_cancelled"), (r"key\.has_result\(\)", "has_result")],
         params=[("was_cancelled", "bool"), ("has_result", "bool")],
         bind={"was_cancelled": "was_cancelled", "has_result": "has_result"},
         doc="Proactor::cancel_token returns false without touching the driver iff this holds"),
    # ---- C03 / C18: the wait decision of Runtime::block_on ------------------------------------------
    Frag("block_on_blocks", "compio-runtime/src/lib.rs",
         block=(r"^\s*let remaining_tasks = self\.run\(\);", r"self\.poll\(\);\s*\}"),
         subst=[(r"self\.run\(\)", "remaining"), (r"self\.poll_with\(Some\(Duration::ZERO\)\);", "false"),
                (r"self\.poll\(\);", "true")],
         params=[("remaining", "bool")], bind={"remaining": "remaining"},
         doc="Runtime::block_on_at: true = the loop blocks in the driver (poll()), false = it only polls with a zero timeout"),
    # ---- C13 / C14: layout of the multishot RECVMSG result buffer (sizes of the two libc structs are parameters)
    Frag("mshot_fixed_len", "compio-driver/src/sys/op/managed/iour.rs",
         expr=r"^\s*let fixed_len = (size_of::<io_uring_recvmsg_out>\(\) \+ NLEN \+ clen);",
         subst=[(r"size_of::<io_uring_recvmsg_out>\(\)", "hdr"), (r"\bNLEN\b", "nlen")],
         params=[("hdr", "nat"), ("nlen", "nat"), ("clen", "nat")], bind={"hdr": "hdr", "nlen": "nlen", "clen": "clen"}, num="nat",
         doc="RecvMsgMultiResultImpl::new: bytes in front of the payload (header + name area + control area)"),
    Frag("mshot_data_offset", "compio-driver/src/sys/op/managed/iour.rs",
         expr=r"^\s*let offset = (size_of::<io_uring_recvmsg_out>\(\) \+ NLEN \+ self\.clen);",
         subst=[(r"size_of::<io_uring_recvmsg_out>\(\)", "hdr"), (r"\bNLEN\b", "nlen")],
         params=[("hdr", "nat"), ("nlen", "nat"), ("clen", "nat")], bind={"hdr": "hdr", "nlen": "nlen", "self.clen": "clen"}, num="nat",
         doc="RecvMsgMultiResultImpl::data: offset of the payload in the buffer"),
]

# extra fragments are appended by the property builders below this line
try:
    from rs2v_frags import EXTRA_FRAGS  # noqa: E402
    FRAGS += EXTRA_FRAGS(Frag)
except ImportError:
    pass

CONST_NAMES = None  # filled from consts.py

# --------------------------------------------------------------------------
# locating source text


class TrError(Exception):
    pass


def strip_comments(src):
    out, i, n = [], 0, len(src)
    while i < n:
        if src.startswith("//", i):
            j = src.find("\n", i)
            i = n if j < 0 else j
        elif src.startswith("/*", i):
            j = src.find("*/", i + 2)
            i = n if j < 0 else j + 2
        elif src[i] == '"':
            j = i + 1
            while j < n and src[j] != '"':
                j += 2 if src[j] == "\\" else 1
            out.append('""')
            i = j + 1
        else:
            out.append(src[i])
            i += 1
    return "".join(out)


def match_brace(src, i):
    """src[i] == '{' -> index just after the matching '}'"""
    assert src[i] == "{"
    d = 0
    while i < len(src):
        if src[i] == "{":
            d += 1
        elif src[i] == "}":
            d -= 1
            if d == 0:
                return i + 1
        i += 1
    raise TrError("unbalanced braces")


def find_fn(src, frag):
    """returns (signature text, body text without the outer braces)"""
    scope = src
    if frag.impl:
        blocks = []
        for m in re.finditer(r"^" + frag.impl + r"\s*\{", src, re.M):
            e = match_brace(src, m.end() - 1)
            blocks.append(src[m.end():e - 1])
        if not blocks:
            raise TrError("impl header %r not found" % frag.impl)
        scope = "\n".join(blocks)
    found = []
    for m in re.finditer(r"((?:^[ \t]*#\[[^\n]*\]\s*\n)*)^[ \t]*(?:pub(?:\([a-z:]+\))?\s+)?(?:const\s+)?(?:unsafe\s+)?fn\s+" +
                         re.escape(frag.fn) + r"\b([^{;]*)\{", scope, re.M):
        attrs = m.group(1)
        cfgs = re.findall(r"#\[cfg\((.*)\)\]", attrs)
        if frag.cfg is not None:
            if frag.cfg not in cfgs:
                continue
        else:
            if any("compio_verif" in c and not c.startswith("not(") for c in cfgs):
                continue
        e = match_brace(scope, m.end() - 1)
        found.append((m.group(2), scope[m.end():e - 1]))
    if len(found) <= frag.nth:
        raise TrError("fn %s not found (impl %r, cfg %r)" % (frag.fn, frag.impl, frag.cfg))
    if frag.cfg is None and len(found) > 1 + frag.nth and frag.nth == 0 and len(found) != 1:
        raise TrError("fn %s is ambiguous (%d candidates)" % (frag.fn, len(found)))
    return found[frag.nth]

# --------------------------------------------------------------------------
# tokenizer + parser (expressions, statements)


TOK = re.compile(r"""\s*(
    0b[01_]+(?:[ui](?:8|16|32|64|128|size))? | 0x[0-9a-fA-F_]+(?:[ui](?:8|16|32|64|128|size))? |
    \d[\d_]*(?:[ui](?:8|16|32|64|128|size))? |
    "" | [A-Za-z_][A-Za-z0-9_]*!? | '[a-z_]+ |
    <<= | >>= | << | >> | <= | >= | == | != | && | \|\| | => | -> | :: | \.\. | \+= | -= | \|= | &= |
    [-+*/%|&^!<>=(){}\[\],;:.#?@]
)""", re.X)


def tokenize(s):
    toks, i = [], 0
    s = s.rstrip()
    while i < len(s):
        m = TOK.match(s, i)
        if not m:
            if s[i:].strip() == "":
                break
            raise TrError("cannot tokenize at %r" % s[i:i + 30])
        toks.append(m.group(1))
        i = m.end()
    return toks


class P:
    def __init__(self, toks):
        self.t, self.i = toks, 0

    def peek(self, k=0):
        return self.t[self.i + k] if self.i + k < len(self.t) else None

    def eat(self, x=None):
        t = self.peek()
        if t is None or (x is not None and t != x):
            raise TrError("expected %r, found %r (at token %d: %s)" % (x, t, self.i, " ".join(self.t[max(0, self.i - 6):self.i + 4])))
        self.i += 1
        return t

    # ---- types (skipped) ----
    def skip_type(self):
        depth = 0
        while True:
            t = self.peek()
            if t is None:
                return
            if t in ("<",):
                depth += 1
            elif t == ">":
                if depth == 0:
                    return
                depth -= 1
            elif t == ">>":
                if depth < 2:
                    return
                depth -= 2
            elif depth == 0 and t in ("=", ";", ",", ")", "{", "=>"):
                return
            self.i += 1

    # ---- blocks ----
    def block(self):
        self.eat("{")
        stmts, tail = [], None
        while self.peek() != "}":
            s = self.stmt()
            if s is None:
                continue
            if s[0] == "tail":
                tail = s[1]
                if self.peek() != "}":
                    raise TrError("expression in the middle of a block without ';'")
            else:
                stmts.append(s)
        self.eat("}")
        return ("block", stmts, tail)

    def stmt(self):
        skip = False
        while self.peek() == "#":
            self.eat("#")
            self.eat("[")
            d, txt = 1, []
            while d:
                t = self.eat()
                if t == "[":
                    d += 1
                elif t == "]":
                    d -= 1
                if d:
                    txt.append(t)
            a = "".join(txt)
            if a.startswith("cfg(") and "compio_verif" in a and not a.startswith("cfg(not("):
                skip = True
        t = self.peek()
        if t == "let":
            self.eat()
            if self.peek() == "mut":
                self.eat()
            pat = self.pattern()
            if self.peek() == ":":
                self.eat()
                self.skip_type()
            self.eat("=")
            e = self.expr()
            self.eat(";")
            return None if skip else ("let", pat, e)
        if t == "const":
            self.eat()
            name = self.eat()
            self.eat(":")
            self.skip_type()
            self.eat("=")
            e = self.expr()
            self.eat(";")
            return None if skip else ("let", ("pvar", name), e)
        if t == "return":
            self.eat()
            e = None if self.peek() == ";" else self.expr()
            if self.peek() == ";":
                self.eat()
            return None if skip else ("return", e)
        e = self.expr()
        if self.peek() in ("=", "+=", "-=", "|=", "&="):
            op = self.eat()
            r = self.expr()
            self.eat(";")
            if op != "=":
                r = ("bin", op[0], e, r)
            return None if skip else ("assign", e, r)
        if self.peek() == ";":
            self.eat()
            return None if skip else ("expr", e)
        if self.peek() == "}" or self.peek() is None:
            return None if skip else ("tail", e)
        if e[0] in ("if", "match", "block", "macro"):
            return None if skip else ("expr", e)      # block-like statement without ';'
        raise TrError("unsupported statement near %r" % " ".join(self.t[self.i:self.i + 6]))

    def pattern(self):
        t = self.eat()
        if t == "(":
            ps = []
            while self.peek() != ")":
                ps.append(self.pattern())
                if self.peek() == ",":
                    self.eat()
            self.eat(")")
            return ("ptuple", ps)
        if t == "_":
            return ("pwild",)
        if t == "Some":
            self.eat("(")
            p = self.pattern()
            self.eat(")")
            return ("psome", p)
        if t == "None":
            return ("pnone",)
        if t in ("true", "false"):
            return ("pbool", t == "true")
        if re.match(r"\d", t):
            return ("plit", lit(t))
        if t in ("ref", "mut", "&"):
            return self.pattern()
        if re.match(r"[A-Za-z_]", t):
            return ("pvar", t)
        raise TrError("unsupported pattern %r" % t)

    # ---- expressions (precedence climbing) ----
    BIN = [("||",), ("&&",), ("==", "!=", "<", "<=", ">", ">="), ("|",), ("^",), ("&",), ("<<", ">>"),
           ("+", "-"), ("*", "/", "%")]

    def expr(self, lvl=0):
        if lvl == len(self.BIN):
            return self.cast()
        l = self.expr(lvl + 1)
        while self.peek() in self.BIN[lvl]:
            op = self.eat()
            r = self.expr(lvl + 1)
            l = ("bin", op, l, r)
        return l

    def cast(self):
        e = self.unary()
        while self.peek() == "as":
            self.eat()
            ty = self.eat()
            while self.peek() == "::":
                self.eat()
                ty += "::" + self.eat()
            e = ("as", e, ty)
        return e

    def unary(self):
        t = self.peek()
        if t == "!":
            self.eat()
            return ("not", self.unary())
        if t == "-":
            self.eat()
            return ("neg", self.unary())
        if t in ("&", "*"):
            self.eat()
            if self.peek() == "mut":
                self.eat()
            return self.unary()
        return self.postfix(self.atom())

    def args(self):
        self.eat("(")
        a = []
        while self.peek() != ")":
            a.append(self.expr())
            if self.peek() == ",":
                self.eat()
        self.eat(")")
        return a

    def postfix(self, e):
        while True:
            t = self.peek()
            if t == ".":
                self.eat()
                name = self.eat()
                if self.peek() == "::":          # turbofish
                    self.eat()
                    self.eat("<")
                    self.skip_type()
                    self.eat(">")
                if self.peek() == "(":
                    e = ("method", e, name, self.args())
                else:
                    e = ("field", e, name)
            elif t == "(" and e[0] == "path":
                e = ("call", e[1], self.args())
            else:
                return e

    def atom(self):
        t = self.eat()
        if t == "(":
            if self.peek() == ")":
                self.eat()
                return ("unit",)
            e = self.expr()
            if self.peek() == ",":
                es = [e]
                while self.peek() == ",":
                    self.eat()
                    if self.peek() == ")":
                        break
                    es.append(self.expr())
                self.eat(")")
                return ("tuple", es)
            self.eat(")")
            return ("paren", e)
        if t == "{":
            self.i -= 1
            return self.block()
        if t == "unsafe":
            return self.block()
        if t == "if":
            c = self.expr()
            a = self.block()
            b = None
            if self.peek() == "else":
                self.eat()
                b = self.atom() if self.peek() == "if" else self.block()
                if b[0] == "if_tok":
                    b = b[1]
            return ("if", c, a, b)
        if t == "match":
            sc = self.expr()
            self.eat("{")
            arms = []
            while self.peek() != "}":
                p = self.pattern()
                self.eat("=>")
                b = self.expr()
                if self.peek() == ",":
                    self.eat()
                arms.append((p, b))
            self.eat("}")
            return ("match", sc, arms)
        if t == "return":
            raise TrError("early return is not supported")
        if t.endswith("!") and re.match(r"[A-Za-z_]", t):
            # macro call: swallow the balanced argument list
            op = self.eat()
            close = {"(": ")", "[": "]", "{": "}"}[op]
            d = 1
            inner = []
            while d:
                x = self.eat()
                if x == op:
                    d += 1
                elif x == close:
                    d -= 1
                if d:
                    inner.append(x)
            return ("macro", t[:-1], inner)
        if re.match(r"\d", t):
            return ("lit", lit(t))
        if t in ("true", "false"):
            return ("bool", t == "true")
        if re.match(r"[A-Za-z_]", t):
            path = t
            while self.peek() == "::":
                self.eat()
                if self.peek() == "<":
                    self.eat()
                    self.skip_type()
                    self.eat(">")
                    continue
                path += "::" + self.eat()
            return ("path", path)
        raise TrError("unexpected token %r" % t)


def lit(t):
    t = re.sub(r"[ui](8|16|32|64|128|size)$", "", t).replace("_", "")
    if t.startswith("0b"):
        return int(t[2:], 2)
    if t.startswith("0x"):
        return int(t[2:], 16)
    return int(t)

# --------------------------------------------------------------------------
# Gallina printer


def flat_path(e):
    """self.buffer.begin / self.0 / self.buffer.buf_len() as a dotted string, or None"""
    if e[0] == "path":
        return e[1]
    if e[0] == "field":
        b = flat_path(e[1])
        return None if b is None else b + "." + e[2]
    if e[0] == "method" and not e[3]:
        b = flat_path(e[1])
        return None if b is None else b + "." + e[2] + "()"
    if e[0] == "paren":
        return flat_path(e[1])
    return None


SNAP_METHODS = {"is_scheduled": "snap_is_scheduled", "is_scheduling": "snap_is_scheduling",
                "is_completed": "snap_is_completed", "is_cancelled": "snap_is_cancelled",
                "is_setting_waker": "snap_is_setting_waker", "has_waker": "snap_has_waker",
                "has_result": "snap_has_result", "count": "snap_count"}
WRAPPERS = {"Snapshot", "Ok", "Self"}
DROPPED_MACROS = {"trace", "debug_assert", "debug_assert_eq", "instrument", "debug"}
MAXES = {"usize::MAX": 2**64 - 1, "u64::MAX": 2**64 - 1, "u32::MAX": 2**32 - 1, "u16::MAX": 2**16 - 1, "u8::MAX": 255,
         "i32::MAX": 2**31 - 1}


class Gen:
    def __init__(self, frag, consts):
        self.f, self.consts = frag, consts
        self.n = 0
        self.monadic = frag.sub == "checked"
        self.S = "N" if frag.num == "N" else "nat"

    def fresh(self, base):
        self.n += 1
        return "%s%d" % (base, self.n)

    def num(self, v):
        if self.S == "nat":
            if v > 5000:
                raise TrError("nat literal too large: %d" % v)
            return str(v)
        return "%d%%N" % v

    # returns (term, type) ; type in {"num","bool","opt","tuple","unit","?"}
    def ex(self, e, env):
        k = e[0]
        S = self.S
        if k == "paren":
            return self.ex(e[1], env)
        if k == "lit":
            return self.num(e[1]), "num"
        if k == "bool":
            return ("true" if e[1] else "false"), "bool"
        if k == "unit":
            return "tt", "unit"
        fp = flat_path(e)
        if fp is not None:
            if fp in env:
                return env[fp]
            if fp in self.f.bind:
                b = self.f.bind[fp]
                if b == "@word":
                    raise TrError("the atomic cell is used outside an atomic operation")
                if b == "@skip":
                    return "@skip", "skip"
                ty = dict(self.f.params).get(b, "N")
                return b, ("opt" if ty.startswith("option") else "bool" if ty == "bool" else "num")
            if fp in self.f.generic:
                return self.f.generic[fp], "bool"
            if fp in MAXES:
                return self.num(MAXES[fp]), "num"
            short = fp.split("::")[-1]
            if fp in self.consts or short in self.consts:
                nm = self.consts.get(fp) or self.consts[short]
                if S == "nat":
                    return "(N.to_nat Consts.%s)" % nm, "num"
                return "Consts.%s" % nm, "num"
            if k == "path" and fp == "None":
                return "None", "opt"
            if k == "path":
                raise TrError("unbound name %s" % fp)
        if k == "field":
            raise TrError("unsupported field access %s" % (fp or e[2]))
        if k == "as":
            t, ty = self.ex(e[1], env)
            tgt = e[2]
            bits = {"u8": 8, "u16": 16, "u32": 32, "i32": 32}.get(tgt)
            if tgt == "u64" and self.f.cast64 and S == "N":
                return "(N.modulo %s (2 ^ 64))" % t, "num"
            if tgt in ("usize", "u64", "i64", "u128", "_"):
                return t, ty
            if bits and S == "N":
                return "(N.modulo %s (2 ^ %d))" % (t, bits), "num"
            raise TrError("unsupported cast to %s" % tgt)
        if k == "not":
            t, ty = self.ex(e[1], env)
            if ty == "bool":
                return "(negb %s)" % t, "bool"
            if S != "N":
                raise TrError("bitwise complement needs num=N")
            return "(not_w %d %s)" % (self.f.width, t), "num"
        if k == "bin":
            op = e[1]
            a, ta = self.ex(e[2], env)
            b, tb = self.ex(e[3], env)
            if op in ("&&", "||"):
                return "(%s %s %s)" % ("andb" if op == "&&" else "orb", a, b), "bool"
            if op in ("==", "!="):
                if ta == "bool" or tb == "bool":
                    r = "(Bool.eqb %s %s)" % (a, b)
                else:
                    r = "(%s.eqb %s %s)" % (S if S == "N" else "Nat", a, b)
                return (r if op == "==" else "(negb %s)" % r), "bool"
            M = "N" if S == "N" else "Nat"
            if op in ("<", "<=", ">", ">="):
                f = {"<": "ltb", "<=": "leb"}.get(op)
                if f:
                    return "(%s.%s %s %s)" % (M, f, a, b), "bool"
                f = {">": "ltb", ">=": "leb"}[op]
                return "(%s.%s %s %s)" % (M, f, b, a), "bool"
            if op == "-":
                if self.f.sub == "trunc":
                    return "(%s.sub %s %s)" % (M, a, b), "num"
                raise TrError("plain subtraction outside let in a fragment that is not sub=checked/trunc")
            fn = {"+": "add", "*": "mul", "/": "div", "%": "modulo", "|": "lor", "&": "land", "^": "lxor",
                  "<<": "shiftl", ">>": "shiftr"}[op]
            if ta == "bool" and op in ("|", "&"):
                return "(%s %s %s)" % ("orb" if op == "|" else "andb", a, b), "bool"
            return "(%s.%s %s %s)" % (M, fn, a, b), "num"
        if k == "tuple":
            ts = [self.ex(x, env)[0] for x in e[1]]
            return "(" + ", ".join(ts) + ")", "tuple"
        if k == "call":
            name, args = e[1], e[2]
            if name == "Some":
                return "(Some %s)" % self.ex(args[0], env)[0], "opt"
            if name in self.f.ctor:
                keep = self.f.ctor[name]
                ts = [self.ex(args[i], env)[0] for i in keep]
                return ("(" + ", ".join(ts) + ")" if len(ts) > 1 else ts[0]), "tuple"
            if name in WRAPPERS and len(args) == 1:
                return self.ex(args[0], env)
            if name == "Duration::new" and len(args) == 2 and S == "N":
                # a Duration is its nanosecond count
                return "(N.add (N.mul %s 1000000000%%N) %s)" % (self.ex(args[0], env)[0], self.ex(args[1], env)[0]), "num"
            raise TrError("unsupported call %s" % name)
        if k == "method":
            recv, name, args = e[1], e[2], e[3]
            M = "N" if S == "N" else "Nat"
            if name in ("min", "max") and len(args) == 1:
                a, _ = self.ex(recv, env)
                b, _ = self.ex(args[0], env)
                return "(%s.%s %s %s)" % (M, name, a, b), "num"
            if name == "unwrap_or" and recv[0] == "method" and recv[2] == "try_into" and not recv[3]:
                a, _ = self.ex(recv[1], env)
                b, _ = self.ex(args[0], env)
                lim = self.num(2 ** self.f.try_into_bits - 1)
                return "(if %s.leb %s %s then %s else %s)" % (M, a, lim, a, b), "num"
            if name == "unwrap_or":
                a, _ = self.ex(recv, env)
                b, tb = self.ex(args[0], env)
                x = self.fresh("u")
                return "(match %s with Some %s => %s | None => %s end)" % (a, x, x, b), tb
            if name in ("is_some", "is_none"):
                a, _ = self.ex(recv, env)
                return "(match %s with Some _ => %s | None => %s end)" % (
                    a, "true" if name == "is_some" else "false", "false" if name == "is_some" else "true"), "bool"
            if name == "saturating_sub":
                a, _ = self.ex(recv, env)
                b, _ = self.ex(args[0], env)
                return "(%s.sub %s %s)" % (M, a, b), "num"
            if name == "checked_sub":
                a, _ = self.ex(recv, env)
                b, _ = self.ex(args[0], env)
                return "(if %s.leb %s %s then Some (%s.sub %s %s) else None)" % (M, b, a, M, a, b), "opt"
            if name == "saturating_add" or name == "wrapping_add":
                raise TrError("unsupported method %s" % name)
            if name in SNAP_METHODS and not args:
                a, _ = self.ex(recv, env)
                return "(%s %s)" % (SNAP_METHODS[name], a), ("num" if name == "count" else "bool")
            if name in ("clone", "into", "get", "as_nanos") and not args:
                return self.ex(recv, env)
            if name == "then_some" and len(args) == 1:
                a, _ = self.ex(recv, env)
                b, _ = self.ex(args[0], env)
                return "(if %s then Some %s else None)" % (a, b), "opt"
            raise TrError("unsupported method .%s()" % name)
        if k == "if":
            c, _ = self.ex(e[1], env)
            a, ta = self.blk(e[2], env)
            if e[3] is None:
                raise TrError("if without else in expression position")
            b, tb = (self.blk(e[3], env) if e[3][0] == "block" else self.ex(e[3], env))
            return "(if %s then %s else %s)" % (c, a, b), ta if ta != "?" else tb
        if k == "match":
            sc = e[1]
            scs = sc[1] if sc[0] == "tuple" else [sc]
            st = [self.ex(x, env)[0] for x in scs]
            arms, ty = [], "?"
            for p, b in e[2]:
                env2 = dict(env)
                ps = p[1] if (p[0] == "ptuple" and sc[0] == "tuple") else [p]
                pt = ", ".join(self.pat(x, env2) for x in ps)
                bt, ty1 = (self.blk(b, env2) if b[0] == "block" else self.ex(b, env2))
                if ty == "?":
                    ty = ty1
                arms.append("| %s => %s" % (pt, bt))
            return "(match %s with %s end)" % (", ".join(st), " ".join(arms)), ty
        if k == "block":
            return self.blk(e, env)
        raise TrError("unsupported expression %r" % (k,))

    def pat(self, p, env):
        k = p[0]
        if k == "pwild":
            return "_"
        if k == "pvar":
            v = self.fresh(re.sub(r"\W", "_", p[1]) + "_")
            env[p[1]] = (v, "?")
            return v
        if k == "psome":
            inner = self.pat(p[1], env)
            if p[1][0] == "pvar":
                env[p[1][1]] = (env[p[1][1]][0], "num")
            return "(Some %s)" % inner
        if k == "pnone":
            return "None"
        if k == "pbool":
            return "true" if p[1] else "false"
        if k == "plit":
            return self.num(p[1])
        if k == "ptuple":
            return "(" + ", ".join(self.pat(x, env) for x in p[1]) + ")"
        raise TrError("pattern")

    def blk(self, b, env, top=False):
        """pure block -> (term, type)"""
        assert b[0] == "block"
        env = dict(env)
        return self.stmts(list(b[1]), b[2], env, top)

    def result(self, tail, env, top):
        if top and self.f.out:
            ts = []
            for pth in self.f.out:
                if pth in env:
                    ts.append(env[pth][0])
                elif pth in self.f.bind:
                    ts.append(self.f.bind[pth])
                else:
                    raise TrError("out path %s is not bound" % pth)
            return ("(" + ", ".join(ts) + ")" if len(ts) > 1 else ts[0]), "tuple"
        if tail is None:
            return "tt", "unit"
        return self.ex(tail, env)

    def stmts(self, ss, tail, env, top):
        out = []
        while ss:
            s = ss.pop(0)
            if s[0] == "let":
                t, ty = self.ex(s[2], env)
                if t == "@skip":
                    if s[1][0] != "pvar":
                        raise TrError("skipped binding needs a plain name")
                    # alias: paths through the new name resolve like paths through the bound one
                    fp = flat_path(s[2])
                    for k in list(self.f.bind):
                        if k.startswith(fp + "."):
                            self.f.bind[s[1][1] + k[len(fp):]] = self.f.bind[k]
                    self.f.bind[s[1][1]] = "@skip"
                    continue
                if s[1][0] == "pvar":
                    v = self.fresh(re.sub(r"\W", "_", s[1][1]) + "_")
                    out.append("let %s := %s in" % (v, t))
                    env[s[1][1]] = (v, ty)
                else:
                    pt = self.pat(s[1], env)
                    out.append("let '%s := %s in" % (pt, t))
            elif s[0] == "assign":
                fp = flat_path(s[1])
                if fp is None or (fp not in env and fp not in self.f.bind):
                    raise TrError("assignment to an unbound place")
                t, ty = self.ex(s[2], env)
                v = self.fresh(re.sub(r"\W", "_", fp) + "_")
                out.append("let %s := %s in" % (v, t))
                env[fp] = (v, ty)
            elif s[0] == "return":
                t, ty = self.result(s[1], env, top)
                return ("(" + " ".join(out + [t]) + ")" if out else t), ty
            elif s[0] == "expr":
                e = s[1]
                if self.droppable(e):
                    continue
                if e[0] == "if" and e[3] is None and e[2][1] and e[2][1][-1][0] == "return" and e[2][2] is None:
                    # `if c { ..; return [e]; }  rest`  ==  if c then .. e else rest
                    c, _ = self.ex(e[1], env)
                    a, ta = self.stmts(list(e[2][1]), None, dict(env), top)
                    r, tr = self.stmts(ss, tail, dict(env), top)
                    t = "(if %s then %s else %s)" % (c, a, r)
                    return ("(" + " ".join(out + [t]) + ")" if out else t), tr
                raise TrError("expression statement with an effect in a pure fragment")
        t, ty = self.result(tail, env, top)
        return ("(" + " ".join(out + [t]) + ")" if out else t), ty

    def cblk(self, b, env):
        if b[0] != "block":
            return self.ctail(b, env)
        return self.cstmts(list(b[1]), b[2], dict(env))

    def csub(self, e, env):
        """`a - b` (checked) or None"""
        while e[0] == "paren":
            e = e[1]
        if e[0] == "bin" and e[1] == "-":
            a, _ = self.ex(e[2], env)
            b, _ = self.ex(e[3], env)
            return "(%s %s %s)" % ("usub" if self.S == "nat" else "usubN", a, b)
        return None

    def ctail(self, e, env):
        if e is None:
            return "(Ok tt)"
        while e[0] == "paren":
            e = e[1]
        if e[0] == "block":
            return self.cblk(e, env)
        if e[0] == "if":
            if e[3] is None:
                raise TrError("if without else in tail position")
            c, _ = self.ex(e[1], env)
            return "(if %s then %s else %s)" % (c, self.cblk(e[2], env), self.cblk(e[3], env))
        if e[0] == "match":
            sc = e[1]
            scs = sc[1] if sc[0] == "tuple" else [sc]
            st = [self.ex(x, env)[0] for x in scs]
            arms = []
            for p, b in e[2]:
                env2 = dict(env)
                ps = p[1] if (p[0] == "ptuple" and sc[0] == "tuple") else [p]
                pt = ", ".join(self.pat(x, env2) for x in ps)
                arms.append("| %s => %s" % (pt, self.cblk(b, env2)))
            return "(match %s with %s end)" % (", ".join(st), " ".join(arms))
        su = self.csub(e, env)
        if su is not None:
            return su
        return "(Ok %s)" % self.ex(e, env)[0]

    def cstmts(self, ss, tail, env):
        out = []
        while ss:
            s = ss.pop(0)
            if s[0] in ("let", "assign"):
                if s[0] == "let":
                    if s[1][0] != "pvar":
                        raise TrError("pattern let in a checked fragment")
                    name = s[1][1]
                else:
                    name = flat_path(s[1])
                    if name is None or (name not in env and name not in self.f.bind):
                        raise TrError("assignment to an unbound place")
                v = self.fresh(re.sub(r"\W", "_", name) + "_")
                su = self.csub(s[2], env)
                if su is not None:
                    out.append("let! %s := %s in" % (v, su))
                    env[name] = (v, "num")
                else:
                    t, ty = self.ex(s[2], env)
                    out.append("let %s := %s in" % (v, t))
                    env[name] = (v, ty)
            elif s[0] == "return":
                return "(" + " ".join(out + [self.ctail(s[1], env)]) + ")"
            elif s[0] == "expr":
                e = s[1]
                if self.droppable(e):
                    continue
                if e[0] == "if" and e[3] is None and e[2][1] and e[2][1][-1][0] == "return" and e[2][2] is None:
                    c, _ = self.ex(e[1], env)
                    a = self.cstmts(list(e[2][1]), None, dict(env))
                    r = self.cstmts(ss, tail, dict(env))
                    return "(" + " ".join(out + ["(if %s then %s else %s)" % (c, a, r)]) + ")"
                if e[0] in ("if", "match") and not ss and tail is None:
                    return "(" + " ".join(out + [self.ctail(e, env)]) + ")"
                raise TrError("expression statement with an effect in a checked fragment")
        return "(" + " ".join(out + [self.ctail(tail, env)]) + ")"

    def droppable(self, e):
        if e[0] == "macro" and e[1] in DROPPED_MACROS:
            return True
        if e[0] == "if" and e[3] is None:
            body = e[2]
            if not body[1] and body[2] is not None and body[2][0] == "call" and body[2][1] == "abort":
                return True          # `if c { abort() }`: process abort, not a behaviour of the model
            if len(body[1]) == 1 and body[2] is None and body[1][0][0] == "expr" and body[1][0][1][0] == "call" \
                    and body[1][0][1][1] == "abort":
                return True
        return False

    # ---------------- atomic fragments: word -> word * value ----------------
    def atomic_op(self, e, env, w):
        """if e is self.0.<op>(..): returns (new word term, value term, type)"""
        if e[0] != "method":
            return None
        fp = flat_path(e[1])
        if fp is None or self.f.bind.get(fp) != "@word":
            return None
        name, args = e[2], e[3]
        if name == "load":
            return w, w, "num"
        v = self.ex(args[0], env)[0]
        if name == "store":
            return v, "tt", "unit"
        if name == "swap":
            return v, w, "num"
        if name == "fetch_or":
            return "(N.lor %s %s)" % (w, v), w, "num"
        if name == "fetch_and":
            return "(N.land %s %s)" % (w, v), w, "num"
        if name == "fetch_add":
            return "(N.add %s %s)" % (w, v), w, "num"
        if name == "fetch_sub":
            return "(N.sub %s %s)" % (w, v), w, "num"
        raise TrError("unsupported atomic operation %s" % name)

    def aex(self, e, env, w):
        """expression that may contain ONE atomic operation at its root (possibly under wrappers /
        comparisons with pure operands); returns (list of let lines, new word name, value term, type)"""
        if e[0] == "paren":
            return self.aex(e[1], env, w)
        if e[0] == "call" and e[1] in WRAPPERS and len(e[2]) == 1:
            return self.aex(e[2][0], env, w)
        a = self.atomic_op(e, env, w)
        if a is not None:
            nw, val, ty = a
            w2, x = self.fresh("w"), self.fresh("old")
            lines = ["let %s := %s in" % (x, val)] if val != "tt" else []
            lines.append("let %s := %s in" % (w2, nw))
            return lines, w2, (x if val != "tt" else "tt"), ty
        if e[0] == "bin" and self.has_atomic(e[2]) and not self.has_atomic(e[3]):
            lines, w2, val, ty = self.aex(e[2], env, w)
            tmp = self.fresh("t")
            env2 = dict(env)
            env2["@tmp"] = (val, ty)
            t, ty2 = self.ex(("bin", e[1], ("path", "@tmp"), e[3]), env2)
            return lines, w2, t, ty2
        if e[0] == "if":
            c, _ = self.ex(e[1], env)
            if e[3] is None:
                raise TrError("atomic if without else")
            ta = self.ablk(e[2], env, w)
            tb = self.ablk(e[3], env, w) if e[3][0] == "block" else None
            if tb is None:
                raise TrError("else-if with atomics")
            w2, x = self.fresh("w"), self.fresh("v")
            return ["let '(%s, %s) := (if %s then %s else %s) in" % (w2, x, c, ta[0], tb[0])], w2, x, ta[1]
        if not self.has_atomic(e):
            t, ty = self.ex(e, env)
            return [], w, t, ty
        raise TrError("atomic operation in an unsupported position")

    def has_atomic(self, e):
        if isinstance(e, tuple):
            if e and e[0] == "method":
                fp = flat_path(e[1])
                if fp is not None and self.f.bind.get(fp) == "@word":
                    return True
            return any(self.has_atomic(x) for x in e[1:])
        if isinstance(e, list):
            return any(self.has_atomic(x) for x in e)
        return False

    def ablk(self, b, env, w):
        """atomic block -> (term of type N * T, T)"""
        env = dict(env)
        out = []
        for s in b[1]:
            if s[0] == "let":
                lines, w, val, ty = self.aex(s[2], env, w)
                out += lines
                if s[1][0] != "pvar":
                    raise TrError("pattern let in an atomic fragment")
                v = self.fresh(re.sub(r"\W", "_", s[1][1]) + "_")
                out.append("let %s := %s in" % (v, val))
                env[s[1][1]] = (v, ty)
            elif s[0] == "expr":
                if self.droppable(s[1]):
                    continue
                if s[1][0] == "call" and s[1][1].endswith("verif::emit"):
                    continue
                lines, w, val, ty = self.aex(s[1], env, w)
                out += lines
        if b[2] is None:
            return "(" + " ".join(out + ["(%s, tt)" % w]) + ")", "unit"
        lines, w, val, ty = self.aex(b[2], env, w)
        out += lines
        return "(" + " ".join(out + ["(%s, %s)" % (w, val)]) + ")", ty


COQTY = {"num": None, "bool": "bool", "unit": "unit"}


def apply_subst(frag, text):
    for rx, rep in frag.subst:
        text = re.sub(rx, rep, text)
    return text


def translate(frag, repo, consts):
    src = strip_comments(open(os.path.join(repo, frag.file)).read())
    if frag.block is not None:
        m0 = list(re.finditer(frag.block[0], src, re.M))
        if len(m0) <= frag.nth:
            raise TrError("block start %r not found" % frag.block[0])
        st = m0[frag.nth].start()
        m1 = re.compile(frag.block[1], re.M).search(src, m0[frag.nth].end())
        if not m1:
            raise TrError("block end %r not found" % frag.block[1])
        text = apply_subst(frag, src[st:m1.end()])
        p = P(tokenize("{" + text + "}"))
        body = p.block()
    elif frag.expr is not None:
        ms = re.findall(frag.expr, src, re.M)
        if len(ms) <= frag.nth:
            raise TrError("anchored expression %r not found" % frag.expr)
        if frag.all_sites:
            texts = set()
            for m in ms:
                g0 = Gen(frag, consts)
                texts.add(g0.blk(("block", [], P(tokenize(apply_subst(frag, m))).expr()), {})[0])
            if len(texts) != 1:
                raise TrError("the %d occurrences of %r do not translate to one term: %s" % (len(ms), frag.expr, sorted(texts)))
            frag.doc += " [%d sites]" % len(ms)
        body = ("block", [], P(tokenize(apply_subst(frag, ms[frag.nth]))).expr())
    else:
        sig, text = find_fn(src, frag)
        p = P(tokenize("{" + apply_subst(frag, text) + "}"))
        body = p.block()
        if p.peek() is not None:
            raise TrError("trailing tokens after the function body")
    g = Gen(frag, consts)
    params = list(frag.params)
    for _, cn in frag.generic.items():
        params.append((cn, "bool"))
    ps = " ".join("(%s : %s)" % (n, t) for n, t in params)
    if frag.atomic:
        term, ty = g.ablk(body, {}, "w0")
        head = "Definition %s %s (w0 : N) :=" % (frag.name, ps)
    elif frag.sub == "checked":
        term = g.cblk(body, {})
        head = "Definition %s %s :=" % (frag.name, ps)
    else:
        term, ty = g.blk(body, {}, top=True)
        head = "Definition %s %s :=" % (frag.name, ps)
    head = re.sub(r"\s+", " ", head)
    return "(* %s — %s%s *)\n%s\n  %s." % (frag.doc or frag.name, frag.file,
                                           (" [cfg(%s)]" % frag.cfg) if frag.cfg else "", head, term)


def load_const_names():
    here = os.path.dirname(os.path.abspath(__file__))
    sys.path.insert(0, here)
    import consts as C
    names = {}
    for coq, _f, rx in C.CONST_ITEMS:
        m = re.search(r"const (\w+):", rx)
        if m:
            names[m.group(1)] = coq
    return names


def main():
    repo, out = sys.argv[1], sys.argv[2]
    consts = load_const_names()
    lines = ["(* GENERATED by tools/rs2v.py from the Rust sources of the repository under check - do not edit. *)",
             "From Coq Require Import NArith Bool List.",
             "From Compio.Model Require Import Base RsSem.",
             "From Compio.Gen Require Consts.",
             ""]
    bad = 0
    for f in FRAGS:
        try:
            lines.append(translate(f, repo, consts))
            lines.append("")
        except (TrError, KeyError, IndexError, AssertionError) as e:
            sys.stderr.write("rs2v: cannot translate %s (%s %s): %s\n" % (f.name, f.file, f.fn or f.expr, e))
            bad += 1
    text = "\n".join(lines)
    if bad:
        sys.stderr.write("rs2v: %d fragment(s) could not be translated: broken tie\n" % bad)
        return 1
    old = open(out).read() if os.path.exists(out) else None
    if old != text:
        os.makedirs(os.path.dirname(out), exist_ok=True)
        open(out, "w").write(text)
    print("rs2v: %d fragments -> %s" % (len(FRAGS), out))
    return 0


if __name__ == "__main__":
    sys.exit(main())
