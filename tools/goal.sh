#!/bin/sh
# dev helper: tools/goal.sh <file.v relative to coq/> <line>  -> prints the goals after that line
f=$1; n=$2
cd /verif/coq
mkdir -p .tmp; tmp=.tmp/Tmp_goal_$$.v
head -n $n $f > $tmp
echo "Show. " >> $tmp
timeout 120 coqc -Q model Compio.Model -Q thm Compio.Thm -Q prop Compio.Prop -Q gen Compio.Gen $tmp 2>&1 | grep -v "^File\|Error: There are pending proofs\|^$" | head -${3:-60}
rm -f .tmp/Tmp_goal_$$.* .tmp/.Tmp_goal_$$.aux
