"""Case generator for C15 (TLS and WebSocket layers over a scripted transport).

Case formats (see harness/ext/src/bin/c15.rs):
  1 backend wrap <cfg client> <cfg server> seed len nchunks chunks.. lockstep flush_each crbuf srbuf
      backend 0 native-tls, 1 rustls; wrap 0 = the transport implements the futures-io traits,
      1 = it implements the compio-io traits under compio_io::compat::AsyncStream
      cfg = buffered cap nr rlims.. nw wlims.. np pends..
          (hold writes back until flushed; bytes in flight bound, 0 = none; per-call read / write
           limits, cyclic, 0 = no limit; scripted Pending answers, one 0/1 per transport call)
  2 tls <relay c2s> <relay s2c> sndbuf mode nmsg (kind len)* seed
      compio-ws over Unix socket pairs with a relay; tls 0 plain, 1 native-tls, 2 rustls;
      relay = nr rlims.. nd delays..; mode 0 lock-step, 1 pipelined, 2 server idles after a Ping,
      3 stalled outgoing direction: the messages are the SERVER's; the client has a 400000-byte message
      fed but not flushed while the relay does not read the client's direction (its socket is full), and
      reads: every message must be delivered once, in order, when the flush can complete;
      message kind 0 text, 1 binary, 2 ping
  3 role len
      native-tls over a transport that is always ready (peer on another thread) and holds
      writes back until flushed; role 0 = compio-tls is the client
"""
import random


def cfg(buffered=0, cap=0, rlim=(), wlim=(), pend=()):
    return [buffered, cap, len(rlim), *rlim, len(wlim), *wlim, len(pend), *pend]


def tls_case(backend, wrap, ccfg, scfg, seed, ln, chunks, lock, fe, crbuf, srbuf):
    return [1, backend, wrap] + ccfg + scfg + [seed, ln, len(chunks), *chunks, lock, fe, crbuf, srbuf]


def relay(rlim=(), delays=()):
    return [len(rlim), *rlim, len(delays), *delays]


def ws_case(tls, r1, r2, sndbuf, mode, msgs, seed):
    flat = []
    for k, l in msgs:
        flat += [k, l]
    return [2, tls] + r1 + r2 + [sndbuf, mode, len(msgs)] + flat + [seed]


LIMS = [0, 1, 2, 5, 17, 100, 1000, 16384]


def rand_cfg(r, clean):
    """clean = a transport whose flush never answers Pending (no scripted Pending, no bound)"""
    buffered = int(r.random() < 0.5)
    cap = 0 if clean else r.choice([0, 0, 0, 1, 7, 64, 1000])
    rl = [r.choice(LIMS) for _ in range(r.randint(0, 3))]
    wl = [r.choice(LIMS) for _ in range(r.randint(0, 3))]
    if clean:
        pn = []
    else:
        p = r.choice([0.1, 0.5, 0.8])
        pn = [int(r.random() < p) for _ in range(r.choice([0, 0, 5, 30, 120]))]
    return cfg(buffered, cap, rl, wl, pn)


def gen_tls(r, big):
    backend = r.randint(0, 1)
    wrap = r.randint(0, 1)
    # the rustls back-end forgets a flush that answered Pending during the handshake
    # (known finding): half of its cases avoid such transports so that the rest of
    # the session is exercised too
    clean = backend == 1 and r.random() < 0.6
    c, s = rand_cfg(r, clean), rand_cfg(r, clean)
    if big:
        ln = r.choice([5000, 20000, 65536])
        chunks = [r.choice([100, 1000, 16384, 70000]) for _ in range(r.randint(1, 3))]
        # keep 64 KiB runs affordable: no tiny per-call limits
        c, s = cfg(c[0], 0, [r.choice([0, 1000, 16384])], [r.choice([0, 1000, 16384])],
                   [] if clean else [int(r.random() < 0.3) for _ in range(r.choice([0, 20]))]), \
               cfg(s[0], 0, [r.choice([0, 1000, 16384])], [r.choice([0, 1000, 16384])],
                   [] if clean else [int(r.random() < 0.3) for _ in range(r.choice([0, 20]))])
        crbuf = srbuf = r.choice([4096, 16384, 100000])
    else:
        ln = r.choice([0, 1, 12, 100, 1000, 3000])
        chunks = [r.choice([1, 7, 100, 1000, 16384]) for _ in range(r.randint(1, 3))]
        if ln >= 1000:
            chunks = [max(x, 7) for x in chunks]
        crbuf = r.choice([1, 16, 4096, 100000])
        srbuf = r.choice([1, 16, 4096, 100000])
        if ln >= 1000:
            crbuf, srbuf = max(crbuf, 16), max(srbuf, 16)
    lock = 1 if (c[1] or s[1]) else r.randint(0, 1)
    return tls_case(backend, wrap, c, s, r.randint(0, 255), ln, chunks, lock, r.randint(0, 1), crbuf, srbuf)


def gen_ws(r):
    tls = r.choice([0, 0, 1, 2])
    # tungstenite rejects an HTTP upgrade that arrives in more than 64 reads of less
    # than 128 bytes on average (AttackCheck, a deliberate policy of the engine): over
    # a plain socket the relay rarely cuts below 3 bytes (known finding when it does)
    small = [1, 3] if (tls != 0 or r.random() < 0.06) else [3, 4]
    def rr():
        return relay([r.choice([0] + small + [50, 1000]) for _ in range(r.randint(0, 3))],
                     [r.choice([0, 1, 3, 7]) for _ in range(r.randint(0, 3))])
    mode = r.choice([0, 0, 1, 2, 3, 3, 3])
    n = r.randint(0, 6) if mode != 3 else r.randint(2, 8)
    msgs = []
    for _ in range(n):
        k = r.choice([0, 0, 1, 1, 2])
        l = r.choice([0, 1, 20, 125, 126, 300, 5000]) if mode not in (1, 3) else r.choice([0, 1, 20, 125, 300])
        if r.random() < 0.08 and mode not in (1, 3):
            l = 70000
        msgs.append((k, l))
    sndbuf = r.choice([0, 0, 4096]) if mode != 3 else r.choice([0, 4096, 4096])
    return ws_case(tls, rr(), rr(), sndbuf, mode, msgs, r.randint(0, 255))


def gen_case(r):
    x = r.random()
    if x < 0.62:
        return gen_tls(r, big=False)
    if x < 0.70:
        return gen_tls(r, big=True)
    if x < 0.97:
        return gen_ws(r)
    return [3, r.randint(0, 1), r.choice([0, 5, 700])]


def generate(seed, n):
    rng = random.Random(seed)
    return [gen_case(rng) for _ in range(n)]


def describe(case):
    try:
        k = case[0]
        if k == 1:
            return "tls/%s/%s" % ("native" if case[1] == 0 else "rustls",
                                  "direct" if case[2] == 0 else "asyncstream")
        if k == 2:
            return "ws/%s%s" % (["plain", "native", "rustls"][case[1]], "/stalled-outgoing" if ws_mode(case) == 3 else "")
        if k == 3:
            return "tls/native/always-ready/%s" % ("client" if case[1] == 0 else "server")
    except IndexError:
        pass
    return "malformed"


def ws_mode(case):
    p = 2
    for _ in range(2):
        for _ in range(2):
            p += 1 + case[p]
    return case[p + 1]


def nontrivial(case, out):
    """ran, both handshakes completed"""
    if out[:1] != [0] or len(out) < 12:
        return False
    if case[0] == 1:
        return out[3] == 1 and out[12] == 1
    if case[0] == 2:
        return out[3] == 1 and out[8] == 1
    if case[0] == 3:
        return out[2] == 1
    return False
