"""Case generator for C09 (timers). One case = list of ints (see coq/model/RunC09.v).

mode 1 (most cases): programs over the timer wheel itself; deadlines past / now /
       next / near / far / equal to an earlier one, creation, waker registration,
       polls, cancels, wakes and runtime-loop fragments in every order, on a
       non-decreasing slot clock; a few start the generation counter at its end.
mode 2 (a few dozen): programs on a real Runtime (sleep_until, drops, timeouts
       around instrumented inner futures, intervals, pipe I/O, task wake-ups).
mode 3: Interval::tick arithmetic with offsets/periods up to 1500 years.
mode 4: Runtime::poll_with / poll turns called by hand on a real Runtime, with and
       without an I/O completion waiting for the driver.
mode 5: Interval starting in the future, first tick dropped 1..5 times.
mode 6 (two dozen): 1..4 timers next to a task that keeps completions flowing through
       the driver (pipe / socketpair ping-pong, cross-thread wakes, spawn_blocking
       results, inline file ops) until >= 300 ms after the last deadline, both drivers.
plus a small adversarial stream of malformed lines.
"""
import random

MAX_SLOT = 12


# ---------------------------------------------------------------------------
# mode 1

def deadline(rng, t, seen):
    r = rng.random()
    if seen and r < 0.22:
        return rng.choice(seen)               # equal to an earlier deadline
    if r < 0.30:
        return rng.randrange(0, t + 1)        # past or now
    if r < 0.36:
        return t                              # exactly the current slot
    if r < 0.60:
        return t + 1                          # next boundary
    if r < 0.90:
        return t + rng.randrange(2, 6)        # near
    return t + rng.choice([50, 1000, 99990])  # far


def gen_a(rng):
    g0 = 0 if rng.random() < 0.92 else rng.randrange(1, 5)
    n = rng.randrange(2, 18)
    t = rng.choice([0, 0, 0, 1, 2])
    steps = []
    inserts = 0
    seen = []
    count = 0
    for _ in range(n):
        if rng.random() < 0.35 and t < 14:
            t += rng.choice([1, 1, 1, 2, 3])
        r = rng.random()
        if inserts == 0 or r < 0.34:
            d = deadline(rng, t, seen)
            seen.append(d)
            steps += [1, t, d]
            inserts += 1
        elif r < 0.46:
            steps += [2, t, rng.randrange(inserts), rng.randrange(0, 6)]
        elif r < 0.56:
            steps += [3, t, rng.randrange(inserts)]
        elif r < 0.66:
            steps += [4, t]
        elif r < 0.78:
            steps += [5, t]
        elif r < 0.93:
            steps += [6, t, rng.randrange(inserts), rng.randrange(0, 6)]
        else:
            t2 = min(t + rng.choice([0, 1, 1, 2, 4]), 16)
            steps += [7, t, t2]
            t = t2
        count += 1
    return [1, g0, count] + steps


# ---------------------------------------------------------------------------
# mode 2

def gen_b(rng):
    drv = rng.randrange(2)
    n = rng.randrange(2, 8)
    cur = 0          # nominal time, 10 ms units
    steps = []
    spawned = []     # joined flags
    count = 0
    had_interval = False
    for _ in range(n):
        lo = min(cur // 4, MAX_SLOT)
        near = lambda: min(MAX_SLOT, lo + rng.choice([0, 1, 1, 2, 2, 3, 4]))
        anyslot = lambda: rng.choice([near(), near(), rng.randrange(0, MAX_SLOT + 1)])
        r = rng.random()
        if r < 0.20:
            steps += [1, anyslot()]
            spawned.append(False)
        elif r < 0.36:
            d = anyslot()
            steps += [2, d]
            cur = max(cur, 4 * d)
        elif r < 0.44:
            steps += [3, anyslot()]
        elif r < 0.66:
            kind = rng.randrange(3)
            for _try in range(20):
                d, rr = anyslot(), anyslot()
                if kind == 0 or (4 * rr + 2 > cur and 4 * d > cur):
                    break
            else:
                kind = 0
            steps += [4, d, rr, kind]
            dl, ri = 4 * d, 4 * rr + 2
            if not (ri <= cur or dl <= cur):
                cur = min(ri, dl)
        elif r < 0.74 and not had_interval:
            had_interval = True
            s = anyslot()
            p = rng.choice([1, 2, 3, 4, 4, 6, 8]) if rng.random() < 0.95 else 0
            m = rng.randrange(1, 5)
            g = rng.choice([0, 0, 5, 15])
            steps += [5, s, p, m, g]
            if p > 0:
                for i in range(m):
                    cur = max(cur, 4 * s) if i == 0 else 4 * s + ((cur - 4 * s) // p + 1) * p
        elif r < 0.82:
            steps += [6, rng.choice([1, 10, 100, 4096])]
        elif r < 0.90 and any(not j for j in spawned):
            j = rng.choice([i for i, x in enumerate(spawned) if not x])
            spawned[j] = True
            steps += [7, j]
        elif r < 0.96:
            a, b = anyslot(), anyslot()
            steps += [8, a, b]
            cur = max(cur, 4 * min(a, b))
        elif r < 0.972:
            steps += [9, rng.randrange(0, 20)]
        elif r < 0.986 or had_interval:
            # a timer next to I/O that completes at every driver poll
            d = near()
            steps += [10, d, rng.randrange(4)]
            cur = max(cur, 4 * d)
        else:
            # Interval whose first tick is cancelled (start mostly well ahead)
            had_interval = True
            cn = rng.randrange(1, 4)
            s = min(MAX_SLOT, (cur + cn + 2) // 4 + rng.choice([1, 1, 2])) if rng.random() < 0.85 else anyslot()
            p = rng.choice([1, 2, 3, 4, 6])
            m = rng.randrange(1, 4)
            steps += [11, s, p, cn, m]
            ft = False
            for _ in range(cn):
                tdl = 4 * s if not ft else 4 * s + ((cur - 4 * s) // p + 1) * p
                cq = cur + 1
                if tdl > cur:
                    cur = min(tdl, cq)
                if tdl <= cq:
                    ft = True
            for _ in range(m):
                cur = max(cur, 4 * s) if not ft else 4 * s + ((cur - 4 * s) // p + 1) * p
                ft = True
        count += 1
    return [2, drv, count] + steps


def gen_b_focus(rng, which):
    """programs built around one of the two scenario classes"""
    drv = rng.randrange(2)
    steps, count, cur = [], 0, 0
    if rng.random() < 0.5:
        steps += [1, rng.randrange(0, 6)]
        count += 1
    if which == 0:
        for _ in range(rng.randrange(1, 3)):
            d = min(MAX_SLOT, cur // 4 + rng.choice([1, 2, 3]))
            steps += [10, d, rng.randrange(4)]
            cur = max(cur, 4 * d)
            count += 1
    else:
        cn = rng.randrange(1, 4)
        s = rng.choice([2, 3, 4, 5])
        steps += [11, s, rng.choice([1, 2, 3, 4, 6]), cn, rng.randrange(1, 4)]
        count += 1
    return [2, drv, count] + steps


# ---------------------------------------------------------------------------
# mode 3

TWO64_S = 18446744073  # 2^64 ns in whole seconds


def gen_i(rng):
    big = [0, 1, 59, 1000, 10 ** 9, TWO64_S - 1, TWO64_S, TWO64_S + 1, 18600000000, 37199999900,
           2 * TWO64_S + 5, 47000000000]
    off_s = rng.choice(big + [rng.randrange(0, 5 * 10 ** 10)])
    per_s = rng.choice(big + [0, 0, 0, rng.randrange(0, 5 * 10 ** 10)])
    off_ns = rng.choice([0, 1, 999999999, rng.randrange(10 ** 9)])
    per_ns = rng.choice([0, 1, 7, 1000, 999999999, rng.randrange(10 ** 9)])
    return [3, off_s, off_ns, per_s, per_ns]


def gen_l(rng):
    drv = rng.randrange(2)
    n = rng.randrange(2, 10)
    t = 0
    steps, made, count = [], 0, 0
    seen = []
    for _ in range(n):
        if rng.random() < 0.4 and t < 10:
            t += rng.choice([1, 1, 2])
        r = rng.random()
        if made == 0 or (r < 0.4 and made < 16):
            d = deadline(rng, t, seen)
            seen.append(d)
            steps += [1, t, d]
            made += 1
        elif r < 0.9:
            ans = rng.randrange(2)
            rem = 1 if ans == 0 else rng.randrange(2)
            steps += [2, t, ans, rem]
        else:
            steps += [3, t, rng.randrange(made)]
        count += 1
    return [4, drv, count] + steps


def gen_f(rng):
    lead_s = rng.choice([1, 2, 60, 10 ** 6, TWO64_S, 47000000000, rng.randrange(1, 5 * 10 ** 10)])
    per_s = rng.choice([0, 0, 0, 1, 1000, TWO64_S + 1, rng.randrange(0, 5 * 10 ** 10)])
    per_ns = rng.choice([0, 1, 1000, 999999999, rng.randrange(10 ** 9)])
    return [5, lead_s, rng.choice([0, 1, rng.randrange(10 ** 9)]), per_s, per_ns, rng.randrange(1, 6)]


def gen_t(rng, i=None):
    """timers while other tasks keep the driver busy; i: index for a round-robin over
    (driver, traffic kind) so that a quick run covers all ten combinations twice"""
    if i is None:
        drv, tk = rng.randrange(2), rng.randrange(5)
    else:
        drv, tk = T_COMBOS[i % len(T_COMBOS)]
    k = rng.randrange(1, 5)
    timers = []
    for _ in range(k):
        timers += [rng.choice([0, 1, 1, 2, 2, 3, 4, 5]), rng.randrange(4)]
    return [6, drv, tk, rng.choice([0, 0, 5, 20]), k] + timers


# (driver, traffic): ping-pong I/O and io_uring inline ops put a completion in front of EVERY driver
# poll (the driver never times out); wakes / thread-pool results leave gaps
T_COMBOS = [(0, 0), (1, 0), (0, 1), (1, 1), (0, 4), (0, 0), (1, 1), (0, 2), (1, 2), (0, 3), (1, 3), (1, 4)]


def t_count(n):
    return max(36, min(n // 45, 96))


def gen_bad(rng):
    k = rng.randrange(0, 8)
    return [rng.choice([0, 1, 1, 2, 3, 4])] + [rng.randrange(0, 9) for _ in range(k)]


def b_count(n):
    return max(8, min(n // 40, 120))


def generate(seed, n):
    rng = random.Random(seed)
    cases = []
    nb = b_count(n)
    nt = t_count(n)
    for i in range(n):
        if nb <= i < nb + nt:
            cases.append(gen_t(rng, i - nb))
            continue
        if i < nb:
            # every third runtime program is built around busy I/O / a cancelled first tick
            cases.append(gen_b_focus(rng, (i // 3) % 2) if i % 3 == 2 else gen_b(rng))
            continue
        r = rng.random()
        if r < 0.05:
            cases.append(gen_l(rng))
        elif r < 0.07:
            cases.append(gen_f(rng))
        elif r < 0.14:
            cases.append(gen_i(rng))
        elif r < 0.17:
            cases.append(gen_bad(rng))
        else:
            cases.append(gen_a(rng))
    return cases


def describe(case):
    if not case:
        return "empty"
    m = case[0]
    if m == 1:
        g0 = case[1] if len(case) > 1 else 0
        return "wheel" if g0 == 0 else "wheel(generation counter near its end)"
    if m == 2:
        return "runtime program (%s driver)" % ("polling" if len(case) > 1 and case[1] == 1 else "io_uring")
    if m == 3:
        return "interval arithmetic"
    if m == 4:
        return "loop turns on a runtime (%s driver)" % ("polling" if len(case) > 1 and case[1] == 1 else "io_uring")
    if m == 5:
        return "interval, first tick cancelled"
    if m == 6 and len(case) > 2:
        tk = ["pipe ping-pong", "socketpair ping-pong", "cross-thread wakes", "spawn_blocking results",
              "inline file ops"]
        return "timers under %s traffic (%s driver)" % (
            tk[case[2]] if case[2] < 5 else "?", "polling" if case[1] == 1 else "io_uring")
    return "malformed"


def parse_a(case):
    """mode-1 case -> (g0, [step tuples]) or None when malformed (same rules as the decoders)"""
    try:
        g0, n = case[1], case[2]
        if g0 > 1000:
            return None
        i = 3
        steps, inserts, last = [], 0, 0
        for _ in range(n):
            op, t = case[i], case[i + 1]
            i += 2
            if t < last or t > 63:
                return None
            last = t
            if op == 1:
                d = case[i]
                i += 1
                if d > 100000:
                    return None
                inserts += 1
                steps.append((1, t, d))
            elif op in (2, 6):
                k, wk = case[i], case[i + 1]
                i += 2
                if k >= inserts or wk >= 16:
                    return None
                steps.append((op, t, k, wk))
            elif op == 3:
                k = case[i]
                i += 1
                if k >= inserts:
                    return None
                steps.append((3, t, k))
            elif op in (4, 5):
                steps.append((op, t))
            elif op == 7:
                t2 = case[i]
                i += 1
                if t2 < t or t2 > 63:
                    return None
                last = t2
                steps.append((7, t, t2))
            else:
                return None
        if i != len(case):
            return None
        return g0, steps
    except IndexError:
        return None


def parse_l(case):
    """mode-4 case -> (drv, [step tuples]) or None when malformed"""
    try:
        drv, n = case[1], case[2]
        if drv > 1:
            return None
        i, steps, made, last = 3, [], 0, 0
        for _ in range(n):
            op, t = case[i], case[i + 1]
            i += 2
            if t < last or t > 63:
                return None
            last = t
            if op == 1:
                d = case[i]
                i += 1
                if d > 100000 or made >= 16:
                    return None
                made += 1
                steps.append((1, t, d))
            elif op == 2:
                ans, rem = case[i], case[i + 1]
                i += 2
                if ans > 1 or rem > 1 or (rem == 0 and ans == 0):
                    return None
                steps.append((2, t, ans, rem))
            elif op == 3:
                k = case[i]
                i += 1
                if k >= made:
                    return None
                steps.append((3, t, k))
            else:
                return None
        if i != len(case):
            return None
        return drv, steps
    except IndexError:
        return None


def nontrivial(case, out):
    """not rejected; mode 1: some timer really entered the wheel and the wheel was
    observed (wake / min_timeout / poll / loop); mode 2/3: the program ran"""
    if not out or out[0] == 99999:
        return False
    if case[0] == 1:
        p = parse_a(case)
        if p is None:
            return False
        ins = any(s[0] == 1 and s[2] > s[1] for s in p[1])
        obs = any(s[0] in (4, 5, 6, 7) for s in p[1])
        return ins and obs
    if case[0] == 4:
        p = parse_l(case)
        if p is None:
            return False
        return any(s[0] == 1 and s[2] > s[1] for s in p[1]) and any(s[0] == 2 for s in p[1])
    return out[:1] in ([0], [2])
