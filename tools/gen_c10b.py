"""Case generator for the pool-buffer part of C10 (harness rt/c10b): op 3 of coq/model/RunC10.v.

    3 drv full nsteps (code a b)*     drv 0 polling (fallback pool), 1 io_uring (buffer ring)

A fresh BufferRef of `full` bytes; the steps of the buffer cases (slice / uninit / fills /
flatten) plus 7 n = BufferRef::set_capacity(n) in every order: shrinking below the current
length, growing back, 0, beyond the full size, beyond 2^32.
"""
import random

import gen_c10
from gen_c10 import POOL, Member, Window, describe, nontrivial  # noqa: F401


def gen_case(rng):
    adv = rng.random() < 0.25
    drv = rng.randrange(0, 2)
    full = rng.choice([1, 2, 4, 8, 8, 12, 16, 16, 24, 64])
    w = Window(Member(POOL, 0, full, full))
    mode = rng.random()
    # a third of the cases: partly filled pool buffer + reserve family (C10-a); another third:
    # partly filled pool buffer + the Deref/DerefMut/as_mut_slice views (C10-b)
    steps = gen_c10.gen_steps(rng, adv, w, rng.random() < 0.15, mode < 0.33, 0.33 <= mode < 0.66)
    case = [3, drv, full, len(steps)]
    for s in steps:
        case += list(s)
    return case


def generate(seed, n):
    rng = random.Random(seed * 7919 + 13)
    return [gen_case(rng) for _ in range(n)]
