#!/usr/bin/env python3
"""(dev-time) regenerate MANIFEST.json from tools/registry.py and the `manifest`
dict of every tools/p_cnn.py; hooks/source_commits from `git -C /repo log`."""
import importlib, json, os, subprocess, sys
HERE = os.path.dirname(os.path.abspath(__file__))
sys.path.insert(0, HERE)
import registry

ROOT = os.path.dirname(HERE)
hooks = subprocess.run(["git", "-C", "/repo", "log", "--format=%h %s", "--grep=^verif hook:"],
                       capture_output=True, text=True).stdout.strip().splitlines()
checks = []
for pid in registry.PROPS:
    prop = importlib.import_module("p_" + pid.lower()).PROP
    m = prop.manifest
    # source tie through the fragment translator (tools/rs2v.py -> coq/gen/Frag.v): which pinned
    # theorems of the property file relate the model to translated code, and which fragments
    import re as _re
    _src = open(os.path.join(ROOT, "coq", getattr(prop, "prop_file", "prop/%s.v" % pid))).read()
    _ties = []
    _frs = set()
    for _mm in _re.finditer(r"Theorem\s+(\w+)\s*:(.*?)\nProof\.", _src, _re.S):
        _f = set(_re.findall(r"Frag\.(\w+)", _mm.group(2)))
        if _f:
            _ties.append(_mm.group(1))
            _frs |= _f
    tie_note = ""
    tie_tech = ""
    if _ties:
        tie_note = (" Source tie: tools/rs2v.py translates the Rust functions / anchored expressions behind %s from the "
                    "working tree into coq/gen/Frag.v on every run; the pinned theorems %s prove, for all arguments, that "
                    "the model's operations are that translated code, so an edit of those functions breaks a proof "
                    "obligation even on inputs no generated case reaches (trusted: the translator and the 20-line "
                    "semantics file coq/model/RsSem.v)." % (", ".join("Frag." + x for x in sorted(_frs)), ", ".join(_ties)))
        tie_tech = " + source-translated fragments (rs2v) proved equal to the model"
    checks.append({
        "property_id": pid,
        "quick_cmd": "./check %s --tier quick" % pid,
        "thorough_cmd": "./check %s --tier thorough" % pid,
        "evidence_file": "evidence/%s.json" % pid,
        "replay_cmd_template": "./check %s --replay {path}" % pid,
        "engine": m.get("engine", "coq+correspondence"),
        "level_claimed": {"category": "proof", "text": m["text"], "design_ref": "DESIGN.md §5 " + pid},
        "level_note": m["note"] + tie_note,
        "technique": m["technique"] + tie_tech,
    })
na = getattr(registry, "NOT_APPLICABLE", [])
man = {
    "version": 1,
    "setup_cmd": "./check setup",
    "hooks": {
        "guard": "compio_verif",
        "enable": "RUSTFLAGS=\"--cfg compio_verif\" (set by tools/vlib.py for every harness build)",
        "baseline_off_cmd": "cd /repo && cargo nextest run --workspace --no-fail-fast --tool-config-file pb:/w/lib/nextest.toml --profile pb --test-threads 8 --offline",
        "source_commits": [h.split()[0] for h in hooks][::-1],
        "add_only": True,
    },
    "engines": [
        {"name": "coq", "path": "coq/", "serves_properties": registry.PROPS,
         "kind_free_text": "Coq 8.16.1 development: executable Gallina models (coq/model), theorems (coq/thm), pinned property statements (coq/prop), constants (tools/consts.py -> coq/gen/Consts.v) and small function bodies / anchored expressions (tools/rs2v.py -> coq/gen/Frag.v) regenerated from the Rust source on every run"},
        {"name": "correspondence", "path": "tools/diffcheck.py", "serves_properties": registry.PROPS,
         "kind_free_text": "checked tie to the code: extracted model (OCaml, ExtrOcamlBasic) vs Rust harness (harness/) on the same integer-encoded cases, or acceptance of hook-recorded histories by the extracted LTS, plus an independent property oracle"},
    ],
    "checks": checks,
    "not_applicable": na,
    "notes": getattr(registry, "NOTES", ""),
}
json.dump(man, open(os.path.join(ROOT, "MANIFEST.json"), "w"), indent=1)
print("MANIFEST.json: %d checks, %d hook commits" % (len(checks), len(hooks)))
