"""debug helper: summarise oracle hits and disagreements of a property run"""
import sys, os, importlib, collections
sys.path.insert(0, os.path.dirname(os.path.abspath(__file__)))
import vlib
pid = sys.argv[1]; tier = sys.argv[2] if len(sys.argv) > 2 else "quick"
mod = importlib.import_module("p_" + pid.lower()); prop = mod.PROP
cpath = os.path.join(vlib.OUT, pid, "cases_%s.txt" % tier)
cases = vlib.parse_lines(open(cpath).read())
exe = os.path.join(vlib.TARGET, "debug", prop.harness_bin)
impl, _ = vlib.run_impl(exe, cpath, len(cases))
model = vlib.run_model(prop.model_name, cpath)
hits = collections.defaultdict(list); dis = collections.defaultdict(list)
for c, i, m in zip(cases, impl, model):
    w = prop.oracle(c, i)
    if w is not None:
        hits[(prop.gen.describe(c), w[:70])].append((c, i, m))
    elif i != m:
        dis[prop.gen.describe(c)].append((c, i, m))
for k, v in sorted(hits.items(), key=lambda kv: -len(kv[1])):
    print("ORACLE", len(v), k); c, i, m = min(v, key=lambda t: len(t[0])); print("   case", c); print("   impl", i); print("   model", m)
for k, v in sorted(dis.items(), key=lambda kv: -len(kv[1])):
    print("DISAGREE", len(v), k); c, i, m = min(v, key=lambda t: len(t[0])); print("   case", c); print("   impl", i); print("   model", m)
