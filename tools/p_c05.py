"""C05 — cancellation is prompt, honest and local."""
import diffcheck
import gen_drv
import p_c05rt
from p_drv import DrvProp, K, parse, steps_of, fifo_violation

ECANCELED = 125


def oracle(case, out):
    evs, slots = parse(out)
    steps = steps_of(case)
    cancelled_keys = {}
    done = set()
    for idx, (k, key, arg) in enumerate(evs):
        if k == K["SETRES"]:
            done.add(key)
        if k in (K["U_CANCEL"], K["U_TOKEN"]) and key not in done and key not in cancelled_keys:
            cancelled_keys[key] = idx
    slot_by_key = {s["key"]: i for i, s in enumerate(slots)}
    # local: an operation that was never cancelled never reports ECANCELED
    for i, s in enumerate(slots):
        if s["status"] == 2 and s["value"] == ECANCELED and s["key"] not in cancelled_keys:
            return "slot %d reports ECANCELED but was never cancelled (cancellation is not local)" % i
    for idx, (k, key, arg) in enumerate(evs):
        if k == K["SETRES"] and arg == 1000000 + ECANCELED and key not in cancelled_keys:
            # dropping the driver may legitimately cancel what is in flight
            if not any(e[0] == K["DROP_BEGIN"] for e in evs[:idx]):
                return "operation %d completed with ECANCELED without having been cancelled" % key
    r = fifo_violation(case, out)
    if r:
        return r
    # honest: the result of a cancelled recv is ECANCELED or genuine data, never a fabricated success
    for key in cancelled_keys:
        i = slot_by_key.get(key)
        if i is None:
            continue
        s = slots[i]
        if s["kind"] == 1 and s["status"] == 1:
            if s["value"] == 0:
                return "cancelled recv slot %d reports Ok(0) (fabricated end-of-stream)" % i
            if not s["contig"]:
                return "cancelled recv slot %d reports data that was never written" % i
    # prompt: after the cancel request, two polls later the operation has finished (non-blocking ops)
    for key, cidx in cancelled_keys.items():
        i = slot_by_key.get(key)
        if i is None or slots[i]["kind"] == 3:
            continue
        kernel_side = any(e[0] in (K["SUBMIT"], K["P_QUEUE"]) and e[1] == key for e in evs[:cidx])
        if not kernel_side:
            continue
        # which step issued the cancel? count polls after it in the program
        step_idx = None
        seen = 0
        ns = 0
        for j, (o, a, b) in enumerate(steps):
            if o in (8, 9) and a == i:
                step_idx = j
                break
        if step_idx is None:
            continue
        polls_after = [st for st in steps[step_idx + 1:] if st[0] == 5 and st[1] >= 5]
        dropped_driver = any(st[0] == 10 for st in steps)
        # a poll that delivers a thread-pool result returns at once, without submitting or waiting
        # (legitimately): it gives the kernel no chance to answer.  Count the others.
        blocking_keys = {s["key"] for s in slots if s["kind"] == 3}
        effective, inside, early = 0, False, False
        for (ek, ekey, _) in evs[cidx:]:
            if ek == 107 and ekey == 0:
                inside, early = True, False
            elif ek == 107 and ekey == 1:
                if inside and not early:
                    effective += 1
                inside = False
            elif inside and ek == K["SETRES"] and ekey in blocking_keys:
                early = True
        if len(polls_after) >= 1 and effective >= 2 and not dropped_driver:
            if not any(e[0] == K["SETRES"] and e[1] == key for e in evs[cidx:]):
                return ("operation %d (slot %d) was cancelled and the driver polled, but it never finished "
                        "(cancellation not prompt)" % (key, i))
    # polling driver: the cancelled entry is already queued for delivery when cancel returns, so
    # the very next poll must deliver it, whatever else is ready at that moment
    if case[0] == 1:
        for idx, (k, key, arg) in enumerate(evs):
            if k != K["P_CANCEL"] or key not in cancelled_keys:
                continue
            if any(e[0] == K["SETRES"] and e[1] == key for e in evs[:idx]):
                continue
            begin = next((j for j in range(idx, len(evs)) if evs[j][0] == 107 and evs[j][1] == 0), None)
            if begin is None:
                continue
            end = next((j for j in range(begin, len(evs)) if evs[j][0] == 107 and evs[j][1] == 1), len(evs))
            if any(e[0] == K["DROP_BEGIN"] for e in evs[idx:end]):
                continue
            if not any(e[0] == K["SETRES"] and e[1] == key for e in evs[idx:end]):
                return ("polling driver: operation %d was cancelled before a poll, but that poll did not deliver "
                        "its completion (it stays pending as long as other descriptors are ready)" % key)
    return None


class C05(DrvProp):
    """driver-level part (Proactor::cancel / cancel_token)"""
    pid = "C05"
    evidence_name = "C05_drv"
    corpus_name = "C05"
    manifest = dict(
        text="Coq proofs that a cancel request is never dropped by the submission path for any queue capacity >= 1 (with a refuted witness for the pre-fix bare push), that driver-side cancel events touch only their own operation's record, and that cancelling never produces a second result; tied to the code by history acceptance and an oracle for promptness (cancelled op finishes within the following polls), honesty (ECANCELED or genuine data) and locality (neighbours unaffected) on the real driver, three routes, both drivers. Polling driver: removing one operation from a descriptor queue keeps the other waiters and their order, and the queue invariant survives any mix of cancellations, pushes and readiness events (PollDrv.v).",
        note="Partial: promptness/honesty of the kernel's answer to AsyncCancel are environment behaviour observed, not proved; timeouts = future drop are exercised at driver level only (Proactor::cancel / cancel_token). Fixed defect: AsyncCancel dropped on a full SQ (e6799fd). No axioms.",
        technique="Coq proof (bounded-queue lemma, locality over the LTS) + history acceptance and cancellation oracle")
    prop_file = "prop/C05.v"
    gen = gen_drv.make("c05")
    rule = ("programs with subsets of pending socket recv/send ops cancelled through Proactor::cancel and cancel tokens "
            "(also twice, after completion), all orders of cancel / readiness / poll, neighbours on the same descriptor, "
            "SQ capacities 1,2,4,1024, both drivers; non-trivial/distinct as for C01")

    def oracle(self, case, out):
        b = self.base_oracle(case, out)
        if b is not None:
            return b or None
        return oracle(case, out)


MANIFEST = dict(
    text="Coq proofs in two layers. Runtime level (compio-runtime): an executable model of the context Ext carried by "
         "the waker, the with_cancel / with_personality / fail_fast combinators and time::timeout as transformers of "
         "that context, CancelToken (flag, registered keys, listeners) and Submit's Idle/Submitted/Ready machine with "
         "its drop rule, as a labelled transition system; proved for ALL future expressions (structural induction over "
         "the nesting) and ALL step sequences: cancel(t) applies one cancel request to exactly the not-yet-cancelled "
         "operations whose innermost enclosing with_cancel token is t and leaves every other operation untouched; an "
         "operation first polled after the token fired is cancelled at registration; nesting never loses or replaces "
         "the outer token/personality except by an inner with_cancel/with_personality; cancel is idempotent; a dropped "
         "Submit issues exactly one driver cancel when Submitted and none when Idle/Ready; over all routes together at "
         "most one driver cancel per operation; timeout = inner poll then drop; data is reported only when the driver "
         "delivered data. Driver level (compio-driver): a cancel request is never dropped by the submission path for "
         "any queue capacity >= 1 (refuted witness for the pre-fix bare push), driver-side cancel events touch only "
         "their own operation, no second result. Tie to the code: (a) exact differential correspondence of the "
         "extracted runtime model with programs on a real compio_runtime::Runtime (both drivers; per task finishing "
         "run, result class, personality seen by the op, driver cancels issued, storage released; unconsumed data per "
         "descriptor) - every program is a run of the LTS (C05_run_is_lts_run); (b) history acceptance of the real "
         "driver by the extracted driver LTS; plus independent oracles for promptness, honesty and locality on both.",
    note="Partial: what the kernel answers to a cancel (ECANCELED vs. data that was already there) is environment "
         "behaviour, modelled per driver and checked against the real kernel, not proved; promptness is checked "
         "(cancelled => finished by the next bounded run, operation storage released), not proved as a time bound. "
         "Not exercised: multishot streams (SubmitMulti / SubmitMultiStream), Ext lost through wakers cloned to other "
         "threads or sub-executors, more than one operation per task. Timing assumptions of the runtime harness: first "
         "poll < 100 ms after construction, 100 ms sleep fires within a 135 ms run. Observed and modelled, not a "
         "violation of the property text: on io_uring an operation dropped/timed out after its data arrived consumes "
         "that data (the result is discarded with the future). Fixed defect: AsyncCancel dropped on a full SQ "
         "(e6799fd). No axioms.",
    technique="Coq proof (LTS invariant over all step sequences + structural induction over future expressions; "
              "bounded-queue lemma) + extracted-model differential correspondence + history acceptance + oracles")


class C05All:
    """C05 = driver-level part (history acceptance, drv harness) + runtime-level part
    (differential correspondence, c05rt harness); one evidence file"""
    pid = "C05"
    manifest = MANIFEST
    prop_file = "prop/C05.v"
    model_name = "drv"
    harness_bin = "drv"
    package = "rt"
    model_names = ["drv", "c05rt"]
    harness_bins = [("drv", "rt"), ("c05rt", "rt")]

    def __init__(self):
        self.parts = [C05(), p_c05rt.C05RT()]
        self.gen = self.parts[0].gen

    def oracle(self, case, out):
        return self.parts[0].oracle(case, out)

    def run(self, tier, seed, replay=None):
        return diffcheck.run_multi("C05", self.parts, tier, seed, replay)


PROP = C05All()
