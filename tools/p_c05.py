"""C05 — cancellation is prompt, honest and local."""
import gen_drv
from p_drv import DrvProp, K, parse, steps_of

ECANCELED = 125


def oracle(case, out):
    evs, slots = parse(out)
    steps = steps_of(case)
    cancelled_keys = {}
    done = set()
    for idx, (k, key, arg) in enumerate(evs):
        if k == K["SETRES"]:
            done.add(key)
        if k in (K["U_CANCEL"], K["U_TOKEN"]) and key not in done and key not in cancelled_keys:
            cancelled_keys[key] = idx
    slot_by_key = {s["key"]: i for i, s in enumerate(slots)}
    # local: an operation that was never cancelled never reports ECANCELED
    for i, s in enumerate(slots):
        if s["status"] == 2 and s["value"] == ECANCELED and s["key"] not in cancelled_keys:
            return "slot %d reports ECANCELED but was never cancelled (cancellation is not local)" % i
    for idx, (k, key, arg) in enumerate(evs):
        if k == K["SETRES"] and arg == 1000000 + ECANCELED and key not in cancelled_keys:
            # dropping the driver may legitimately cancel what is in flight
            if not any(e[0] == K["DROP_BEGIN"] for e in evs[:idx]):
                return "operation %d completed with ECANCELED without having been cancelled" % key
    # honest: the result of a cancelled recv is ECANCELED or genuine data, never a fabricated success
    for key in cancelled_keys:
        i = slot_by_key.get(key)
        if i is None:
            continue
        s = slots[i]
        if s["kind"] == 1 and s["status"] == 1:
            if s["value"] == 0:
                return "cancelled recv slot %d reports Ok(0) (fabricated end-of-stream)" % i
            if not s["contig"]:
                return "cancelled recv slot %d reports data that was never written" % i
    # prompt: after the cancel request, two polls later the operation has finished (non-blocking ops)
    for key, cidx in cancelled_keys.items():
        i = slot_by_key.get(key)
        if i is None or slots[i]["kind"] == 3:
            continue
        kernel_side = any(e[0] in (K["SUBMIT"], K["P_QUEUE"]) and e[1] == key for e in evs[:cidx])
        if not kernel_side:
            continue
        # which step issued the cancel? count polls after it in the program
        step_idx = None
        seen = 0
        ns = 0
        for j, (o, a, b) in enumerate(steps):
            if o in (8, 9) and a == i:
                step_idx = j
                break
        if step_idx is None:
            continue
        polls_after = [st for st in steps[step_idx + 1:] if st[0] == 5 and st[1] >= 5]
        dropped_driver = any(st[0] == 10 for st in steps)
        if len(polls_after) >= 1 and not dropped_driver:
            if not any(e[0] == K["SETRES"] and e[1] == key for e in evs[cidx:]):
                return ("operation %d (slot %d) was cancelled and the driver polled, but it never finished "
                        "(cancellation not prompt)" % (key, i))
    # polling driver: the cancelled entry is already queued for delivery when cancel returns, so
    # the very next poll must deliver it, whatever else is ready at that moment
    if case[0] == 1:
        for idx, (k, key, arg) in enumerate(evs):
            if k != K["P_CANCEL"] or key not in cancelled_keys:
                continue
            if any(e[0] == K["SETRES"] and e[1] == key for e in evs[:idx]):
                continue
            begin = next((j for j in range(idx, len(evs)) if evs[j][0] == 107 and evs[j][1] == 0), None)
            if begin is None:
                continue
            end = next((j for j in range(begin, len(evs)) if evs[j][0] == 107 and evs[j][1] == 1), len(evs))
            if any(e[0] == K["DROP_BEGIN"] for e in evs[idx:end]):
                continue
            if not any(e[0] == K["SETRES"] and e[1] == key for e in evs[idx:end]):
                return ("polling driver: operation %d was cancelled before a poll, but that poll did not deliver "
                        "its completion (it stays pending as long as other descriptors are ready)" % key)
    return None


class C05(DrvProp):
    pid = "C05"
    manifest = dict(
        text="Coq proofs that a cancel request is never dropped by the submission path for any queue capacity >= 1 (with a refuted witness for the pre-fix bare push), that driver-side cancel events touch only their own operation's record, and that cancelling never produces a second result; tied to the code by history acceptance and an oracle for promptness (cancelled op finishes within the following polls), honesty (ECANCELED or genuine data) and locality (neighbours unaffected) on the real driver, three routes, both drivers.",
        note="Partial: promptness/honesty of the kernel's answer to AsyncCancel are environment behaviour observed, not proved; timeouts = future drop are exercised at driver level only (Proactor::cancel / cancel_token). Fixed defect: AsyncCancel dropped on a full SQ (e6799fd). No axioms.",
        technique="Coq proof (bounded-queue lemma, locality over the LTS) + history acceptance and cancellation oracle")
    prop_file = "prop/C05.v"
    gen = gen_drv.make("c05")
    rule = ("programs with subsets of pending socket recv/send ops cancelled through Proactor::cancel and cancel tokens "
            "(also twice, after completion), all orders of cancel / readiness / poll, neighbours on the same descriptor, "
            "SQ capacities 1,2,4,1024, both drivers; non-trivial/distinct as for C01")

    def oracle(self, case, out):
        b = self.base_oracle(case, out)
        if b is not None:
            return b or None
        return oracle(case, out)


PROP = C05()
