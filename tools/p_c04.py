"""C04 — task and join-handle lifecycle."""
import json
import os
import time

import diffcheck
import gen_c04
import vlib

FLAG_NAMES = ["every future dropped exactly once", "every output taken or dropped exactly once",
              "futures polled and dropped on the home thread only",
              "the executor's shared state was not used after it was freed",
              "nothing hung (handle learned about the completion, threads finished) under the watchdog"]


def oracle_single(case, out):
    """independent statement of the property on the harness output of a kind-0 program"""
    mi, nops = case[1], case[2]
    ops = gen_c04.ops_of(case)
    if len(ops) != nops or len(case) != 3 + 4 * nops:
        return None if out == [99999] else "malformed case was not rejected"
    if out[:1] == [2] and len(out) == 2:
        return "panic/abort/hang (code %d) in a single-threaded executor program" % out[1]
    pos = 0

    def take():
        nonlocal pos
        if pos >= len(out):
            raise IndexError
        x = out[pos]
        pos += 1
        return x

    T = []            # per task: dict
    dropped = False   # executor dropped
    ticks = []        # per tick: (polled ids, number of tasks spawned so far)
    try:
        for (op, a, b, c) in ops:
            if op == 1:
                if not dropped:
                    T.append(dict(mode=a, n=b, end=c, polls=0, handle="alive", pend_before_done=False,
                                  got=None, stopped=False, selfwake_from=len(ticks)))
            elif op == 4:
                if dropped:
                    continue
                if take() != 100:
                    return "tick: output out of step"
                n = take()
                ids = [take() for _ in range(n)]
                hot = take()
                if n > mi:
                    return "a tick ran %d tasks, max_interval is %d" % (n, mi)
                for i in ids:
                    if i >= len(T):
                        return "tick polled a task that was never spawned"
                    t = T[i]
                    if t["end"] != 2 and t["polls"] > t["n"]:
                        return "task %d was polled after it had finished" % i
                    if t["stopped"]:
                        return "task %d was polled after its handle was dropped / cancelled" % i
                    t["polls"] += 1
                ticks.append((ids, len(T)))
                # every task that wakes itself and is still running is hot again
                want_hot = any(t["mode"] in (1, 2) and not t["stopped"] and
                               (t["end"] == 2 or t["polls"] <= t["n"]) for t in T)
                if want_hot and not hot:
                    return "tick reported no hot task although a self-waking task is still running"
            elif op in (5, 6):
                tag = take()
                i = take()
                code = take()
                if tag != (101 if op == 5 else 102) or i != a:
                    return "handle operation: output out of step"
                t = T[a] if a < len(T) else None
                if t is None or t["handle"] != "alive":
                    if code != 9:
                        return "handle operation on a handle that does not exist returned %d" % code
                    continue
                finished = t["end"] != 2 and t["polls"] == t["n"] + 1
                if op == 5:
                    if finished:
                        want = 2 if t["end"] == 1 else 1
                        if code != want:
                            return ("task %d finished (%s) but its handle returned %d"
                                    % (a, "panic" if t["end"] == 1 else "output", code))
                    elif dropped:
                        if code != 3:
                            return "handle of an unfinished task of a dropped executor returned %d, not Cancelled" % code
                    elif code != 0:
                        return "handle of a running task returned %d, not Pending" % code
                    if code == 0:
                        t["pend_before_done"] = True
                    else:
                        t["handle"] = "done"
                        t["got"] = code
                else:
                    want = 1 if (finished and t["end"] == 0) else 0
                    if code != want:
                        return "JoinHandle::cancel of task %d returned %d, expected %d" % (a, code, want)
                    t["handle"] = "done"
                    # a panic payload is received by cancel() and dropped by its `.ok()`
                    t["got"] = 1 if (finished and code == 1) else None
                    t["stopped"] = True
            elif op == 7:
                if a < len(T) and T[a]["handle"] == "alive":
                    T[a]["handle"] = "dropped"
                    T[a]["stopped"] = True
            elif op == 8:
                if a < len(T) and T[a]["handle"] == "alive":
                    T[a]["handle"] = "detached"
            elif op == 9:
                dropped = True
        if take() != 103:
            return "summary: output out of step"
        n = take()
        if n != len(T):
            return "summary lists %d tasks, %d were spawned" % (n, len(T))
        for i, t in enumerate(T):
            polls, fd, taken, odrop, wakes = take(), take(), take(), take(), take()
            finished = t["end"] != 2 and t["polls"] == t["n"] + 1
            if polls != t["polls"]:
                return "task %d: %d polls counted by the future, %d seen in ticks" % (i, polls, t["polls"])
            if fd != 1:
                return "task %d: its future was dropped %d times" % (i, fd)
            if taken + odrop != (1 if finished else 0):
                return ("task %d: output/panic produced %d time(s), taken %d + dropped %d"
                        % (i, 1 if finished else 0, taken, odrop))
            if taken != (1 if t["got"] in (1, 2) else 0):
                return "task %d: the handle received a result %d time(s), the output was taken %d time(s)" % (
                    i, 1 if t["got"] in (1, 2) else 0, taken)
            if finished and t["pend_before_done"] and wakes < 1:
                return "task %d finished after its handle had returned Pending, the handle's waker was never woken" % i
            if not t["pend_before_done"] and wakes != 0:
                return "task %d: a waker was woken that no Pending poll had registered" % i
        bad, err = take(), take()
        if bad:
            return ("a future was polled or dropped away from its home thread, an output was lost, or a waker that a "
                    "handle poll had installed was never dropped (leaked reference)")
        if pos != len(out):
            return "trailing output"
    except IndexError:
        return "output too short"
    # no starvation: a running self-waking task is polled at least once in any
    # ceil(L / max_interval) consecutive ticks (L = tasks spawned so far)
    for i, t in enumerate(T):
        if t["mode"] not in (1, 2):
            continue
        last = t["selfwake_from"] - 1
        seen = 0
        for k, (ids, L) in enumerate(ticks):
            if k < t["selfwake_from"]:
                continue
            if i in ids:
                seen += ids.count(i)
                last = k
            alive = t["end"] == 2 or seen <= t["n"]
            if not alive or t["stopped"]:
                break
            bound = (L + mi - 1) // mi
            if k - last >= bound and not _stopped_before(case, i, k):
                return ("task %d (self-waking, running) was not polled in %d consecutive ticks "
                        "(%d tasks, max_interval %d)" % (i, k - last, L, mi))
    return None


def _stopped_before(case, i, tick_index):
    """was the handle of task i dropped / cancelled before tick number tick_index?"""
    k = -1
    for (op, a, b, c) in gen_c04.ops_of(case):
        if op == 4:
            k += 1
            if k >= tick_index:
                return False
        elif op in (6, 7) and a == i:
            return True
        elif op == 9:
            return True
    return False


class C04(diffcheck.DiffProp):
    pid = "C04"
    prop_file = "prop/C04.v"
    model_name = "c04"
    harness_bin = "c04"
    package = "rt"
    gen = gen_c04
    counts = {"quick": 1500, "thorough": 30000}
    shards = 8
    thorough_release = False
    uses_consts = True
    rule = ("kind 0: single-threaded programs (1-6 tasks; pending-then-ready / self-waking / panicking / never-ending "
            "futures; wake, drop-waker, tick with max_interval 1..61, handle poll with same/fresh waker, cancel, "
            "handle drop, detach, executor drop, 35 % adversarial: unknown task ids, operations after the executor "
            "drop) compared exactly with the model; kinds 1-5: cross-thread scenarios on real threads judged by the "
            "oracle; non-trivial = a future was polled and a handle/waker/teardown operation happened; distinct = "
            "distinct programs")
    trusted_base = [
        "Coq 8.16.1 kernel (coqc, full .vo build)",
        "extraction: ExtrOcamlBasic only; coq/extract/driver.ml; coq/model/RunC04.v interpreter",
        "tools/consts.py (state-word constants of compio-executor/src/task/state.rs)",
        "hook commits in /repo: compio_executor::verif (cfg(compio_verif), add-only): scheduling points, "
        "shared-state liveness registry",
        "harness/rt/src/bin/c04.rs (instrumented futures/outputs/wakers), tools/gen_c04.py, tools/p_c04.py oracle",
        "loom 0.7 (search only, harness/loom-c04)",
    ]
    assumptions = [
        "sequential consistency of the atomics of the task state word and of the shared pointer "
        "(weak-memory reorderings are not modelled)",
        "no re-entrancy from the destructors of a future, an output or a handle's waker; no drop while panicking",
        "crossbeam ArrayQueue (cross-thread wake queue) is a linearizable bounded FIFO",
        "SendWrapper::valid() tells the home thread from other threads",
    ]
    manifest = dict(
        text=("Coq proof over an interleaving labelled transition system of one task's allocation (state word with the "
              "bit layout generated from state.rs, storage union, waker slot, shared pointer; labels = the atomic "
              "operations of Task::run/drop, the final Drop, Local and Remote JoinHandle poll/cancel/drop/detach, "
              "local wakers and any number of remote wakers, executor teardown), for ALL label interleavings: the "
              "future is polled only by the executor thread on a not-completed, not-cancelled snapshot; future "
              "dropped exactly once by the executor thread; result taken or dropped exactly once; dealloc exactly once "
              "after the last reference and nothing touches the allocation afterwards; a completion reaches a handle "
              "whose last poll was Pending; handle drop cancels, detach does not; a waker on another thread never "
              "uses the executor's shared state after it is freed; plus a pure proof that the hot/cold queue runs the "
              "task at position p within ceil((p+1)/max_interval) ticks whatever other tasks do. Tied to the code by "
              "exact comparison of the extracted model with the real Executor on generated single-threaded programs "
              "(poll order, poll/drop counts, handle results, waker invocations), an independent oracle, cross-thread "
              "scenarios on real threads (forced schedules through cfg(compio_verif) scheduling points) and a loom "
              "search of the remote-handle and teardown scenarios."),
        note=("Partial: sequential consistency only (weak memory not modelled); destructor re-entrancy, drops during "
              "unwinding, the console feature and reference-count overflow are left out; the linked lists of queue.rs "
              "are modelled as lists; cross-thread behaviour of the real code is searched (loom, forced schedules, "
              "races), not proved. Refutation lemmas keep the three pre-fix transition functions (Remote::poll before "
              "ae1ad32, Remote::schedule before 73f1b24, Executor::tick before fd7e5a5). Trusted: Coq kernel, "
              "extraction + driver, consts translator, hook commits, harness, loom. No axioms."),
        technique="Coq invariant proofs over an interleaving LTS + differential test of the extracted model + loom search")

    def oracle(self, case, out):
        if not case:
            return None if out == [99999] else "empty case was not rejected"
        if out[:1] == [99999]:
            if case[0] == 0 and len(case) >= 3 and len(case) == 3 + 4 * case[2]:
                return "well-formed program rejected"
            return None
        if case[0] == 0:
            return oracle_single(case, out)
        if out[:1] == [2] and len(out) == 2:
            return "panic/abort/hang (code %d) in a cross-thread scenario" % out[1]
        if len(out) != 7 or out[0] != 200 or out[1] != case[0]:
            return "malformed cross-thread summary"
        for name, v in zip(FLAG_NAMES, out[2:]):
            if v != 1:
                return "%s: violated (%s)" % (gen_c04.KINDS.get(case[0], "?"), name)
        return None

    def known(self, case, out, what):
        return None

    # ---- loom search (harness/loom-c04): search engine only, never a proof ----
    def loom(self, tier):
        pkg = os.path.join(vlib.ROOT, "harness", "loom-c04")
        lock = os.path.join(pkg, "Cargo.lock")
        if not os.path.exists(lock):
            import shutil
            shutil.copy(os.path.join(vlib.REPO, "Cargo.lock"), lock)
        tests = ["quick_"] if tier == "quick" else [""]
        env = {"RUSTFLAGS": "--cfg loom --cfg compio_verif -Awarnings",
               "CARGO_TARGET_DIR": os.path.join(vlib.TARGET, "loom"),
               "LOOM_MAX_PREEMPTIONS": "3" if tier == "quick" else "4"}
        t0 = time.time()
        rc, out = vlib.sh(["cargo", "test", "--offline", "-q", "--release", "--test", "loom_c04", "--"]
                          + tests + ["--test-threads", "4"], 1500 if tier == "thorough" else 110, cwd=pkg, env=env)
        return rc, out, time.time() - t0

    def run(self, tier, seed, replay=None):
        rc = diffcheck.run(self, tier, seed, replay)
        if replay:
            return rc
        lrc, lout, secs = self.loom(tier)
        passed = [l for l in lout.splitlines() if l.startswith("test result")]
        info = {"tier": tier, "seconds": round(secs, 1), "exit": lrc, "summary": passed[-1:] or lout.splitlines()[-3:],
                "role": "search engine only (never a proof)"}
        if lrc != 0:
            path = os.path.join(vlib.OUT, "C04", "loom_%s.txt" % tier)
            os.makedirs(os.path.dirname(path), exist_ok=True)
            open(path, "w").write(lout)
            vlib.log("VIOLATION property=C04 replay=%s" % path)
            rc = 1
        evp = os.path.join(vlib.ROOT, "evidence", "C04.json")
        try:
            ev = json.load(open(evp))
            ev["coverage"]["loom"] = info
            if lrc != 0:
                ev["violations"] = ev.get("violations", 0) + 1
            vlib.write_json(evp, ev)
        except (OSError, ValueError, KeyError):
            pass
        vlib.log("C04 loom (%s): exit %d, %.1fs %s" % (tier, lrc, secs, " ".join(info["summary"])[:200]))
        return rc


PROP = C04()
