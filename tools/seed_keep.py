#!/usr/bin/env python3
"""(dev-time) copy a confirmed seeded change into /verif/seeded/<id>/ and record
what the lead ran and which check caught it.
usage: seed_keep.py <src-dir> <caught: yes|no|partly> "<how caught / note>" """
import json, os, shutil, sys
src, caught, note = sys.argv[1], sys.argv[2], sys.argv[3]
sid = os.path.basename(src.rstrip("/"))
dst = os.path.join("/verif/seeded", sid)
os.makedirs(dst, exist_ok=True)
for f in ("patch.diff", "demo.rs", "demo.md"):
    shutil.copy(os.path.join(src, f), os.path.join(dst, f))
if os.path.exists(os.path.join(src, "patch.orig.diff")):
    shutil.copy(os.path.join(src, "patch.orig.diff"), os.path.join(dst, "patch.orig.diff"))
m = json.load(open(os.path.join(src, "meta.json")))
m["author"] = "fresh sub-agent given only the property text and a scratch worktree of /repo"
m["confirmed_by_lead"] = ("in scratch worktrees of /repo: tools/seed_autoconfirm.py (demo passes on the unchanged checkout, "
                          "patch applies and builds, demo fails with the patch) and tools/seed_suite.sh (the pinned test suite, "
                          "217 tests, passes with the patch applied)")
if os.path.exists(os.path.join(src, "patch.orig.diff")):
    m["rebased"] = "patch.diff re-expressed against the current /repo HEAD (hook/fix commits moved its context); the author's original is patch.orig.diff"
m["check_run"] = "tools/seed_run.sh %s %s (patch applied in a scratch worktree via VERIF_REPO; /repo untouched)" % (src, m["property"])
m["caught"] = caught
m["caught_how"] = note
json.dump(m, open(os.path.join(dst, "meta.json"), "w"), indent=1)
print("kept", dst)
