#!/usr/bin/env python3
"""(dev-time) copy a confirmed seeded change into /verif/seeded/<id>/ and record
what the lead ran and which check caught it.
usage: seed_keep.py <src-dir> <caught: yes|no|partly> "<how caught / note>" """
import json, os, shutil, sys
src, caught, note = sys.argv[1], sys.argv[2], sys.argv[3]
sid = os.path.basename(src.rstrip("/"))
dst = os.path.join("/verif/seeded", sid)
os.makedirs(dst, exist_ok=True)
for f in ("patch.diff", "demo.rs", "demo.md"):
    shutil.copy(os.path.join(src, f), os.path.join(dst, f))
m = json.load(open(os.path.join(src, "meta.json")))
m["author"] = "fresh sub-agent given only the property text and a scratch worktree of /repo"
m["confirmed_by_lead"] = ("tools/seed_confirm.sh in a scratch worktree: demo passes on the unchanged checkout, "
                          "patch applies and builds, the crate's existing tests pass, demo fails with the patch")
m["check_run"] = "tools/seed_run.sh %s %s (patch applied in a scratch worktree via VERIF_REPO; /repo untouched)" % (src, m["property"])
m["caught"] = caught
m["caught_how"] = note
json.dump(m, open(os.path.join(dst, "meta.json"), "w"), indent=1)
print("kept", dst)
