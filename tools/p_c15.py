"""C15 — TLS and WebSocket layers preserve the stream over any transport behaviour."""
import diffcheck
import gen_c15

# event kinds of the log (compio_tls::verif + harness/ext/src/bin/c15.rs)
CB_ENTER, CB_EXIT, FINISH, HS_START, HS_MID, TOP_ENTER, TOP_EXIT = 1, 2, 3, 4, 5, 6, 7
T_READ, T_WRITE, T_FLUSH, T_CLOSE = 101, 102, 103, 104
TASK_POLL, APP = 110, 120
T_KINDS = {T_READ: 1, T_WRITE: 2, T_FLUSH: 3, T_CLOSE: 4}


def parse_log(v, p):
    total, n = v[p], v[p + 1]
    p += 2
    head = [tuple(v[p + 5 * i: p + 5 * i + 5]) for i in range(n)]
    p += 5 * n
    t = v[p]
    p += 1
    tail = [tuple(v[p + 5 * i: p + 5 * i + 5]) for i in range(t)]
    return total, head, tail


def parse(case, out):
    """-> dict or None (rejected / crashed)"""
    if out[:1] != [0]:
        return None
    k = case[0]
    d = {"kind": k, "verdict": out[1]}
    names = "done hs data eof close errstep bytes wait_owing stage".split()
    if k == 1:
        d["cli"] = dict(zip(names, out[2:11]))
        d["srv"] = dict(zip(names, out[11:20]))
        d["calls"] = out[20]
        d["total"], d["head"], d["tail"] = parse_log(out, 21)
    elif k == 3:
        f = "hs_ok write_ok flush_ok held_after_flush close_ok held_after_close peer_hs peer_got peer_data_ok peer_eof"
        d.update(dict(zip(f.split(), out[2:12])))
        d["total"], d["head"], d["tail"] = parse_log(out, 12)
    elif k == 2:
        n2 = "done hs n_ok close err".split()
        d["cli"] = dict(zip(n2, out[2:7]))
        d["srv"] = dict(zip(n2, out[7:12]))
        d["moved"] = out[12:14]
        d["nmsg"] = out[14]
        d["pend_at_release"] = out[15] if len(out) > 15 else 0
    return d


def has_model(case):
    """cases whose run goes through compio's would-block shim (native-tls back-end)"""
    return (case[:1] == [1] and case[1:2] == [0]) or case[:1] == [3]


def side_tokens(evs, truncated):
    """the model's input tokens and the expected model output for one side, from
    the chronological events (tag, kind, a, b, c) of that side"""
    toks, exp = [], []
    ntok = 0
    cur = None
    flags = 0
    nwb = npend = ncalls = ncb = held = 0
    stray = 0
    sig = [i for i, e in enumerate(evs)]
    for i, (_, kind, a, b, c) in enumerate(evs):
        if kind == CB_ENTER:
            cur = {"kind": a, "arg": b, "ans": [], "calls": []}
        elif kind in T_KINDS:
            if cur is None:
                stray += 1
                continue
            tk = T_KINDS[kind]
            cur["calls"] += [tk, a if tk in (1, 2) else 0]
            if b == 0:
                cur["ans"] += [0, c]
            elif b in (1, 2):
                cur["ans"] += [1, 0]
            else:
                cur["ans"] += [2, 0]
        elif kind == CB_EXIT:
            if cur is None:
                stray += 1
                continue
            n = len(cur["ans"]) // 2
            toks += [1, cur["kind"], cur["arg"], n] + cur["ans"]
            exp += [1, n] + cur["calls"] + [a, b, c, 0]
            ntok += 1
            flags = c
            ncb += 1
            ncalls += n
            for j in range(n):
                tk, ak, an = cur["calls"][2 * j], cur["ans"][2 * j], cur["ans"][2 * j + 1]
                if ak == 1:
                    npend += 1
                if tk == 2 and ak == 0:
                    held += an
                if tk == 3 and ak == 0:
                    held = 0
            cur = None
        elif kind == FINISH:
            flags |= 2
            toks += [2]
            exp += [2, flags]
            ntok += 1
        elif kind in (HS_START, HS_MID, TOP_EXIT):
            r = a
            toks += [3, r]
            # what the poll entry point did with the engine's result: after a
            # would-block the task's poll must end Pending (the first handshake
            # call excepted: MidHandshake is polled at once)
            nxt = None
            for (_, k2, a2, _, _) in evs[i + 1:]:
                if k2 in (CB_ENTER, TOP_ENTER, APP, HS_MID, FINISH) or k2 == TASK_POLL:
                    nxt = (k2, a2)
                    break
            if r == 1:
                if kind == HS_START:
                    observed = 1 if (nxt is None or nxt[0] == CB_ENTER or nxt[0] == HS_MID) else 0
                else:
                    observed = 1 if (nxt is None or nxt == (TASK_POLL, 2)) else 0
                nwb += 1
            elif r == 0:
                observed = 0 if (nxt is None or nxt != (TASK_POLL, 2) or kind != HS_MID) else 0
            else:
                observed = 2
            exp += [3, observed, 1]
            ntok += 1
    if stray:
        exp += [555, stray]
    exp += [9, nwb, npend, ncalls, ncb, 1, held]
    return ntok, toks, exp


def sides_of(case, d):
    evs = d["head"]
    truncated = d["total"] > len(evs)
    tags = [1, 2] if case[0] == 1 else [1]
    return [side_tokens([e for e in evs if e[0] == t], truncated) for t in tags]


def oracle(case, out):
    if out[:1] == [99999]:
        return None
    if out[:1] == [2] and len(out) == 2:
        return "panic/abort/hang of the harness process (code %d)" % out[1]
    d = parse(case, out)
    if d is None:
        return "malformed result"
    if d["kind"] == 1:
        be = "native-tls" if case[1] == 0 else "rustls"
        if d["verdict"] == 3:
            where = []
            for nm in ("cli", "srv"):
                s = d[nm]
                if not s["done"]:
                    where.append("%s stuck (handshake %s, %d bytes held back by its transport)"
                                 % ("client" if nm == "cli" else "server",
                                    "done" if s["hs"] else "not done", s["stage"]))
            return "%s: deadlock — no task can run and no transport call is made any more: %s" % (be, "; ".join(where))
        if d["verdict"] == 4:
            return "%s: spinning — the transport call budget was exceeded" % be
        ln = case_len(case)
        for nm, who in (("cli", "client"), ("srv", "server")):
            s = d[nm]
            if s["errstep"]:
                return "%s: %s failed at step %d" % (be, who, s["errstep"])
            if not s["hs"]:
                return "%s: %s handshake did not complete" % (be, who)
            if not s["data"] or s["bytes"] != ln:
                return "%s: %s saw %d bytes (expected %d), content %s" % (
                    be, who, s["bytes"], ln, "equal" if s["data"] else "DIFFERENT")
            if not s["eof"]:
                return "%s: %s did not see a clean end of stream" % (be, who)
            if not s["close"]:
                return "%s: %s close failed" % (be, who)
            if s["wait_owing"]:
                return "%s: %s started waiting for input %d time(s) while its transport held written bytes back and no flush was in flight" % (be, who, s["wait_owing"])
            if s["stage"]:
                return "%s: %s finished with %d bytes still held back by the transport" % (be, who, s["stage"])
        w = lost_wake(d)
        if w:
            return "%s: %s" % (be, w)
        return None
    if d["kind"] == 3:
        who = "client" if case[1] == 0 else "server"
        if not d["hs_ok"]:
            return "always-ready transport: %s handshake failed" % who
        if not d["write_ok"] or not d["flush_ok"] or not d["close_ok"]:
            return "always-ready transport: write/flush/close failed"
        if d["held_after_flush"]:
            return ("always-ready transport (%s): flush() returned Ok with %d bytes still held back by the transport "
                    "(the stream stayed in handshake mode)" % (who, d["held_after_flush"]))
        if d["held_after_close"]:
            return "always-ready transport (%s): close() returned Ok with %d bytes still held back" % (who, d["held_after_close"])
        if not d["peer_hs"]:
            return "always-ready transport: the peer's handshake did not complete"
        if d["peer_got"] != case[2] or not d["peer_data_ok"]:
            return "always-ready transport: the peer received %d of %d bytes" % (d["peer_got"], case[2])
        if not d["peer_eof"]:
            return "always-ready transport: the peer saw no clean end of stream"
        return None
    if d["kind"] == 2:
        tl = ["plain", "native-tls", "rustls"][case[1]]
        if d["verdict"] == 3:
            return "ws/%s: stalled — no byte relayed and no application step for 8 s (client done %d, server done %d)" % (
                tl, d["cli"]["done"], d["srv"]["done"])
        if d["verdict"] == 4:
            return "ws/%s: did not finish in 300 s" % tl
        msgs = ws_msgs(case)
        for nm, who in (("cli", "client"), ("srv", "server")):
            s = d[nm]
            if not s["hs"]:
                return "ws/%s: %s handshake failed" % (tl, who)
            if s["err"] == 4 and nm == "cli" and gen_c15.ws_mode(case) == 3:
                return ("ws/%s: with the outgoing direction stalled (a fed message unflushed, the transport's send side full) the "
                        "reader got a wrong / missing message after %d of %d (a message was dropped, duplicated or reordered)"
                        % (tl, s["n_ok"], len(msgs)))
            if s["err"]:
                return "ws/%s: %s failed at step %d" % (tl, who, s["err"])
        if gen_c15.ws_mode(case) == 3:
            if d["cli"]["n_ok"] != len(msgs):
                return ("ws/%s: with the outgoing direction stalled (a fed message unflushed, the transport's send side full) the "
                        "reader was handed %d of the %d messages the peer sent, in order (a message was dropped, duplicated or "
                        "reordered)" % (tl, d["cli"]["n_ok"], len(msgs)))
            if d["srv"]["n_ok"] != 1:
                return "ws/%s: the 400000-byte message fed before the stall did not arrive intact" % tl
        else:
            if d["cli"]["n_ok"] != len(msgs):
                return "ws/%s: client got %d matching replies for %d messages" % (tl, d["cli"]["n_ok"], len(msgs))
            echoed = sum(1 for k, _ in msgs if k in (0, 1))
            if d["srv"]["n_ok"] != echoed:
                return "ws/%s: server echoed %d of %d data messages" % (tl, d["srv"]["n_ok"], echoed)
        if not d["cli"]["close"] or not d["srv"]["close"]:
            return "ws/%s: closing handshake not completed on both sides" % tl
        return None
    return None


def hits(case, out):
    d = parse(case, out)
    if d and d["kind"] == 2 and gen_c15.ws_mode(case) == 3 and d.get("pend_at_release", 0) >= 1:
        return ["ws read with unflushable outgoing data"]
    return []


def case_len(case):
    # 1 backend wrap cfg cfg seed len ...
    p = 3
    for _ in range(2):
        p += 2
        for _ in range(3):
            p += 1 + case[p]
    return case[p + 1]


def ws_msgs(case):
    p = 2
    for _ in range(2):
        for _ in range(2):
            p += 1 + case[p]
    p += 2
    n = case[p]
    return [(case[p + 1 + 2 * i], case[p + 2 + 2 * i]) for i in range(n)]


def min_relay_limit(case):
    p = 2
    lims = []
    for _ in range(2):
        n = case[p]
        lims += [x for x in case[p + 1: p + 1 + n] if x > 0]
        p += 1 + n
        p += 1 + case[p]
    return min(lims) if lims else 0


def lost_wake(d):
    """every poll of a task that ends Pending must have seen a Pending answer of
    its transport during that poll (that is where its waker is)"""
    for tag, who in ((1, "client"), (2, "server")):
        seen = False
        for (t, kind, a, b, c) in d["head"]:
            if t != tag:
                continue
            if kind == TASK_POLL and a == 0:
                seen = False
            elif kind in T_KINDS and b in (1, 2):
                seen = True
            elif kind in (201, 202, 203, 204) and b in (1, 2):
                seen = True
            elif kind == TASK_POLL and a == 2 and not seen:
                return "%s task returned Pending from a poll in which no transport call answered Pending (nobody holds its waker)" % who
    return None


def both_blocked_writing(d):
    """the last transport call of each side is a write that found no room"""
    evs = d["head"] + d["tail"]
    for tag in (1, 2):
        last = None
        for (t, kind, a, b, c) in evs:
            if t == tag and kind in T_KINDS:
                last = (kind, b)
        if last is None or last[0] != T_WRITE or last[1] not in (1, 2):
            return False
    return True


def flush_pending_in_handshake(d):
    for tag in (1, 2):
        for (t, kind, a, b, c) in d["head"] + d["tail"]:
            if t != tag:
                continue
            if kind == APP and a == 1 and b != 0:
                break
            if kind == T_FLUSH and b in (1, 2):
                return True
    return False


class C15(diffcheck.DiffProp):
    pid = "C15"
    manifest = dict(
        text="Coq theorems about an executable model of compio's own logic around the protocol engines — the would-block shim of the native-tls back-end (Pending <-> WouldBlock), the handshake driving loop (first call, MidHandshake resume, finish_handshake + flush), flush-before-wait, poll_close, and compio-ws' flush-before-yield / double flush — for EVERY engine (a Section variable: a resumable process issuing I/O callbacks; hypotheses written down and met by a toy engine), every transport (interface record; instances: scripted pipe, compio-io's AsyncStream model of C12) and every schedule: no stall (Ready within #Pending+1 polls, Pending polls covered by Pending transport answers, loops bounded by 2), flush before wait, bytes preserved (pass-through; over AsyncStream by refinement to C12's FIFO pair), WebSocket messages exactly once in order. Tied to the code by runs of the real compio-tls (native-tls and rustls) and compio-ws over scripted transports: the shim model is replayed on the observed engine callbacks (exact equality of transport calls, return values, flags, poll results, counts) and an oracle checks data equality, clean close and absence of deadlock/spin under a call-counting watchdog.",
        note="PARTIAL. Proved (Coq, no axioms): properties of compio's glue for all engines/transports/schedules as listed. NOT modelled, only observed through the correspondence runs: OpenSSL/native-tls, rustls/futures-rustls, tungstenite/async-tungstenite — handshakes completing, ciphertext framing, message parsing; the rustls back-end is pure delegation to futures-rustls (no compio logic to model: oracle only); compio-ws only accepts descriptors, so its runs use Unix socket pairs with a fragmenting/delaying relay instead of the in-memory pipe, and have no model part (oracle only, plus the 'server idles after Ping' scenario that observes flush-before-yield directly). Engine hypotheses of C15_no_stall (would-block only right after a callback said so; bounded callbacks per call) are checked against OpenSSL's observed behaviour on every run (wb_ok), not proved. Trusted: Coq kernel, extraction + driver, the cfg(compio_verif) hook commit in compio-tls, harness/ext/src/bin/c15.rs, tools/p_c15.py. Two fix: commits (native-tls poll_close, first-call-completes handshake); known finding: the rustls back-end forgets a Pending flush during the handshake (futures-rustls 0.26).",
        technique="Coq proof over an engine-parametric model (Section variable + hypotheses) + replay of observed engine behaviour through the extracted model + oracle on real TLS/WebSocket runs")
    prop_file = "prop/C15.v"
    model_name = "c15"
    harness_bin = "c15"
    package = "ext"
    gen = gen_c15
    shards = 8
    thorough_release = False
    counts = {"quick": 200, "thorough": 4000}
    rule = ("cases = corpus (minimised earlier failures: poll_close with a flush that does not complete at once, handshake "
            "completing in the first call, rustls Pending flush) + random: ~70% TLS sessions (native-tls / rustls, transport "
            "handed over directly or under compio-io's AsyncStream; per side: hold-back-until-flush, in-flight bound, cyclic "
            "per-call read/write limits, scripted Pending answers; payload 0..64 KiB, write chunkings, lock-step or pipelined echo, "
            "close from the client then from the server), ~27% compio-ws sessions over socket pairs with a relay (plain / native-tls / "
            "rustls; text/binary/ping lists, lock-step / pipelined / server idling after Ping; close handshake), ~3% always-ready "
            "transport with a peer thread; non-trivial = both handshakes completed; distinct = distinct case lines")
    trusted_base = [
        "Coq 8.16.1 kernel (coqc, full .vo build); vm_compute only in the non-vacuity examples",
        "extraction: ExtrOcamlBasic only; coq/extract/driver.ml; coq/model/RunC15.v decoder",
        "hook commit in /repo: compio_tls::verif event log (cfg(compio_verif), add-only) reports faithfully",
        "harness/ext/src/bin/c15.rs (scripted duplex transport, Logged wrapper, watchdog, relay), tools/gen_c15.py, tools/p_c15.py",
        "the protocol engines themselves: OpenSSL via native-tls 0.2.18, rustls 0.23 via futures-rustls 0.26, tungstenite 0.30 via async-tungstenite 0.35 (environments)",
    ]
    assumptions = [
        "engine hypotheses of C15_no_stall: an engine call ends with would-block only right after a callback returned would-block, and makes boundedly many callbacks per call (checked on every observed OpenSSL call: wb_ok)",
        "the transport obeys the AsyncRead/AsyncWrite contract and finitely many of its answers are Pending (eventually delivers)",
        "compio-io's AsyncStream is the model of C12 (model/Compat.v) where the theorems go through it",
        "one task per stream, polled again only after a wake-up; single-threaded runtime",
    ]

    def oracle(self, case, out):
        return oracle(case, out)

    def model_input(self, case, out):
        d = parse(case, out) if out else None
        if d is None or not has_model(case):
            return [0]
        sides = sides_of(case, d)
        res = [1, len(sides)]
        for (ntok, toks, _) in sides:
            res += [ntok] + toks
        return res

    def model_expected(self, case, out):
        d = parse(case, out) if out else None
        if d is None or not has_model(case):
            return [0]
        res = []
        for (_, _, exp) in sides_of(case, d):
            res += exp
        return res

    def known(self, case, out, what):
        # rustls back-end (futures-rustls): a poll_flush that answers Pending during
        # the handshake is never retried; a transport that holds data back until the
        # flush completes then keeps the handshake flight for ever
        if case[:1] == [1] and case[1:2] == [1] and out:
            d = parse(case, out)
            if d and d["verdict"] == 3 and not (d["cli"]["hs"] and d["srv"]["hs"]) and flush_pending_in_handshake(d):
                return "C15-rustls-handshake-flush-pending"
        # rustls does not read while it still has handshake data to send; with an in-flight bound of a
        # few bytes in both directions both peers end up waiting for room to write and nobody reads
        if case[:1] == [1] and case[1:2] == [1] and out:
            d = parse(case, out)
            if d and d["verdict"] == 3 and not (d["cli"]["hs"] and d["srv"]["hs"]) and both_blocked_writing(d):
                return "C15-rustls-handshake-both-sides-writing-into-full-pipes"
        # tungstenite's AttackCheck: the HTTP upgrade delivered in > 64 reads of < 128 bytes
        # on average is refused (Error::AttackAttempt), by design of the engine
        if case[:1] == [2] and case[1:2] == [0] and out:
            d = parse(case, out)
            if d and not (d["cli"]["hs"] and d["srv"]["hs"]) and min_relay_limit(case) in (1, 2):
                return "C15-ws-upgrade-fragmentation-refused"
        return None


PROP = C15()
