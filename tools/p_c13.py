"""C13 — framing and ancillary codecs: round trip and hostile-input safety."""
import diffcheck
import gen_c13

CHARS = gen_c13.CHARS
NOOP_MAX = 4096


class Cur:
    def __init__(self, v):
        self.v, self.i = v, 0

    def take(self):
        x = self.v[self.i]
        self.i += 1
        return x

    def take_n(self, n):
        if n < 0 or self.i + n > len(self.v):
            raise IndexError
        s = self.v[self.i:self.i + n]
        self.i += n
        return s

    def bytes(self):
        return self.take_n(self.take())

    def rest(self):
        s = self.v[self.i:]
        self.i = len(self.v)
        return s

    def done(self):
        return self.i == len(self.v)


# ---- case decoding ---------------------------------------------------------

def dec_framer(c):
    k = c.take() % 10          # + 10 * construction path: the declared framer is the same
    if k == 1:
        return ("len", c.take(), c.take())
    if k == 2:
        return ("delim", c.bytes())
    if k == 3:
        return ("delim", CHARS[c.take()])
    return ("noop",)


def dec_frames(c):
    return [c.bytes() for _ in range(c.take())]


def dec_sched(c):
    n = c.take()
    s = c.take_n(2 * n)
    return [(s[2 * i], s[2 * i + 1]) for i in range(n)]


def dec_msgs(c):
    ms = []
    for _ in range(c.take()):
        level, ty, kind = c.take(), c.take(), c.take()
        ms.append((level, ty, c.bytes()))
    return ms


# ---- reference (specification level) ---------------------------------------

def find(d, w, start=0):
    for i in range(start, len(w) - len(d) + 1):
        if w[i:i + len(d)] == d:
            return i
    return None


def int_of(bs, be):
    v = 0
    for b in (bs if be else bs[::-1]):
        v = v * 256 + b
    return v


def fits(fr, p):
    """payloads the framing can represent at all"""
    if fr[0] == "len":
        return len(p) < 256 ** fr[1]
    if fr[0] == "delim":
        return find(fr[1], p + fr[1]) == len(p)
    return True


def ref_encode(fr, frames):
    out = []
    for p in frames:
        if fr[0] == "len":
            n = len(p)
            hdr = [(n >> (8 * i)) & 255 for i in range(fr[1])]
            out += (hdr[::-1] if fr[2] else hdr) + p
        elif fr[0] == "delim":
            out += p + fr[1]
        else:
            out += p
    return out


def ref_parse(fr, data):
    """the frames contained in a byte string (greedy, fragmentation-free)"""
    out, pos = [], 0
    if fr[0] == "len":
        lfl = fr[1]
        while len(data) - pos >= lfl:
            n = int_of(data[pos:pos + lfl], fr[2])
            if len(data) - pos - lfl < n:
                break
            out.append(data[pos + lfl:pos + lfl + n])
            pos += lfl + n
    elif fr[0] == "delim":
        d = fr[1]
        while True:
            i = find(d, data, pos)
            if i is None:
                break
            out.append(data[pos:i])
            pos = i + len(d)
    return out


def align8(n):
    return (n + 7) // 8 * 8


def space(n):
    return 16 + align8(n)


def le(bs):
    return sum(b << (8 * i) for i, b in enumerate(bs))


def admit(cap, ms):
    """which pushes a buffer of cap bytes has room for, in order"""
    used, st = 0, []
    for (_, _, d) in ms:
        if cap >= 16 and used + space(len(d)) <= cap:
            st.append(0)
            used += space(len(d))
        else:
            st.append(1)
    return st, used


def walk(buf):
    """the control messages a buffer holds: (level, type, cmsg_len, offset), well-formed?"""
    items, wf, off = [], True, 0
    if len(buf) < 16:
        return None, False
    while True:
        clen = le(buf[off:off + 8])
        items.append((le(buf[off + 8:off + 12]), le(buf[off + 12:off + 16]), clen, off))
        if clen < 16 or off + clen > len(buf):
            wf = False
        if clen < 16:
            break
        nxt = off + align8(clen)
        if nxt + 16 > len(buf):
            break
        off = nxt
    return items, wf


# ---- result decoding -------------------------------------------------------

def dec_items(o):
    n = o.take()
    oks, errs = [], []
    for _ in range(n):
        if o.take() == 0:
            oks.append(o.bytes())
        else:
            errs.append(o.take())
    return n, oks, errs


def dec_citems(o):
    its = []
    for _ in range(o.take()):
        level, ty = o.take(), o.take()
        clen = o.take() + (o.take() << 32)
        off = o.take()
        slen = o.take() + (o.take() << 32)
        st = o.take()
        data = o.bytes() if st == 0 else None
        its.append((level, ty, clen, off, slen, st, data))
    return its


def dec_sops(c):
    ops = []
    for _ in range(c.take()):
        t = c.take()
        if t in (1, 2):
            fail, k = c.take(), c.take()
            ops.append((t, c.bytes(), fail == 1))
        else:
            ops.append((t, None, False))
    return ops


def prefix_pieces(frames, b):
    """can b be cut into one (possibly empty) prefix of every frame, in order?"""
    reach = {0}
    for f in frames:
        nxt = set()
        for pos in reach:
            j = 0
            nxt.add(pos)
            while j < len(f) and pos + j < len(b) and b[pos + j] == f[j]:
                j += 1
                nxt.add(pos + j)
        reach = nxt
    return len(b) in reach


def check_sink(c, o):
    fr = dec_framer(c)
    ops = dec_sops(c)
    sched = dec_sched(c)
    results = [(o.take(), o.take()) for _ in ops]
    seen, flushes = [], 0
    for _ in range(o.take()):
        t = o.take()
        if t == 1:
            seen += o.bytes()
        elif t not in (2, 3):
            return "malformed writer log"
    if not o.done():
        return "malformed result"
    io_kinds = {a for (k, a) in sched if k == 1 and a != 3} | {2}
    frames = []
    for (t, p, fail), r in zip(ops, results):
        io_error = r[0] == 1 and r[1] in io_kinds and r[1] != 22
        if t in (1, 2):
            if fail:
                if r == (0, 0):
                    return "the encoder failed on an item but feed/send reported success"
                if r != (1, 22) and not io_error:
                    return "unexpected result %r for an item the encoder rejects" % (r,)
            else:
                if r == (1, 22):
                    return "a codec error was reported for an item that encodes fine"
                if r != (0, 0) and not io_error:
                    return "unexpected result %r" % (r,)
                frames.append(ref_encode(fr, [p]))      # each ok item framed on its own
        elif r != (0, 0) and not io_error:
            return "unexpected result %r of flush/close" % (r,)
    if all(r[0] == 0 or r == (1, 22) for r in results):
        # no write error: everything except a frame fed last (still pending) was handed over
        exp = [b for f in frames for b in f]
        last = ops[-1] if ops else None
        if last and last[0] == 1 and not last[2]:
            exp = exp[:len(exp) - len(frames[-1])]
        if seen != exp:
            return ("the writer was handed %d bytes, the framings of the successfully encoded items are %d bytes: "
                    "a failed item leaked into a frame, or a frame was lost or glued" % (len(seen), len(exp)))
    elif not prefix_pieces(frames, seen):
        return "the writer saw bytes that are not prefixes of the framings of the successfully encoded items"
    return None


def check_stream(fr, sched, data, o, frames=None):
    n, oks, errs = dec_items(o)
    reads, remaining = o.take(), o.take()
    if not o.done():
        return "malformed result"
    if reads > len(sched) + 2:
        return "%d reads for a schedule of %d answers" % (reads, len(sched))
    if remaining > len(data):
        return "reader holds more than the stream"
    delivered = data[:len(data) - remaining]
    kinds = [a for (k, a) in sched if k == 1]
    if errs != kinds[:len(errs)]:
        return "error items %r do not follow the reader's errors %r" % (errs, kinds)
    if fr[0] == "noop":
        got = [b for p in oks for b in p]
        if got != delivered:
            return "NoopFramer: %d bytes out, %d bytes delivered (lost, duplicated or reordered)" % (
                len(got), len(delivered))
        if any(len(p) == 0 for p in oks):
            return "NoopFramer yielded an empty frame"
    else:
        exp = ref_parse(fr, delivered)
        if oks != exp:
            return "decoded %d frames, the delivered bytes contain %d: merged, split or dropped under this fragmentation" % (
                len(oks), len(exp))
    if frames is not None and all(fits(fr, p) for p in frames):
        if fr[0] != "noop":
            if oks != frames[:len(oks)]:
                return "decoded frames are not a prefix of the frames sent"
            if remaining == 0 and oks != frames:
                return "whole stream delivered but %d of %d frames decoded" % (len(oks), len(frames))
    return None


def _oracle(case, out):
    c, o = Cur(case), Cur(out)
    op = c.take()
    if o.take() != 0:
        return "malformed result"
    if op == 1:
        fr = dec_framer(c)
        c.take()
        frames = dec_frames(c)
        enc = o.bytes()
        bad = [p for p in frames if fr[0] == "len" and not fits(fr, p)]
        if bad:
            return ("LengthDelimited::enclose wrote a %d-byte payload with a %d-byte length field "
                    "(silently truncated length)" % (len(bad[0]), fr[1]))
        if enc != ref_encode(fr, frames):
            return "encoded stream differs from the framing specification"
    elif op == 2:
        fr = dec_framer(c)
        sched = dec_sched(c)
        return check_stream(fr, sched, c.rest(), o)
    elif op == 3:
        fr = dec_framer(c)
        c.take()
        frames = dec_frames(c)
        sched = dec_sched(c)
        enc = o.bytes()
        bad = [p for p in frames if fr[0] == "len" and not fits(fr, p)]
        if bad:
            return ("LengthDelimited::enclose wrote a %d-byte payload with a %d-byte length field "
                    "(silently truncated length): the frame list does not round-trip" % (len(bad[0]), fr[1]))
        if enc != ref_encode(fr, frames):
            return "encoded stream differs from the framing specification"
        return check_stream(fr, sched, enc, o, frames)
    elif op == 4:
        fr = dec_framer(c)
        b = c.take()
        w = c.rest()[b:]
        o.take()
        if o.take() == 0:
            got = None
        else:
            pre, pay, suf, flen = o.take(), o.take(), o.take(), o.take()
            body = o.bytes()
            if pre + pay + suf != flen or flen > len(w) or flen < 1:
                return "frame (%d,%d,%d) does not lie inside a %d-byte buffer" % (pre, pay, suf, len(w))
            if body != w[pre:pre + pay]:
                return "Frame::slice is not the payload range"
            got = (pre, pay, suf)
        if fr[0] == "len":
            exp = None
            if len(w) >= fr[1]:
                n = int_of(w[:fr[1]], fr[2])
                if len(w) - fr[1] >= n:
                    exp = (fr[1], n, 0)
        elif fr[0] == "delim":
            i = find(fr[1], w)
            exp = None if i is None else (0, i, len(fr[1]))
        else:
            exp = (0, min(len(w), NOOP_MAX), 0) if w else None
        if got != exp:
            return "extract returned %r, the buffer holds %r" % (got, exp)
    elif op in (5, 6):
        cap = c.take()
        ms = dec_msgs(c)
        st = o.take_n(len(ms))
        exp_st, used = admit(cap, ms)
        if st != exp_st:
            return "push statuses %r, room for %r" % (st, exp_st)
        filled = o.take()
        if filled != used or filled > cap:
            return "buffer length %d after pushes needing %d (capacity %d)" % (filled, used, cap)
        adm = [m for m, s in zip(ms, st) if s == 0]
        if op == 5:
            buf = o.take_n(filled)
            if not adm:
                return None
            items, wf = walk(buf)
            if not wf or len(items) != len(adm):
                return "built buffer is not a well-formed sequence of %d messages" % len(adm)
            for (lv, ty, clen, off), (level, t, d) in zip(items, adm):
                if (lv, ty, clen) != (level, t, 16 + len(d)) or buf[off + 16:off + 16 + len(d)] != d:
                    return "built buffer does not hold message (%d,%d,%r) at offset %d" % (level, t, d, off)
        else:
            its = dec_citems(o)
            if len(its) != len(adm):
                return "%d messages came back, %d were admitted" % (len(its), len(adm))
            for (lv, ty, clen, off, slen, s, data), (level, t, d) in zip(its, adm):
                if off + slen > filled:
                    return ("decode was handed [%d, %d) of a %d-byte control buffer (out of bounds)"
                            % (off, off + slen, filled))
                if (lv, ty) != (level, t) or slen != len(d) or clen != 16 + len(d):
                    return "message (%d,%d,len %d) came back as (%d,%d,len %d)" % (level, t, len(d), lv, ty, slen)
                if s != 0 or data != d:
                    return "data %r came back as %r (status %d)" % (d, data, s)
    elif op == 7:
        want = c.take()
        buf = c.rest()
        items, wf = walk(buf)
        if not wf:
            return None      # not a valid control buffer: outside AncillaryIter::new's contract
        its = dec_citems(o)
        if len(its) != len(items):
            return "iterator yielded %d messages, the buffer holds %d" % (len(its), len(items))
        for (lv, ty, clen, off, slen, s, data), (level, t, cl, o0) in zip(its, items):
            if (lv, ty, clen) != (level, t, cl):
                return "header fields differ"
            if off != o0 + 16 or off + slen > len(buf):
                return ("decode was handed [%d, %d) of a %d-byte control buffer (out of bounds)"
                        % (off, off + slen, len(buf)))
            if slen != cl - 16:
                return "data slice of %d bytes for a message with %d data bytes" % (slen, cl - 16)
            if want > slen:
                exp = (1, None)
            elif off + want <= len(buf):
                exp = (0, buf[off:off + want])
            else:
                exp = (2, None)
            if (s, data) != exp:
                return "typed decode (%d bytes wanted, %d present): %r, expected %r" % (want, slen, (s, data), exp)
    elif op == 8:
        return check_sink(c, o)
    elif op == 9:
        fr = dec_framer(c)
        sched = dec_sched(c)
        data = c.rest()
        n = o.take()
        got = []
        for _ in range(n):
            got.append(("ok", o.bytes()) if o.take() == 0 else ("err", o.take()))
        reads, remaining = o.take(), o.take()
        if reads > len(sched) + 2 or remaining > len(data):
            return "read count / remaining bytes out of range"
        exp = [("err", 22) if p[:1] == [255] else ("ok", p)
               for p in (ref_parse(fr, data[:len(data) - remaining]) if fr[0] != "noop" else [])]
        if fr[0] != "noop":
            frames_got = [g for g in got if g[0] == "ok" or g[1] == 22]
            if frames_got != exp:
                return ("failing decoder: %d frame items, the delivered bytes hold %d frames "
                        "(a rejected frame must be consumed like any other)" % (len(frames_got), len(exp)))
    if not o.done():
        return "malformed result (trailing data)"
    return None


def documented_panic(case, code):
    """AncillaryBuilder::new / AncillaryIter::new panic on a buffer shorter than one header"""
    try:
        c = Cur(case)
        op = c.take()
        if op in (5, 6):
            cap = c.take()
            ms = dec_msgs(c)
            if cap < 16:
                return True
            return op == 6 and not any(s == 0 for s in admit(cap, ms)[0])
        if op == 7:
            c.take()
            buf = c.rest()
            return len(buf) < 16 or not walk(buf)[1]
    except IndexError:
        pass
    return False


def oracle(case, out):
    if out[:1] == [99999]:
        return None
    if out[:1] == [2] and len(out) == 2:
        if documented_panic(case, out[1]):
            return None
        names = {4: "abort", 8: "endless loop", 5: "arithmetic overflow", 2: "index out of bounds", 3: "assertion"}
        return "%s (code %d) instead of a frame or an error" % (names.get(out[1], "panic"), out[1])
    try:
        return _oracle(case, out)
    except IndexError:
        return "malformed result %r" % (out[:40],)


MANIFEST = dict(
    text="Unbounded Coq theorems (induction over every frame list, every schedule of the inner reader incl. zero reads and errors, every byte string, every program of sink operations with encoder failures at arbitrary positions and every writer script, every capacity/message list, every previous content of a reused receive buffer) about executable models of compio-io's framers, Framed sink/stream, ancillary builder/iterator and of compio-driver's multishot-RECVMSG result buffer; tied to the code on every run by exact differential correspondences: 9 operations on the real Framed (scripted reader/writer, a probe codec that fails after partial output) and AncillaryBuf/Builder/Iter (probe AncillaryData), and - runtime part, io_uring driver - real UDP / unix-socket datagrams with real ancillary data received by a multishot RECVMSG into reused pool buffers plus hostile buffer contents through RecvMsgMultiResult::new; independent oracles (fragmentation-free reference parser, each ok item framed on its own, slice-in-bounds, what was sent = what came back).",
    note="Trusted: Coq kernel; ExtrOcamlBasic extraction + OCaml driver; the Rust harnesses (scripted reader/writer, probe codec and probe AncillaryData, aligned run-time control buffer; socket recipes and the canonical form of SCM_RIGHTS/SCM_CREDENTIALS data); std Vec growth policy (fixes read sizes only); libc 0.2.189 CMSG_* macros and cmsghdr layout for x86_64-linux-gnu and the io_uring_recvmsg_out buffer layout (name area 128) transcribed by hand into Cmsg.v / RecvMsgOut.v; kernel_fill is an environment model checked against the running kernel; MAX_LFL/FRAMED_RESERVE/NOOP_MAX_SIZE via consts.py. Codecs = BytesCodec and the probe codec (serde_json not modelled); AncillaryIter and RecvMsgMultiResult::new only for valid buffers (their unsafe contracts) - for other contents agreement and in-bounds slices are checked; control truncation (MSG_CTRUNC) is not exercised. Fixed defects: 6417e42, 22bb801, 004c7e7. No axioms. Known finding C13-lenfield-truncation is outside the theorem guard |payload| < 256^lfl, with a refuted-witness lemma.",
    technique="Coq proof (induction over frames, fragments, schedules and sink programs; layout lemmas) + extracted-model differential correspondence (pure harness and io_uring runtime harness)")


class C13(diffcheck.DiffProp):
    pid = "C13"
    evidence_name = "C13"
    corpus_name = "C13"
    manifest = MANIFEST
    prop_file = "prop/C13.v"
    model_name = "c13"
    harness_bin = "c13"
    package = "pure"
    gen = gen_c13
    counts = {"quick": 2400, "thorough": 60000}
    uses_consts = True
    rule = ("cases = corpus (D5/D14 witnesses, minimised failures) + generated: frame lists through the real Framed "
            "sink and back through the real Framed stream under a scripted reader (every cut point and byte-by-byte "
            "for streams <= 16 bytes, random read sizes / zero reads / errors otherwise; LengthDelimited widths 1..8 "
            "both byte orders, AnyDelimited 1..3 byte delimiters, CharDelimited with 1..4 byte chars, NoopFramer; every framer and the BytesCodec built by new(), Default::default() or a clone of either, about half of the cases by a path other than new()), "
            "hostile byte streams and hostile buffers through Framer::extract, control-message lists through "
            "AncillaryBuilder/AncillaryIter with buffer sizes 0..96 and 128, raw control buffers (well-formed, "
            "truncated, lying cmsg_len), programs of feed/send/flush/close on the Framed sink with a codec that fails "
            "after k bytes on flagged items against a scripted writer (short writes, Pending, Interrupted, errors, "
            "Ok(0)) with every framer, byte streams through a decoder that rejects some frames; "
            "distinct = distinct case lines; non-trivial = not rejected, no panic, "
            "at least one frame/message/byte produced")
    trusted_base = [
        "Coq 8.16.1 kernel (coqc, full .vo build); vm_compute only in witness/example lemmas",
        "extraction: ExtrOcamlBasic only, no Extract Constant; coq/extract/driver.ml; ocamlfind ocamlopt",
        "harness/pure/src/bin/c13.rs (scripted reader/writer, probe AncillaryData, run-time sized aligned control "
        "buffer), tools/gen_c13.py, tools/p_c13.py oracle, tools/diffcheck.py",
        "std Vec<u8> growth policy max(8, 2*cap, len+additional) (modelled, not verified): it fixes how many bytes "
        "a read may return, not what is decoded",
        "libc 0.2.189 CMSG_ALIGN/LEN/SPACE/FIRSTHDR/NXTHDR and struct cmsghdr for x86_64-unknown-linux-gnu, "
        "transcribed into model/Cmsg.v (sizeof(cmsghdr)=16, alignment 8, little endian); checked by the "
        "correspondence, not translated mechanically",
        "constants MAX_LFL, FRAMED_RESERVE, NOOP_MAX_SIZE regenerated from the source by tools/consts.py",
    ]
    assumptions = [
        "the inner reader obeys the AsyncRead contract: returns n <= capacity, writes at the start of the writable "
        "region and records n via advance_to; Ok(0) means end of file",
        "the inner writer is driven by write_all, which hands over the whole buffer (C11_write_all)",
        "codecs = BytesCodec (identity on bytes) and the harness' probe codec (fails after writing k bytes / rejects "
        "frames starting with 255); the serde_json codec is not modelled",
        "a Pending answer of the writer only makes the write future yield and be polled again (dropped from the "
        "writer script in the model); flush/shutdown of the scripted writer succeed",
        "control buffers given to AncillaryIter::new are valid (its unsafe contract): built by AncillaryBuilder or by "
        "the kernel; for other byte strings only model/implementation agreement is checked",
        "futures are driven by futures-executor::block_on on one thread",
    ]

    def oracle(self, case, out):
        return oracle(case, out)

    def known(self, case, out, what):
        try:
            c = Cur(case)
            op = c.take()
            if op in (1, 3):
                fr = dec_framer(c)
                c.take()
                frames = dec_frames(c)
                if fr[0] == "len" and any(not fits(fr, p) for p in frames):
                    return "C13-lenfield-truncation"
        except IndexError:
            pass
        return None



import p_c13rt  # noqa: E402


class C13All:
    """C13 = pure part (harness pure/c13: framers, Framed sink/stream, ancillary codec) + runtime part
    (harness rt/c13rt: multishot RECVMSG result buffer on the io_uring driver); one evidence file"""
    pid = "C13"
    manifest = MANIFEST
    prop_file = "prop/C13.v"
    model_name = "c13"
    harness_bin = "c13"
    package = "pure"
    model_names = ["c13", "c13rt"]
    harness_bins = [("c13", "pure"), ("c13rt", "rt")]

    def __init__(self):
        self.parts = [C13(), p_c13rt.C13RT()]
        self.gen = self.parts[0].gen

    def oracle(self, case, out):
        return self.parts[0].oracle(case, out)

    def known(self, case, out, what):
        return self.parts[0].known(case, out, what)

    def run(self, tier, seed, replay=None):
        return diffcheck.run_multi("C13", self.parts, tier, seed, replay)


PROP = C13All()
