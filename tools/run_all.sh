#!/bin/sh
# dev helper: every registered check in turn on the current tree; one summary line each.
#   tools/run_all.sh [quick|thorough]
T=${1:-quick}
cd "$(dirname "$0")/.."
for p in $(python3 -c "import sys; sys.path.insert(0,'tools'); import registry; print(' '.join(registry.PROPS))"); do
  s=$(date +%s)
  ./check $p --tier $T > /tmp/run_all_$p.log 2>&1; rc=$?
  echo "$p exit=$rc $(( $(date +%s) - s ))s $(grep -c '^VIOLATION' /tmp/run_all_$p.log) violations $(grep -c '^KNOWN-FINDING' /tmp/run_all_$p.log) known | $(tail -1 /tmp/run_all_$p.log | cut -c1-160)"
done
