"""Case generator for C16 (compio-quic on loopback).

Case formats (see harness/ext/src/bin/c16.rs):
  1 srw rw sw max_uni max_bi nuni nbi wchunk rchunk pace ndgram dlen seed len*(nuni+nbi)
      stream / connection receive windows, send window, stream-count limits, numbers of
      concurrent uni / bidi streams, write and read chunk sizes, reader pacing (yields between
      reads), datagrams, payload length per stream
  2 close_kind     many pending futures, then 0 client connection.close, 1 client endpoint.close,
                   2 server connection.close, 3 server endpoint.close
  3 n              n tasks in accepted_0rtt() on clones of a 0.5-RTT server connection
  4 len stop_after the reader stops a uni stream after stop_after bytes (stream window 1000)
  5 n dlen sendbuf n datagrams of dlen bytes through send_datagram_wait with a send buffer of sendbuf bytes
  6 len hdr mode wchunk pre_cap delay
                   the first hdr bytes of a len-byte stream are consumed with read (mode 0) / read_chunk
                   (mode 1), the rest with read_to_end into Vec::with_capacity(pre_cap); the reader starts
                   delay ms late
  7 bidi max rounds written observe len2
                   rounds streams are written to (written bytes, not finished), stopped by the peer and
                   then dropped without reset()/finish() (observe 0: after stopped() reported the stop,
                   1: after a write failed with Stopped, 2: after 20 ms); max concurrent streams; a last
                   stream carries len2 bytes

Kind 2 also keeps three spawned tasks in send_datagram_wait on a full 1200-byte datagram send buffer
and closes at a moment when the hook shows them parked.
"""
import random


def data_case(srw, rw, sw, max_uni, max_bi, nuni, nbi, wchunk, rchunk, pace, ndgram, dlen, seed, lens):
    assert len(lens) == nuni + nbi
    return [1, srw, rw, sw, max_uni, max_bi, nuni, nbi, wchunk, rchunk, pace, ndgram, dlen, seed] + list(lens)


def gen_data(r, big):
    nuni = r.choice([0, 1, 1, 2, 3, 5])
    nbi = r.choice([0, 1, 1, 2, 4])
    if nuni + nbi == 0:
        nuni = 1
    srw = r.choice([200, 1000, 5000, 65536, 1250000])
    rw = max(srw, r.choice([1000, 20000, 1250000]))
    sw = r.choice([1000, 20000, 1250000])
    max_uni = r.choice([1, 1, 2, 100])
    max_bi = r.choice([1, 1, 2, 100])
    if big:
        lens = [r.choice([20000, 65536, 200000]) for _ in range(nuni + nbi)]
        srw = max(srw, 5000)
        rw = max(rw, 20000)
        sw = max(sw, 20000)
        wchunk = r.choice([1000, 16384, 70000])
        rchunk = r.choice([1000, 16384, 70000])
        pace = r.choice([0, 0, 1])
    else:
        lens = [r.choice([0, 1, 7, 100, 1000, 5000, 12000]) for _ in range(nuni + nbi)]
        wchunk = r.choice([1, 7, 100, 1000, 16384])
        rchunk = r.choice([1, 7, 100, 1000, 16384])
        if max(lens) >= 5000:
            wchunk, rchunk = max(wchunk, 100), max(rchunk, 100)
        elif max(lens) >= 1000:
            wchunk, rchunk = max(wchunk, 7), max(rchunk, 7)
        pace = r.choice([0, 0, 1, 3, 10])
    ndgram = r.choice([0, 0, 1, 3, 8])
    dlen = r.choice([0, 10, 500, 1000])
    return data_case(srw, rw, sw, max_uni, max_bi, nuni, nbi, wchunk, rchunk, pace, ndgram, dlen,
                     r.randint(0, 255), lens)


def gen_case(r):
    x = r.random()
    if x < 0.42:
        return gen_data(r, big=False)
    if x < 0.48:
        return gen_data(r, big=True)
    if x < 0.62:
        return [2, r.randint(0, 3)]
    if x < 0.76:
        ln = r.choice([1, 300, 5000, 20000, 70000, 200000])
        hdr = r.choice([h for h in (0, 1, 1, 4, 4, 100, 100, 1200, 1200, 5000, ln, ln) if h <= ln])
        return [6, ln, hdr, r.randint(0, 1), r.choice([7, 1000, 16384]) if ln <= 5000 else r.choice([1000, 16384]),
                r.choice([0, 0, 10, 1000, ln // 2, ln, 2 * ln]), r.choice([0, 0, 5, 30])]
    if x < 0.90:
        mx = r.choice([1, 1, 2])
        return [7, r.randint(0, 1), mx, mx + r.choice([1, 2, 4]), r.choice([1, 10, 500, 900]), r.randint(0, 2),
                r.choice([0, 100, 5000, 70000])]
    if x < 0.905:
        return [9, r.choice([3, 100, 3000]), r.choice([0, 1, 2000, 30000]), r.randint(0, 1)]
    if x < 0.915:
        return [8, r.choice([2, 2, 3, 4]), r.choice([1, 100, 1000])]
    if x < 0.93:
        return [3, r.randint(1, 5)]
    if x < 0.97:
        ln = r.choice([300, 5000, 50000])
        return [4, ln, r.choice([x for x in (0, 1, 200, 700, 2000, 10000) if x < ln])]
    return [5, r.choice([1, 10, 40]), r.choice([0, 100, 1000]), r.choice([1200, 3000, 100000])]


def generate(seed, n):
    rng = random.Random(seed)
    return [gen_case(rng) for _ in range(n)]


def describe(case):
    try:
        if case[0] == 1:
            return "streams/%duni+%dbi%s%s" % (case[6], case[7], "/dgram" if case[11] else "",
                                                "/small-window" if case[1] <= 5000 else "")
        if case[0] == 2:
            return "close/%s" % ["client-conn", "client-endpoint", "server-conn", "server-endpoint"][case[1]]
        if case[0] == 3:
            return "accepted_0rtt-waiters/%d" % case[1]
        if case[0] == 4:
            return "stop-sending"
        if case[0] == 5:
            return "datagrams/small-send-buffer" if case[3] < 10000 else "datagrams"
        if case[0] == 6:
            return "read_to_end-after-%s" % ("nothing" if case[2] == 0 else ("read" if case[3] == 0 else "read_chunk"))
        if case[0] == 8:
            return "datagram-readers/%d" % case[1]
        if case[0] == 9:
            return "bidi-halves/%s" % ("read_to_end" if case[3] == 0 else "read")
        if case[0] == 7:
            return "drop-stopped-%s/%s" % ("bidi" if case[1] else "uni", ["after-stopped()", "after-write-error", "after-20ms"][case[5]])
    except IndexError:
        pass
    return "malformed"


def nontrivial(case, out):
    if out[:1] != [0] or len(out) < 4:
        return False
    if case[0] == 1:
        return out[1] == 0 and (out[2] & 1) == 1
    if case[0] == 2:
        return out[1] >= 100
    return out[1] == 0
