"""Case generator for C20 (child processes). One case = one scenario, 12 integers
(see coq/model/RunC20.v and harness/rt/src/bin/c20.rs):

  [drv; n_out; n_err; n_in; use_stdin; rchunk; wchunk; exit_kind; exit_arg;
   order; reuse; delay_ms]

order: 0 wait first, 1 drain first, 2 concurrent, 3 wait_with_output, 4 / 5 = wait /
wait_with_output while the Child still owns its ChildStdin (child = cat, n_in = 0).
A second case shape, 5 integers [drv; dir; m; k; n_out], is ONE write call (dir 0) or
ONE read call (dir 1) with a buffer of m * 2^32 + k bytes (request-length arithmetic of
huge buffers: exactly 2^32, a multiple, 2^32 + k); a few per run, both drivers.
Every scenario is emitted for both drivers (drv 0 = io_uring, 1 = polling).
Payload sizes sit below, at and above the pipe capacity (65536); a few
scenarios push >= 2 MiB through `cat` with a single large write call.  Chunk
sizes run from 1 byte to the whole payload; the number of read/write calls per
scenario is bounded so that the reference simulation stays cheap.
"""
import random

CAP = 65536
SIGNALS = [1, 2, 9, 10, 12, 13, 14, 15]
SMALL = [0, 1, 2, 63, 100, 251, 1000, 4096, 5000, 40000, CAP - 1, CAP]
ABOVE = [CAP + 1, 70000, 100000, 131072, 200000, 300000]
BIG = [2 * 1024 * 1024, 2 * 1024 * 1024 + 12345, 3000000, 4 * 1024 * 1024]
CHUNKS = [1, 2, 7, 63, 100, 1000, 4096, 8192, 10000, 32768, 65535, 65536, 65537, 131072, 1000000]


def size(rng, big_ok):
    r = rng.random()
    if r < 0.45:
        return rng.choice(SMALL)
    if r < 0.55:
        return rng.randrange(0, CAP)
    if r < 0.93 or not big_ok:
        return rng.choice(ABOVE + [rng.randrange(CAP, 320000)])
    return rng.choice(BIG)


def chunk(rng, total, calls):
    """a chunk size that keeps the number of calls for `total` bytes <= calls"""
    lo = max(1, -(-total // calls))
    cands = [c for c in CHUNKS if c >= lo]
    c = rng.choice(cands + [lo, max(lo, total)])
    return max(1, min(c, 4194304))


def exit_of(rng):
    if rng.random() < 0.65:
        return 0, rng.choice([0, 0, 1, 2, 3, 42, 126, 127, 128, 137, 254, 255, rng.randrange(0, 256)])
    return 1, rng.choice(SIGNALS)


def scenario(rng, kind, thorough=False):
    """kind: 'out' (producer only), 'echo' (stdin -> cat -> stdout), 'big' (>= 2 MiB echo)"""
    if kind == "big":
        n_in = rng.choice(BIG) if thorough else BIG[0]
        n_out = rng.choice([0, 0, 1000, 70000])
        n_err = rng.choice([0, 0, 2000, 70000])
        rchunk = rng.choice([16384, 32768, 65536, 131072])
        # one write call for the whole payload, or calls above the pipe capacity
        wchunk = rng.choice([n_in, n_in, 1000000, 131072])
        order = rng.choice([1, 2, 2, 3])
        use_stdin = 1
    else:
        use_stdin = 1 if kind == "echo" else 0
        n_in = size(rng, False) if use_stdin else 0
        n_out = size(rng, False) if (not use_stdin or rng.random() < 0.5) else 0
        n_err = size(rng, False) if rng.random() < 0.6 else 0
        total = n_in + n_out + n_err
        calls = 300 if total > CAP else 1500
        rchunk = chunk(rng, total, calls)
        wchunk = chunk(rng, total, calls)
        order = rng.choice([0, 1, 2, 3])
        if use_stdin and rng.random() < 0.2:
            # the Child keeps its ChildStdin while wait / wait_with_output consumes it
            order, n_in = rng.choice([4, 5]), 0
    ek, ea = exit_of(rng)
    reuse = rng.choice([0, 1])
    delay = rng.choice([0, 0, 0, 40, 120])
    return [n_out, n_err, n_in, use_stdin, rchunk, wchunk, ek, ea, order, reuse, delay]


def generate(seed, n):
    rng = random.Random(seed)
    cases = []
    nsc = max(1, n // 2)
    thorough = n >= 100
    nbig = max(1, nsc // 30)
    for i in range(nsc):
        if i < nbig:
            kind = "big"
        else:
            kind = "echo" if rng.random() < 0.5 else "out"
        sc = scenario(rng, kind, thorough)
        for drv in (0, 1):
            cases.append([drv] + sc)
    # huge buffers: one call with 2^32, 2 * 2^32, 2^32 + k bytes, both directions, both drivers
    for _ in range(2 if not thorough else 8):
        m, k = rng.choice([(1, 0), (2, 0), (1, rng.choice([1, 5, 100, 4096])), (2, rng.choice([3, 777]))])
        n_out = rng.choice([1, 1000, 5000, 40000, CAP])
        for drv in (0, 1):
            cases.append([drv, 0, m, k, 0])
            cases.append([drv, 1, m, k, n_out])
    cases.append([0, 0, 3, 0, 0])                           # m out of range
    cases.append([1, 1, 1, 0, 0])                           # read of nothing
    # a few malformed lines: both sides must reject them alike
    cases.append([0, 1, 1, 5, 0, 1, 1, 0, 0, 0, 0, 0])      # n_in without stdin
    cases.append([1, 10, 10, 0, 0, 0, 1, 0, 0, 0, 0, 0])    # rchunk 0
    cases.append([0, 10, 10, 0, 0, 1, 1, 1, 11, 0, 0, 0])   # signal not in the list
    return cases


ORDERS = ["wait-first", "drain-first", "concurrent", "wait_with_output", "wait(stdin inside)",
          "wait_with_output(stdin inside)"]


def describe(case):
    if len(case) == 5:
        drv, d, m, k, n_out = case
        if drv > 1 or d > 1 or not 1 <= m <= 2:
            return "malformed"
        return "%s huge-buffer %s %s" % ("poll" if drv == 1 else "uring", "read" if d else "write",
                                         "m*2^32" if k == 0 else "m*2^32+k")
    if len(case) != 12 or case[9] > 5:
        return "malformed"
    drv, n_out, n_err, n_in, use_stdin, rchunk, wchunk, ek, ea, order, reuse, delay = case
    big = max(n_in, n_out, n_err)
    cls = "<=cap" if big <= CAP else ("<2M" if big < 2 * 1024 * 1024 else ">=2M")
    return "%s %s %s %s" % ("poll" if drv == 1 else "uring", "echo" if use_stdin else "prod", ORDERS[order], cls)


def nontrivial(case, out):
    if len(case) == 5:
        return len(out) == 6 and out[0] == 0 and out[1] > 0
    return len(out) == 12 and out[0] == 0 and (out[1] + out[5] > 0 or out[9] != 0 or out[10] != 0)
