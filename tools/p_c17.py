"""C17 — the blocking pool is bounded and loses nothing."""
import diffcheck
import gen_c17

EV = dict(CALL=1, RET_OK=2, RET_REJ=3, RET_REJ_WRONG=4, RES_OK=5, RES_FAIL=6, WSTART=7, JSTART=8, JEND=9, GDROP=10,
          WOKEN=11)


def parse(out):
    n = out[0]
    evs = [tuple(out[1 + 3 * i: 4 + 3 * i]) for i in range(n)]
    p = 1 + 3 * n
    nj = out[p]
    jobs = []
    for i in range(nj):
        owner, panics, runner, first, runs, status = out[p + 1 + 6 * i: p + 7 + 6 * i]
        jobs.append(dict(owner=owner, panics=panics, runner=runner, first=first, runs=runs, status=status))
    q = p + 1 + 6 * nj
    gauge, limit, hang, dropped, d, x0, x1, x2, x3 = out[q: q + 9]
    return evs, jobs, dict(gauge=gauge, limit=limit, hang=hang, dropped=dropped, d=d, x=[x0, x1, x2, x3])


def wellformed(out):
    if not out or out[0] == 99999 or (out[:1] == [2] and len(out) == 2):
        return False
    n = out[0]
    p = 1 + 3 * n
    if len(out) <= p:
        return False
    return len(out) == p + 1 + 6 * out[p] + 9


def oracle(case, out):
    if out[:1] == [99999]:
        return None
    if out[:1] == [2] and len(out) == 2:
        return "panic/abort/hang (code %d) in the harness run" % out[1]
    if not wellformed(out):
        return "malformed harness output"
    evs, jobs, t = parse(out)
    limit = t["limit"]
    if case[:1] == [5]:
        outcome, control, ran, recovered = t["x"]
        if t["hang"]:
            return "thread creation refused at pool growth: the scenario did not finish within the watchdog (180 s)"
        if outcome == 0 or control == 0:
            return None        # the child died of the memory limit itself / the limit did not refuse a thread: not judged
        if outcome == 4:
            return "thread creation refused at pool growth: dispatch handed back a different closure"
        if outcome == 3 and ran == 0:
            return ("thread creation refused at pool growth: dispatch / Proactor::push reported the job as accepted "
                    "(Ok / Pending) but it never ran and never completed (20 s): accepted and silently lost")
        if outcome in (1, 2) and ran != 0:
            return "thread creation refused at pool growth: dispatch reported failure (%d) but the job ran" % outcome
        if recovered == 0:
            return ("after a refused thread creation the pool no longer reaches its limit of %d concurrent jobs "
                    "(the reserved slot was not given back)" % limit)
        return None
    if case[:1] == [4] and t["x"][0]:
        return ("lost wake-up: a pool thread had sent the result of job %d and called the driver's waker at least "
                "1.5 s before, yet the driver slept through its whole 4 s poll timeout (%d timed-out poll(s), "
                "round %d)" % (t["x"][0] - 1, t["x"][1], t["x"][3]))
    if t["hang"]:
        stuck = [i for i, j in enumerate(jobs) if j["status"] == 0]
        return "hang: job(s) %s never completed or never reached the submitter within the watchdog" % stuck
    for i, j in enumerate(jobs):
        if j["runs"] != 1:
            return "job %d ran %d times (must run exactly once)" % (i, j["runs"])
        want = 2 if j["panics"] else 1
        if j["status"] != want:
            return ("job %d: submitter saw status %d, expected %d (1 = its result delivered once, "
                    "2 = its panic surfaced at the submitter)" % (i, j["status"], want))
    if t["gauge"] > limit:
        return "%d jobs ran at once in a pool limited to %d threads" % (t["gauge"], limit)
    starts, ends, alive = {}, {}, 0
    woken, sent_by = {}, {}
    for (k, a, b) in evs:
        # every result that was sent is followed by the wake of its submitter (same pool thread, next)
        if k == EV["JEND"]:
            if a in sent_by:
                return "pool thread %d finished job %d without having woken the submitter of job %d" % (a, b, sent_by[a])
            sent_by[a] = b
        elif k == EV["WOKEN"]:
            if sent_by.get(a) != b:
                return "wake for job %d on pool thread %d without a result sent before" % (b, a)
            del sent_by[a]
            woken[b] = woken.get(b, 0) + 1
        elif k in (EV["JSTART"], EV["GDROP"]) and a in sent_by:
            return "pool thread %d went on after sending the result of job %d without waking its submitter" % (a, sent_by[a])
        if k == EV["RET_REJ_WRONG"]:
            return "a rejected dispatch handed back a different closure than the one submitted (job %d)" % b
        if k == EV["JSTART"]:
            starts[b] = starts.get(b, 0) + 1
        elif k == EV["JEND"]:
            ends[b] = ends.get(b, 0) + 1
        elif k == EV["WSTART"]:
            alive += 1
            if alive > limit:
                return "%d pool threads alive in a pool limited to %d" % (alive, limit)
        elif k == EV["GDROP"]:
            alive -= 1
        if k in (EV["RES_OK"], EV["RES_FAIL"], EV["GDROP"]) and b > limit:
            return "pool counter %d above the limit %d" % (b, limit)
    if evs:
        for i in range(len(jobs)):
            if starts.get(i, 0) != 1 or ends.get(i, 0) != 1:
                return "job %d: %d start / %d end events in the history" % (i, starts.get(i, 0), ends.get(i, 0))
            if woken.get(i, 0) > 1:
                return "job %d: the submitter was woken %d times for one result" % (i, woken.get(i, 0))
    return None


class C17(diffcheck.DiffProp):
    pid = "C17"
    evidence_name = "C17_pool"
    corpus_name = "C17"
    prop_file = "prop/C17.v"
    model_name = "c17"
    harness_bin = "c17"
    package = "rt"
    gen = gen_c17
    shards = 8
    thorough_release = False
    uses_consts = False
    counts = {"quick": 220, "thorough": 4000}
    rule = ("direct AsyncifyPool::new(limit 1-4, idle timeout 0-50 ms) driven from 1-4 dispatcher threads in phases "
            "(gaps beyond the timeout let workers retire), forced window at sched_point(10) with 2-4 dispatchers, "
            "1-4 proactors (io_uring / polling) sharing one pool with panicking Asyncify ops, Runtime::spawn_blocking, "
            "k = 2-4 jobs returning at one common instant while the driver sleeps in poll(4 s), 150-300 rounds per case "
            "(300-600 thorough), thread creation refused by RLIMIT_AS exactly at pool growth (child process; direct "
            "dispatch with 0..L-1 busy workers, Proactor::push on both drivers); at least 12 cases of each class; "
            "non-trivial = a slot was reserved, a worker spawned and a job ran; distinct = distinct cases")
    trusted_base = [
        "Coq 8.16.1 kernel (coqc, full .vo build)",
        "extraction: ExtrOcamlBasic only; coq/extract/driver.ml; coq/model/RunC17.v decoder/acceptor",
        "hook commits in /repo: compio_driver::verif event log, sched_point(10), verif::section around the pool's "
        "counter operations (cfg(compio_verif), add-only) report faithfully",
        "harness/rt/src/bin/c17.rs (job/thread renumbering, compression of repeated rejections), tools/gen_c17.py, tools/p_c17.py oracle",
    ]
    assumptions = [
        "sequential consistency of the atomics and of flume's channel operations (no weak-memory reorderings)",
        "flume::bounded(0) is a rendezvous channel: try_send succeeds exactly against a receiver blocked in recv",
        "std::thread::spawn eventually runs the closure (and does not fail)",
        "a Dispatchable does not unwind out of run() (the drivers wrap operations in catch_unwind_io)",
    ]

    def model_input(self, case, out):
        if not wellformed(out):
            return [1, 1, 0, 0]
        evs, jobs, t = parse(out)
        l = [t["limit"], t["d"], len(jobs)]
        for j in jobs:
            l += [j["owner"], j["panics"], j["runner"], j["first"]]
        l.append(len(evs))
        for e in evs:
            l += list(e)
        return l

    def model_expected(self, case, out):
        if not wellformed(out):
            return [1, 0, 0, 1, 1, 0]
        evs, jobs, t = parse(out)
        n = len(jobs) if evs else 0      # no history recorded (dispatcher part, join overlapping): nothing to replay
        # the log is taken as soon as every result has arrived: the WOKEN event of the last job(s) may not
        # have been written yet on a loaded machine (the order send -> wake is judged by the oracle)
        return [1, n, n, 1, 1, sum(1 for e in evs if e[0] == EV["WOKEN"])]

    def oracle(self, case, out):
        return oracle(case, out)

    def known(self, case, out, what):
        return None


def oracle_disp(case, out):
    """dispatcher part: the gauge over ALL paths, once-only, delivery, join returns"""
    if out[:1] == [99999]:
        return None
    if out[:1] == [2] and len(out) == 2:
        return "panic/abort/hang (code %d) in the harness run" % out[1]
    if not wellformed(out):
        return "malformed harness output"
    evs, jobs, t = parse(out)
    limit, join, jm = t["limit"], t["x"][1], t["x"][2]
    if t["x"][0] == 2:
        return ("dispatch_blocking accepted a job although %d spawn_blocking jobs of the worker runtimes were running "
                "in a dispatcher built with thread_pool_limit(%d): it must hand the closure back (one shared pool)"
                % (limit, limit))
    if t["gauge"] > limit:
        return ("%d blocking jobs ran at once over the dispatcher's worker runtimes and dispatch_blocking although "
                "the dispatcher was built with thread_pool_limit(%d): the submitters do not share one pool"
                % (t["gauge"], limit))
    if join == 3:
        return "Dispatcher::join did not return within the watchdog (40 s)"
    for i, j in enumerate(jobs):
        if j["runs"] > 1:
            return "job %d ran %d times" % (i, j["runs"])
        if jm == 2:
            # join right after submitting: a queued task may be cancelled, but never half-delivered
            if j["status"] in (1, 2) and j["runs"] != 1:
                return "job %d reported a result without having run once (runs %d)" % (i, j["runs"])
            if j["status"] == 3:
                return "job %d: wrong value delivered to its submitter" % i
            continue
        if j["runs"] != 1:
            return "job %d ran %d times (must run exactly once)" % (i, j["runs"])
        want = 2 if j["panics"] else 1
        if j["status"] != want:
            return ("job %d: submitter saw status %d, expected %d (0 nothing within 40 s, 1 own result, 2 panic "
                    "surfaced, 3 wrong value, 4 cancelled)" % (i, j["status"], want))
    if join != 1:
        return "Dispatcher::join returned an error / re-raised a panic (%d)" % join
    if evs:
        return oracle([0], out)       # the replayed pool history: same independent checks as the pool part
    return None


class C17D(C17):
    """dispatcher part: worker runtimes (spawn_blocking) + dispatch_blocking + join on one pool"""
    evidence_name = "C17_disp"
    corpus_name = "C17_disp"
    harness_bin = "c17d"
    package = "ext"
    gen = gen_c17.D
    shards = 6
    counts = {"quick": 120, "thorough": 1500}
    rule = ("compio_dispatcher::Dispatcher built with thread_pool_limit(1-4) only (no explicit reuse_thread_pool), "
            "1-4 worker runtimes (concurrent / sequential) running spawn_blocking jobs (20% panicking) while 1-2 "
            "threads call dispatch_blocking, join after all results / while dispatch_blocking jobs run / right "
            "after submitting; saturation probe (25%: L spawn_blocking jobs held in the pool, then every "
            "dispatch_blocking submitter's first call must be handed back); a global gauge inside the jobs; join-after-results histories are replayed through the "
            "pool LTS; non-trivial = at least two jobs")

    def oracle(self, case, out):
        return oracle_disp(case, out)


MANIFEST = dict(
    text="Coq proof over an interleaving labelled transition system of AsyncifyPool (rendezvous channel, counter, "
         "dispatcher and worker program counters, retry loop of push_blocking, the worker's send-result-then-wake "
         "pair; every atomic operation one label), for all limits >= 1, any number of dispatcher threads / runtimes "
         "sharing the pool and of jobs, ALL interleavings: pool threads alive and jobs running never exceed the "
         "limit of the pool object; every job is held by exactly one thread or consumed by its single run, its result "
         "or caught panic goes to its own submitter once; every result placed in a completed channel is followed by "
         "an unconditional wake of that submitter's driver and no wake precedes its result; a rejected dispatch hands "
         "the same closure back and the retry loop re-submits it; from every reachable state every unfinished job "
         "can still complete (no stuck state); after all workers retired a later dispatch spawns a new worker and "
         "the job runs. The pre-fix protocol is kept as a second transition function with witness interleavings "
         "refuting the bound (2 dispatchers, limit 1; also 1 dispatcher, limit 2) and showing the hand-over deadlock. "
         "Tied to the code by replaying hook-recorded histories of the real pool (1-4 dispatcher threads, proactors "
         "sharing a pool, Runtime::spawn_blocking, forced window at sched_point(10), a Dispatcher's worker runtimes "
         "plus dispatch_blocking) through the extracted LTS, plus oracles: each job ran once, a gauge inside the jobs "
         "<= limit over all submission paths of one dispatcher, results reach their submitters, k jobs finishing "
         "together all wake a driver sleeping in poll, join returns, nothing hangs.",
    note="Three defects found and fixed in /repo (34b5952 limit exceeded by concurrent dispatchers; fa61bdf dispatch() "
         "blocked for ever when the fresh worker timed out before the blocking send; 7d8e067 Dispatcher::join "
         "deadlocked with limit 1 because its thread-joining closure occupied the only pool slot). Modelled: "
         "sequentially consistent interleavings only (no weak memory); fetch_update is one label; the bound is a "
         "theorem about ONE pool object (C17_bound_is_per_pool) - that all submitters of a dispatcher share one is "
         "checked on the real Dispatcher by the gauge, not proved; a Dispatchable that unwinds out of run() and "
         "thread::spawn failure are left out; what the driver does with a wake (AwakeFlag, eventfd) is C03's model, "
         "here only 'every send is followed by a wake'; never_stuck is possibility (exists a continuation), not a "
         "fairness-based liveness theorem. Watchdogs are 40 s / 90 s; the lost-wake-up verdict needs a poll that "
         "timed out (4 s) although the wake had been issued >= 1.5 s earlier on a ticker recorded in the same log. "
         "Trusted: Coq kernel, extraction + driver, cfg(compio_verif) hook commits (counter events recorded atomically "
         "via verif::section, BLOCKING_WOKEN), harness/rt/src/bin/c17.rs and harness/ext/src/bin/c17d.rs event "
         "renumbering and rejection compression. No axioms.",
    technique="Coq invariant proof over an interleaving LTS + acceptance of recorded histories by the extracted LTS")


class C17All:
    """C17 = pool part (harness rt/c17) + dispatcher part (harness ext/c17d); one evidence file"""
    pid = "C17"
    manifest = MANIFEST
    prop_file = "prop/C17.v"
    model_name = "c17"
    harness_bin = "c17"
    package = "rt"
    model_names = ["c17"]
    harness_bins = [("c17", "rt"), ("c17d", "ext")]

    def __init__(self):
        self.parts = [C17(), C17D()]
        self.gen = self.parts[0].gen

    def oracle(self, case, out):
        return self.parts[0].oracle(case, out)

    def run(self, tier, seed, replay=None):
        return diffcheck.run_multi("C17", self.parts, tier, seed, replay)


PROP = C17All()
