"""C17 — the blocking pool is bounded and loses nothing."""
import diffcheck
import gen_c17

EV = dict(CALL=1, RET_OK=2, RET_REJ=3, RET_REJ_WRONG=4, RES_OK=5, RES_FAIL=6, WSTART=7, JSTART=8, JEND=9, GDROP=10)


def parse(out):
    n = out[0]
    evs = [tuple(out[1 + 3 * i: 4 + 3 * i]) for i in range(n)]
    p = 1 + 3 * n
    nj = out[p]
    jobs = []
    for i in range(nj):
        owner, panics, runner, first, runs, status = out[p + 1 + 6 * i: p + 7 + 6 * i]
        jobs.append(dict(owner=owner, panics=panics, runner=runner, first=first, runs=runs, status=status))
    q = p + 1 + 6 * nj
    gauge, limit, hang, dropped, d = out[q: q + 5]
    return evs, jobs, dict(gauge=gauge, limit=limit, hang=hang, dropped=dropped, d=d)


def wellformed(out):
    if not out or out[0] == 99999 or (out[:1] == [2] and len(out) == 2):
        return False
    n = out[0]
    p = 1 + 3 * n
    if len(out) <= p:
        return False
    return len(out) == p + 1 + 6 * out[p] + 5


def oracle(case, out):
    if out[:1] == [99999]:
        return None
    if out[:1] == [2] and len(out) == 2:
        return "panic/abort/hang (code %d) in the harness run" % out[1]
    if not wellformed(out):
        return "malformed harness output"
    evs, jobs, t = parse(out)
    limit = t["limit"]
    if t["hang"]:
        stuck = [i for i, j in enumerate(jobs) if j["status"] == 0]
        return "hang: job(s) %s never completed or never reached the submitter within the watchdog" % stuck
    for i, j in enumerate(jobs):
        if j["runs"] != 1:
            return "job %d ran %d times (must run exactly once)" % (i, j["runs"])
        want = 2 if j["panics"] else 1
        if j["status"] != want:
            return ("job %d: submitter saw status %d, expected %d (1 = its result delivered once, "
                    "2 = its panic surfaced at the submitter)" % (i, j["status"], want))
    if t["gauge"] > limit:
        return "%d jobs ran at once in a pool limited to %d threads" % (t["gauge"], limit)
    starts, ends, alive = {}, {}, 0
    for (k, a, b) in evs:
        if k == EV["RET_REJ_WRONG"]:
            return "a rejected dispatch handed back a different closure than the one submitted (job %d)" % b
        if k == EV["JSTART"]:
            starts[b] = starts.get(b, 0) + 1
        elif k == EV["JEND"]:
            ends[b] = ends.get(b, 0) + 1
        elif k == EV["WSTART"]:
            alive += 1
            if alive > limit:
                return "%d pool threads alive in a pool limited to %d" % (alive, limit)
        elif k == EV["GDROP"]:
            alive -= 1
        if k in (EV["RES_OK"], EV["RES_FAIL"], EV["GDROP"]) and b > limit:
            return "pool counter %d above the limit %d" % (b, limit)
    for i in range(len(jobs)):
        if starts.get(i, 0) != 1 or ends.get(i, 0) != 1:
            return "job %d: %d start / %d end events in the history" % (i, starts.get(i, 0), ends.get(i, 0))
    return None


class C17(diffcheck.DiffProp):
    pid = "C17"
    manifest = dict(
        text="Coq proof over an interleaving labelled transition system of AsyncifyPool (rendezvous channel, counter, dispatcher and worker program counters, retry loop of push_blocking; every atomic operation one label), for all limits >= 1, any number of dispatcher threads / runtimes sharing the pool and of jobs, ALL interleavings: pool threads alive and jobs running never exceed the limit; every job is held by exactly one thread or consumed by its single run, its result or caught panic goes to its own submitter once; a rejected dispatch hands the same closure back and the retry loop re-submits it; from every reachable state every unfinished job can still complete (no stuck state); after all workers retired a later dispatch spawns a new worker and the job runs. The pre-fix protocol is kept as a second transition function with witness interleavings refuting the bound (2 dispatchers, limit 1; also 1 dispatcher, limit 2) and showing the hand-over deadlock. Tied to the code by replaying hook-recorded histories of the real pool (1-4 dispatcher threads, proactors sharing a pool, Runtime::spawn_blocking, forced window at sched_point(10)) through the extracted LTS, plus an oracle (each job ran once, gauge <= limit, nothing hangs).",
        note="Two defects found and fixed in /repo (34b5952 limit exceeded by concurrent dispatchers; fa61bdf dispatch() blocked for ever when the fresh worker timed out before the blocking send). Modelled: sequentially consistent interleavings only (no weak memory); fetch_update is one label; a Dispatchable that unwinds out of run() (never produced by the drivers, which wrap the operation in catch_unwind_io) and thread::spawn failure are left out; completion delivery is an append-only log (the driver's reaping and waker are C02/C03). never_stuck is possibility (exists a continuation), not a fairness-based liveness theorem. Trusted: Coq kernel, extraction + driver, cfg(compio_verif) hook commits (counter events recorded atomically via verif::section), harness/rt/src/bin/c17.rs event renumbering and rejection compression. No axioms.",
        technique="Coq invariant proof over an interleaving LTS + acceptance of recorded histories by the extracted LTS")
    prop_file = "prop/C17.v"
    model_name = "c17"
    harness_bin = "c17"
    package = "rt"
    gen = gen_c17
    shards = 8
    thorough_release = False
    uses_consts = False
    counts = {"quick": 220, "thorough": 4000}
    rule = ("direct AsyncifyPool::new(limit 1-4, idle timeout 0-50 ms) driven from 1-4 dispatcher threads in phases "
            "(gaps beyond the timeout let workers retire), forced window at sched_point(10) with 2-4 dispatchers, "
            "1-4 proactors (io_uring / polling) sharing one pool with panicking Asyncify ops, Runtime::spawn_blocking; "
            "non-trivial = a slot was reserved, a worker spawned and a job ran; distinct = distinct cases")
    trusted_base = [
        "Coq 8.16.1 kernel (coqc, full .vo build)",
        "extraction: ExtrOcamlBasic only; coq/extract/driver.ml; coq/model/RunC17.v decoder/acceptor",
        "hook commits in /repo: compio_driver::verif event log, sched_point(10), verif::section around the pool's "
        "counter operations (cfg(compio_verif), add-only) report faithfully",
        "harness/rt/src/bin/c17.rs (job/thread renumbering, compression of repeated rejections), tools/gen_c17.py, tools/p_c17.py oracle",
    ]
    assumptions = [
        "sequential consistency of the atomics and of flume's channel operations (no weak-memory reorderings)",
        "flume::bounded(0) is a rendezvous channel: try_send succeeds exactly against a receiver blocked in recv",
        "std::thread::spawn eventually runs the closure (and does not fail)",
        "a Dispatchable does not unwind out of run() (the drivers wrap operations in catch_unwind_io)",
    ]

    def model_input(self, case, out):
        if not wellformed(out):
            return [1, 1, 0, 0]
        evs, jobs, t = parse(out)
        l = [t["limit"], t["d"], len(jobs)]
        for j in jobs:
            l += [j["owner"], j["panics"], j["runner"], j["first"]]
        l.append(len(evs))
        for e in evs:
            l += list(e)
        return l

    def model_expected(self, case, out):
        if not wellformed(out):
            return [1, 0, 0, 1, 1]
        evs, jobs, t = parse(out)
        return [1, len(jobs), len(jobs), 1, 1]

    def oracle(self, case, out):
        return oracle(case, out)

    def known(self, case, out, what):
        return None


PROP = C17()
