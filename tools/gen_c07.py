"""Program generator for C07 (managed buffer pool).
case = [drv(0 uring, 1 poll); pool size; buffer len; n_steps; (op a b)*]; see
harness/rt/src/bin/c07.rs for the step codes."""
import random

RES = {0: "file", 1: "pipe", 2: "tcp", 3: "udp", 4: "unix"}
OPS = {1: "read", 2: "multi", 3: "arrive", 4: "poll", 5: "drive", 6: "dropslot", 7: "drophandle",
       8: "check", 9: "closepeer", 10: "droprt", 11: "recvfrom", 12: "multifrom", 13: "wrap", 14: "multimsg", 15: "await", 17: "multiat", 18: "eofread"}


def next_pow2(n):
    p = 1
    while p < n:
        p *= 2
    return p


def gen_program(rng, adversarial=False):
    drv = rng.choice([0, 0, 0, 1, 1])
    size = rng.choice([1, 1, 2, 2, 3, 4, 4, 5, 7, 8, 8, 11, 16])
    if adversarial:
        size = rng.choice([1, 1, 2, 2, 3])
    buflen = rng.choice([1, 2, 3, 4, 8, 8, 16, 32, 64])
    want_from = rng.random() < 0.12
    if want_from:
        buflen = rng.choice([192, 256])
        if rng.random() < 0.3:
            size = rng.choice([1, 2, 3])
    steps = []
    nslots = 0
    est_handles = 0
    used = set()
    n = rng.randrange(4, 26)
    multi_heavy = rng.random() < 0.5
    for _ in range(n):
        r = rng.random()
        if nslots == 0 or r < 0.22:
            # a new read
            k = rng.random()
            res = rng.choice([0, 1, 1, 2, 2, 3, 4, 4])
            ln = rng.choice([0, 0, 0, 1, 3, buflen, buflen + 5])
            if want_from and k < 0.5:
                kind = rng.choice([11, 12, 12, 14, 14])
                steps.append((kind, 3, rng.choice([0, 16, 24]) if kind == 14 else (ln if rng.random() < 0.5 else 0)))
                res = 3
            elif (k < 0.55 if multi_heavy else k < 0.2) and res != 0:
                # multishot read; pipes accept only len 0 on io_uring (EINVAL otherwise)
                steps.append((2, res, 0 if (res == 1 and rng.random() < 0.9) else rng.choice([0, 0, ln])))
            else:
                steps.append((1, res, ln))
            used.add(res)
            nslots += 1
            if rng.random() < 0.6:
                steps.append((4, nslots - 1, 0))
        elif r < 0.42:
            res = rng.choice(sorted(used)) if used and rng.random() < 0.85 else rng.choice([1, 2, 3, 4])
            if res == 0:
                res = rng.choice([1, 2, 3, 4])
            steps.append((3, res, rng.choice([1, 1, 2, 3, buflen, buflen + 1, 2 * buflen + 3])))
            est_handles += 0
        elif r < 0.62:
            steps.append((4, rng.randrange(nslots), 0))
            est_handles += 1
        elif r < 0.68:
            # the consumer awaits next() (poll / drive rounds under a budget)
            steps.append((15, rng.randrange(nslots), rng.choice([0, 0, 1])))
            est_handles += 1
        elif r < 0.74:
            steps.append((5, rng.choice([0, 0, 1]), 0))
        elif r < 0.82:
            steps.append((6, rng.randrange(nslots), 0))
        elif r < 0.93:
            steps.append((7, rng.randrange(max(1, est_handles)), 0))
        elif r < 0.97:
            steps.append((8, 0, 0))
        elif r < 0.985:
            steps.append((9, rng.choice([1, 2, 3, 4]), 0))
        else:
            steps.append((10, rng.choice([0, 1]), 0))
            break
    case = [drv, size, buflen, len(steps)]
    for (o, a, b) in steps:
        case += [o, a, b]
    return case


def gen_exhaust(rng):
    """more outstanding buffers than the pool has: data for many reads, all results held"""
    drv = rng.choice([0, 1])
    size = rng.choice([1, 2, 3, 4, 8])
    buflen = rng.choice([1, 2, 4, 8])
    res = rng.choice([1, 2, 3, 4])
    steps = []
    n = next_pow2(size) + rng.randrange(1, 4)
    if rng.random() < 0.5:
        steps.append((2, res, 0))
        for _ in range(n):
            steps.append((3, res, buflen))
        for _ in range(n + 1):
            steps.append((4, 0, 0))
    else:
        for i in range(n):
            steps.append((3, res, buflen))
        for i in range(n):
            steps.append((1, res, 0))
            steps.append((4, i, 0))
            steps.append((5, 0, 0))
            steps.append((4, i, 0))
    steps.append((8, 0, 0))
    for h in range(rng.randrange(0, n)):
        steps.append((7, rng.randrange(n), 0))
    case = [drv, size, buflen, len(steps)]
    for (o, a, b) in steps:
        case += [o, a, b]
    return case


def gen_stream_exhaust(rng):
    """the consumer of ONE runtime-level multishot stream holds every pool buffer and keeps awaiting next()
    while more data is waiting: the exhaustion error must come out of the stream; after releasing some
    buffers the stream (or a new one) must deliver again"""
    drv = rng.choice([0, 0, 1])
    size = rng.choice([1, 1, 2, 2, 3, 4])
    buflen = rng.choice([1, 2, 4, 8])
    res = rng.choice([1, 2, 2, 3, 4, 4])
    n = next_pow2(size)
    steps = [(2, res, 0)]
    if rng.random() < 0.7:
        steps.append((4, 0, 0))
    extra = rng.randrange(2, 5)
    early = rng.randrange(0, n + extra + 1)     # arrivals before the consumer starts taking
    for _ in range(early):
        steps.append((3, res, buflen))
    left = n + extra - early
    for i in range(n):
        if left > 0 and rng.random() < 0.5:
            steps.append((3, res, buflen))
            left -= 1
        steps.append((15, 0, 0))                # takes buffer i (or waits in vain when nothing was sent yet)
    for _ in range(left):
        steps.append((3, res, buflen))
    # every buffer is held, data is waiting: exhaustion must be reported, again and again
    for _ in range(rng.randrange(1, 4)):
        steps.append((15, 0, 0))
        if rng.random() < 0.3:
            steps.append((3, res, buflen))
    steps.append((8, 0, 0))
    # release some, continue on the same stream or on a new one
    k = rng.randrange(1, n + 1)
    for h in rng.sample(range(n), k):
        steps.append((7, h, 0))
    slot = 0
    if rng.random() < 0.3:
        steps.append((6, 0, 0))
        steps.append((2, res, 0))
        slot = 1
    for _ in range(rng.randrange(1, k + 2)):
        steps.append((15, slot, 1))
    if rng.random() < 0.5:
        steps.append((8, 0, 0))
    case = [drv, size, buflen, len(steps)]
    for (o, a, b) in steps:
        case += [o, a, b]
    return case


def gen_failing_reads(rng):
    """managed reads that fail after the kernel consumed a ring buffer (io_uring: the completion carries the
    error AND the buffer id; fallback pool: the operation popped its buffer at creation): at least pool-size + 1
    of them, interleaved with good reads, EOF reads, cancels and held handles; then, with no handle alive, a
    good read must still get a buffer"""
    drv = rng.choice([0, 0, 1])
    size = rng.choice([1, 1, 2, 2, 3, 4])
    buflen = rng.choice([2, 4, 8, 16])
    n = next_pow2(size)
    steps = []
    nslots = 0
    handles = 0      # upper bound of handle indices handed out so far
    fails = 0

    def bad():
        k = rng.random()
        if k < 0.45:
            return (1, rng.choice([6, 7, 8]), rng.choice([0, 0, 1, buflen]))      # ReadManagedAt
        if k < 0.75:
            return (1, rng.choice([9, 10]), rng.choice([0, 0, 3]))                 # ReadManaged
        if k < 0.88:
            return (2, rng.choice([9, 10]), 0)                                     # ReadMulti
        return (17, rng.choice([0, 6, 7]), 0)                                      # ReadMultiAt

    while fails < n + rng.randrange(1, 2 * n + 3):
        r = rng.random()
        if r < 0.6:
            steps.append(bad())
            s = nslots
            nslots += 1
            fails += 1
            if rng.random() < 0.15:
                steps.append((4, s, 0))
                steps.append((6, s, 0))                    # cancelled after submission
            elif rng.random() < 0.1:
                steps.append((6, s, 0))                    # dropped before the first poll
            else:
                steps.append((15, s, 0))
        elif r < 0.8:
            steps.append((rng.choice([1, 1, 18]), 0, rng.choice([0, 1, buflen])))   # a good read / a read at EOF
            s = nslots
            nslots += 1
            steps.append((15, s, 0))
            handles += 1
        elif r < 0.9 and handles:
            steps.append((7, rng.randrange(handles), 0))
        elif r < 0.95:
            steps.append((5, 0, 0))
        else:
            steps.append((8, 0, 0))
    # every handle goes; a good read must succeed now
    for h in range(handles):
        steps.append((7, h, 0))
    steps.append((1, 0, 0))
    steps.append((15, nslots, 0))
    steps.append((8, 0, 0))
    case = [drv, size, buflen, len(steps)]
    for (o, a, b) in steps:
        case += [o, a, b]
    return case


def generate(seed, n):
    rng = random.Random(seed * 7919 + 7)
    out = []
    for i in range(n):
        k = rng.random()
        if k < 0.10:
            out.append(gen_exhaust(rng))
        elif k < 0.22:
            out.append(gen_stream_exhaust(rng))
        elif k < 0.32:
            out.append(gen_failing_reads(rng))
        elif k < 0.3:
            out.append(gen_program(rng, adversarial=True))
        else:
            out.append(gen_program(rng))
    return out


def describe(case):
    ops = case[4::3]
    kind = "multi" if (2 in ops or 12 in ops or 14 in ops) else "single"
    if (2 in ops or 12 in ops or 14 in ops) and (1 in ops or 11 in ops):
        kind = "mixed"
    res = case[5::3]
    if any(o in (1, 2, 17) and a >= 6 for o, a in zip(ops, res)) or 17 in ops:
        kind = "failing"
    tail = "wrap" if 13 in ops else "droprt" if 10 in ops else "await" if 15 in ops else \
        "cancel" if 6 in ops else "plain"
    return ("uring" if case[0] == 0 else "poll") + "/" + kind + "/" + tail


def nontrivial(case, out):
    if not out or out[0] == 99999 or (out[:1] == [2] and len(out) == 2):
        return False
    n = out[0]
    kinds = out[1:1 + 3 * n:3]
    return 101 in kinds and (42 in kinds or 43 in kinds)
