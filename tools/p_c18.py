"""C18 — the dispatcher starts every accepted task exactly once."""
import diffcheck
import gen_c18


def parse(case, out):
    n = out[0]
    if len(out) < 2 + 3 * n:
        return None
    evs = [tuple(out[1 + 3 * i:4 + 3 * i]) for i in range(n)]
    p = 1 + 3 * n
    total = out[p]
    p += 1
    if len(out) != p + 3 * total + 1 + case[1]:
        return None
    tasks = [tuple(out[p + 3 * i:p + 3 * i + 3]) for i in range(total)]
    p += 3 * total
    return evs, tasks, out[p], out[p + 1:]


def kinds_of(case):
    ks = []
    p = 6
    for _ in range(case[5]):
        n = case[p]
        p += 1
        for _ in range(n):
            ks.append(case[p])
            p += 2
    return ks


def replayable(case):
    # the dispatch calls are serialised and logged in channel order, before the worker can log the start
    return case[0] == 1


def oracle(case, out):
    parsed = parse(case, out)
    if parsed is None:
        return "malformed harness output"
    evs, tasks, join, gauges = parsed
    conc, broken, join_mode = case[2], case[3], case[4]
    kinds = kinds_of(case)
    accepted = {a for (k, a, b) in evs if k == 1 and b == 1}
    refused = {a for (k, a, b) in evs if k == 1 and b == 0}
    if refused and not broken:
        return "dispatch handed closure(s) %s back although workers were alive" % sorted(refused)
    ret = [i for i, e in enumerate(evs) if e[0] == 5]
    ended = {}
    started = {}
    for i, (k, a, b) in enumerate(evs):
        if k == 2:
            if a in started:
                return "closure %d was called twice (workers %d and %d)" % (a, started[a][1], b)
            if a not in accepted:
                return "closure %d ran although dispatch handed it back" % a
            started[a] = (i, b)
        if k == 3:
            ended[a] = (i, b)
        if k in (2, 3) and ret and i > ret[0]:
            return "closure %d was still running on a worker after join had returned" % a
    for h, (outcome, starts, seen) in enumerate(tasks):
        if starts > 1:
            return "closure %d was started %d times" % (h, starts)
        if seen > 1:
            return "closure %d ran on %d different worker runtimes" % (h, seen)
        if h in accepted:
            if outcome == 3:
                if join_mode == 1 and not broken:
                    return ("closure %d was stranded: its receiver had neither a result nor Canceled while "
                            "the dispatcher was alive and nothing else woke the worker (%d closures accepted)"
                            % (h, len(accepted)))
                return "receiver of closure %d got neither a result nor Canceled (join %s)" % (
                    h, "had returned" if join in (1, 2) else "did not return")
            if outcome == 4:
                return "receiver of closure %d got another closure's result" % h
            done = h in ended and ended[h][1] == 1
            if done and outcome != 1:
                return "closure %d ran to completion but its receiver reports Canceled" % h
            if outcome == 1 and not done:
                return "receiver of closure %d has a result although the closure did not complete" % h
            if join == 1 and not broken and starts != 1:
                return "join returned Ok but accepted closure %d was started %d times" % (h, starts)
        elif outcome != 0:
            return "closure %d was handed back and its receiver still reports %d" % (h, outcome)
    if join == 4:
        return "join did not return within the watchdog"
    if join == 3:
        return "join returned an error"
    if join == 2 and not broken:
        return ("join re-raised a panic although no worker's driver was broken: a closure's panic — inside its future "
                "or synchronously before it returned one — must stay in its task")
    if not conc:
        if any(g > 1 for g in gauges):
            return "sequential mode: a worker ran %d closures at the same time" % max(gauges)
        if join == 1:
            for h in accepted:
                if h not in ended:
                    return "sequential mode: join returned Ok before accepted closure %d had finished" % h
    if join_mode == 1 and not broken:
        for h in accepted:
            want = 2 if kinds[h] in (3, 6) else 1
            if tasks[h][0] != want:
                return "closure %d (kind %d): receiver reports %d, expected %d" % (h, kinds[h], tasks[h][0], want)
    return None


class C18(diffcheck.DiffProp):
    pid = "C18"
    manifest = dict(
        text="Coq proof over a labelled transition system of compio-dispatcher (unbounded MPMC channel of spawnables, W workers with program counters boot/recv/spawn/await/leaving/dead, tasks with the state of their oneshot receiver, join = drop sender, drain, leave block_on, runtime drop cancels, thread join, panic propagation), for every W, both modes, any number of dispatching threads (a dispatch is one atomic send) and every interleaving: an invariant (13 clauses) preserved by every label gives: each accepted closure is received <= 1, spawned <= 1, called <= 1 times and polled only by the runtime it was spawned on, exactly once each when join has returned and a worker survived; once join has returned every receiver holds the result or Canceled; in sequential mode a runtime never has two unfinished tasks and, when join returns Ok, every accepted closure ran to its end; join returns only when every worker thread has ended and re-raises a worker's panic. Tied to the code by replaying recorded runs of the real Dispatcher through the extracted LTS (the invisible worker-loop steps are inserted at the latest moment, each an LTS step) and comparing receiver states and join result, plus an oracle on counters, overlap gauges, receiver outcomes and event order.",
        note="flume is an assumed linearizable FIFO; a task's panic is caught by the executor (assumed from compio-executor; exercised by the harness); worker panics are produced with a proactor that cannot poll. Replayed runs serialise the dispatch calls of the D threads (channel order must be known to replay); runs in which the threads dispatch truly at the same time are judged by the oracle only. Not modelled: thread affinity, names, stack size, dispatch_blocking, weak memory; the last tick of block_on is modelled as unbounded (the real one runs at most 61 tasks: a just-spawned task may be cancelled unstarted when more are pending; both are runs of the model). Trusted: Coq kernel, extraction + driver, harness/ext/src/bin/c18.rs, tools/p_c18.py. No axioms.",
        technique="Coq invariant proof over an LTS + replay of recorded runs by the extracted LTS + oracle")
    prop_file = "prop/C18.v"
    model_name = "c18"
    harness_bin = "c18"
    package = "ext"
    gen = gen_c18
    shards = 8
    thorough_release = False
    counts = {"quick": 600, "thorough": 10000}
    rule = ("worker counts 1..4 x concurrent/sequential x 1..4 dispatching threads x 0..4 closures each "
            "(returns at once / yields 1..5 times / sleeps 1..3 ms / panics in its future / panics synchronously before returning a future / "
            "UDP round trip / sleeps 40 ms / blocks the worker thread) x join "
            "immediately / after all receivers / after 3 ms x (8 %) workers whose driver cannot poll; 70 % replayed through the model, "
            "30 % free-running dispatch; 7 % programs around synchronously panicking closures (1..4 workers), 4 % bursts of 62..240 closures "
            "picked up by one worker in one poll (worker blocked meanwhile) with the receivers awaited before join; non-trivial = some closure was called; distinct = distinct cases")
    trusted_base = [
        "Coq 8.16.1 kernel (coqc, full .vo build)",
        "extraction: ExtrOcamlBasic only; coq/extract/driver.ml; coq/model/RunC18.v (replay with lazily inserted worker-loop steps)",
        "harness/ext/src/bin/c18.rs (instrumented closures, event log), tools/gen_c18.py, tools/p_c18.py (owner annotation, oracle)",
    ]
    assumptions = [
        "flume::unbounded is a linearizable FIFO; recv fails only when it is empty and every sender is gone",
        "futures oneshot: a dropped sender resolves the receiver with Canceled",
        "a panic inside a task is caught by the task (compio-executor), a panic of the driver poll unwinds block_on",
        "std::thread::spawn eventually runs the closure; JoinHandle::join returns the thread's panic",
    ]

    def model_input(self, case, out):
        if not replayable(case) or not out or out[0] == 99999 or (out[:1] == [2] and len(out) == 2):
            return [0]
        parsed = parse(case, out)
        if parsed is None:
            return [0]
        evs = parsed[0]
        owner = {a: b for (k, a, b) in evs if k == 2}
        res = [case[1], case[2], case[3]]
        for (k, a, b) in evs:
            if k == 1:
                res += [1, a, b + 10 * (owner[a] + 1 if a in owner else 0)]
            else:
                res += [k, a, b]
        return res

    def model_expected(self, case, out):
        if not replayable(case) or not out or out[0] == 99999 or (out[:1] == [2] and len(out) == 2):
            return [99999]
        parsed = parse(case, out)
        if parsed is None:
            return [99999]
        evs, tasks, join, _ = parsed
        acc = [a for (k, a, b) in evs if k == 1 and b == 1]
        return [1, len(evs), len(acc)] + [tasks[h][0] for h in acc] + [join if join in (1, 2) else 0]

    def oracle(self, case, out):
        if out[:1] == [99999]:
            return None
        if out[:1] == [2] and len(out) == 2:
            return "hang or panic (code %d) in the dispatcher program" % out[1]
        return oracle(case, out)

    def known(self, case, out, what):
        return None


PROP = C18()
