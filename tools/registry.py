"""the properties that have a check, in build order"""
PROPS = ["C11", "C13", "C10", "C12", "C09", "C01", "C02", "C03", "C04", "C05", "C06", "C07", "C08", "C14", "C15", "C16", "C17", "C18", "C19", "C20"]
NOT_APPLICABLE = []
NOTES = "All 20 properties have a check; none is listed as not applicable. See DESIGN.md (section 10: as built)."
