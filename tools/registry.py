"""the properties that have a check, in build order"""
PROPS = ["C11"]
