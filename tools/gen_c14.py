"""Case generator for C14 (socket transports).  Formats (harness/rt/src/bin/c14.rs,
coq/model/RunC14.v):

 stream : 1 drv tr split sbuf rbuf plen psize seed nA (k a b)* nB (k a b)* nC (k a b)* nD (k a b)*
          dir 1: endpoint X sends program A, endpoint Y receives with program B;
          dir 2: Y sends C, X receives D (all four tasks run concurrently)
          send ops   1 write(len a, extra capacity b%1024) 2 write_vectored(total a, members b%1024)
                     6 write_with_ancillary 7 write_vectored_with_ancillary (empty control)
                     3 write_zerocopy 4 write_zerocopy_vectored (b >= 1024: buffer awaited one yield later)
                     5 sleep(a ms; 0 = yield)
          recv ops   1 read(cap a, initial len b) 2 read_vectored(total cap a, members b)
                     3 read_managed(len a) 4 read_multi(len a, take b items; 0 = until end) 5 sleep
                     6 read_with_ancillary 7 read_managed_with_ancillary 8 read_multi_with_ancillary(64; take b)
 dgram  : 2 drv tr plen psize seed nsend window mkind mcount n (skind size sender rkind cap len flags)*
 accept : 3 drv tr k mode j
 bulk   : 4 drv tr split sbuf rbuf seed who delay pace rcap nops (kind total chunk)*
          back-pressure: X writes several MiB (far above the socket buffers), Y only reads and never
          sends; who = 0: the reader starts `delay` ms late, 1: the writer does; the reader sleeps 1 ms
          every `pace` reads; kinds 1 write loop (chunk bytes per call) 2 write_vectored loop 3 write_all
          4 write_vectored_all 5 write_zerocopy loop 6 write_zerocopy_vectored loop
"""
import random

DRV = {0: "iour", 1: "poll"}


def _size(rng, big_ok=True):
    r = rng.random()
    if r < 0.08:
        return 0
    if r < 0.55:
        return rng.randrange(1, 300)
    if r < 0.85:
        return rng.randrange(300, 9000)
    if big_ok and r < 0.93:
        return rng.randrange(20000, 60000)
    return rng.randrange(1, 64)


def _send_prog(rng, tr, drv, budget):
    ops = []
    n = rng.randrange(1, 9)
    total = 0
    for _ in range(n):
        r = rng.random()
        if r < 0.18:
            ops.append((5, rng.choice([0, 0, 1, 2]), 0))
            continue
        a = _size(rng, budget > 20000)
        if total + a > budget:
            a = rng.randrange(0, 200)
        total += a
        defer = 1024 if rng.random() < 0.3 else 0
        if r < 0.44:
            ops.append((1, a, rng.choice([0, 0, 1, 5, 64])))
        elif r < 0.50:
            ops.append((6, a, rng.choice([0, 3, 64])))
        elif r < 0.64:
            ops.append((2, a, rng.randrange(1, 6)))
        elif r < 0.70:
            ops.append((7, a, rng.randrange(1, 6)))
        elif r < 0.87:
            ops.append((3, a, rng.choice([0, 3, 17]) + defer))
        else:
            ops.append((4, a, rng.randrange(1, 5) + defer))
    return ops


def _recv_prog(rng, plen, early_drop):
    ops = []
    n = rng.randrange(1, 9)
    for _ in range(n):
        r = rng.random()
        if r < 0.18:
            ops.append((5, rng.choice([0, 0, 1, 2]), 0))
        elif r < 0.48:
            cap = rng.choice([0, 1, 2, 3, 7, 16, 64, 100, 500, 1500, 5000, 20000]) if rng.random() < 0.7 \
                else rng.randrange(1, 3000)
            ops.append((1 if rng.random() < 0.8 else 6, cap, rng.randrange(0, cap + 1) if rng.random() < 0.6 else 0))
        elif r < 0.66:
            cap = rng.choice([1, 2, 5, 16, 64, 300, 2000, 9000]) if rng.random() < 0.8 else rng.randrange(0, 4000)
            ops.append((2, cap, rng.randrange(1, 6)))
        elif r < 0.82:
            ops.append((3 if rng.random() < 0.75 else 7, rng.choice([0, 0, 1, 7, 100, plen, plen + 10, 3 * plen]), 0))
        else:
            take = rng.randrange(1, 6) if early_drop else 0
            if plen >= 256 and rng.random() < 0.3:
                ops.append((8, 0, take))          # read_multi_with_ancillary
            else:
                # one-byte items until end-of-stream would make transcripts of 10^5 events
                lens = [0, 0, 1, 7, 100, plen + 10] if take else [0, 0, 100, plen + 10]
                ops.append((4, rng.choice(lens), take))
    return ops


def gen_stream(rng):
    drv = rng.choice([0, 1])
    tr = rng.choice([0, 1])
    split = rng.choice([0, 1, 2])
    if tr == 1:
        # Unix stream sockets: small buffers give partial sends at no cost
        sbuf = 0 if rng.random() < 0.5 else rng.choice([2048, 4096, 8192, 16384])
        rbuf = 0 if rng.random() < 0.5 else rng.choice([2048, 4096, 8192, 16384])
        budget = 20000 if rng.random() < 0.88 else 100000
    else:
        # TCP: a tiny receive buffer stalls for seconds in the kernel's window
        # probing, a tiny send buffer is paced by delayed ACKs: keep those rare and small
        sbuf = 0 if rng.random() < 0.8 else rng.choice([4096, 16384])
        rbuf = 0 if rng.random() < 0.85 else rng.choice([16384, 65536])
        budget = 20000 if rng.random() < 0.9 else 100000
        if sbuf == 4096:
            budget = 6000
    plen = rng.choice([64, 256, 1024, 4096, 8192])
    psize = rng.choice([1, 2, 4, 8])
    seed = rng.randrange(0, 50000)
    early = rng.random() < 0.25
    a = _send_prog(rng, tr, drv, budget)
    b = _recv_prog(rng, plen, early)
    if rng.random() < 0.4:
        c = _send_prog(rng, tr, drv, budget)
        d = _recv_prog(rng, plen, early)
    else:
        c, d = [], []
    case = [1, drv, tr, split, sbuf, rbuf, plen, psize, seed]
    for prog in (a, b, c, d):
        case.append(len(prog))
        for op in prog:
            case += list(op)
    return case


def gen_dgram(rng):
    drv = rng.choice([0, 1])
    tr = rng.choice([0, 0, 0, 1, 2])
    plen = rng.choice([256, 512, 1024, 4096, 8192])
    psize = rng.choice([2, 4, 8])
    seed = rng.randrange(0, 50000)
    nsend = rng.randrange(1, 4)
    window = rng.randrange(1, 5)
    n = rng.randrange(1, 11)
    mkind, mcount = 0, 0
    if tr == 0 and rng.random() < 0.35:
        mkind = rng.randrange(1, 4)
        mcount = rng.randrange(1, min(n, 4) + 1)
    case = [2, drv, tr, plen, psize, seed, nsend, window, mkind, mcount, n]
    for i in range(n):
        in_multi = i >= n - mcount
        r = rng.random()
        if r < 0.08 and not in_multi:
            size = 0
        elif r < 0.6:
            size = rng.randrange(1, 200)
        elif r < 0.9:
            size = rng.randrange(200, 3000)
        else:
            size = rng.randrange(3000, 40000)
        sender = rng.randrange(nsend)
        if tr == 0:
            skind = rng.choice([1, 1, 2, 3, 4, 5, 6, 7, 8, 9])
            rkind = rng.randrange(1, 10)
        else:
            skind = rng.choice([1, 2])
            rkind = rng.choice([1, 2, 3, 4, 7, 8])
        if in_multi:
            rkind, cap, ln = 1, 0, 0
        else:
            c = rng.random()
            if c < 0.35:
                cap = size + rng.randrange(0, 50)
            elif c < 0.75:
                cap = max(0, size - rng.randrange(1, max(2, size)))
            else:
                cap = rng.choice([0, 1, 16, 100, 1000, 5000])
            ln = rng.randrange(0, 5)
            if rkind in (1, 3, 7):
                ln = rng.randrange(0, cap + 1) if rng.random() < 0.5 else 0
            if rkind in (5, 6, 9) and size == 0:
                size = 1
        case += [skind, size, sender, rkind, cap, ln, 0]
    return case


def gen_accept(rng):
    drv = rng.choice([0, 1])
    tr = rng.choice([0, 1])
    k = rng.randrange(1, 9) if rng.random() < 0.85 else rng.randrange(9, 21)
    mode = rng.choice([1, 2, 2, 3])
    j = rng.randrange(0, k + 1)
    return [3, drv, tr, k, mode, j]


def gen_bulk(rng):
    drv = rng.choice([1, 1, 1, 0, 0])
    tr = rng.choice([0, 1])
    split = rng.choice([0, 1, 2])
    if rng.random() < 0.5:
        sbuf = rbuf = 0
    elif tr == 0:
        sbuf = rbuf = rng.choice([65536, 262144])
    else:
        sbuf = rbuf = rng.choice([8192, 65536, 262144])
    seed = rng.randrange(0, 50000)
    who = 0 if rng.random() < 0.8 else 1
    delay = rng.choice([20, 50, 100])
    pace = rng.choice([0, 0, 4, 16])
    rcap = rng.choice([16384, 65536, 65536, 262144])
    case = [4, drv, tr, split, sbuf, rbuf, seed, who, delay, pace, rcap]
    ops = []
    budget = 6 << 20
    for _ in range(rng.randrange(1, 5)):
        total = rng.choice([300000, 1 << 20, 2 << 20, 3 << 20])
        if total > budget:
            break
        budget -= total
        kind = rng.randrange(1, 7)
        chunk = rng.choice([total, 1 << 20, 262144, 65536])
        ops.append((kind, total, min(chunk, total)))
    if not ops:
        ops.append((rng.randrange(1, 7), 1 << 20, 262144))
    case.append(len(ops))
    for op in ops:
        case += list(op)
    return case


def generate(seed, n):
    rng = random.Random(seed * 7919 + 14)
    out = []
    for _ in range(n):
        r = rng.random()
        if r < 0.58:
            out.append(gen_stream(rng))
        elif r < 0.82:
            out.append(gen_dgram(rng))
        elif r < 0.93:
            out.append(gen_accept(rng))
        else:
            out.append(gen_bulk(rng))
    return out


def describe(case):
    try:
        m = case[0]
        d = DRV.get(case[1], "?")
        if m == 1:
            return "stream/%s/%s/split%d" % (["tcp", "unix"][case[2]], d, case[3])
        if m == 2:
            return "dgram/%s/%s%s" % (["udp", "unix-raw", "udp-raw"][case[2]], d,
                                      "/multishot%d" % case[8] if case[8] else "")
        if m == 3:
            return "accept/%s/%s/mode%d" % (["tcp", "unix"][case[2]], d, case[4])
        if m == 4:
            return "bulk/%s/%s/split%d/%s-late" % (["tcp", "unix"][case[2]], d, case[3],
                                                   "reader" if case[7] == 0 else "writer")
    except (IndexError, TypeError):
        pass
    return "malformed"


def nontrivial(case, out):
    if not out or out[0] != 0 or len(out) < 2:
        return False
    evs = [out[2 + 7 * i: 9 + 7 * i] for i in range(out[1])]
    if case[0] == 1:
        return any(e[0] == 3 and e[3] > 0 for e in evs)
    if case[0] == 2:
        return any(e[0] == 5 for e in evs)
    if case[0] == 4:
        # the scenario was exercised: some send call spanned reads of the peer
        return any(e[0] == 9 and e[3] > 0 and e[6] > 0 for e in evs)
    return any(e[0] == 12 for e in evs)
