"""Case generator for C12 (compat adapters). One case = list of ints, see coq/model/RunC12.v:

  adapter base max  nr (kind arg)*  nw (kind arg)*  nsrc src*  nops op*

70 % structured programs (call patterns a real user of the adapter produces:
read/WouldBlock/fill_read_buf, write/flush_write_buf, poll/Pending/wake/poll)
over friendly schedules, 30 % adversarial (random calls, errors, zero-length
transfers, Pending everywhere, tiny limits).
"""
import random

ERR_KINDS = [4, 5, 6, 7]


def payload(rng, n):
    return [rng.randrange(0, 100) for _ in range(n)]


def enc_sched(s):
    out = [len(s)]
    for k, a in s:
        out += [k, a]
    return out


def rsched(rng, total, adv, poll):
    s = []
    if not adv:
        left = total
        while left > 0 and len(s) < 14:
            r = rng.random()
            if r < 0.25:
                if poll or r < 0.05:
                    s.append((3, 0))
                    continue
            elif r < 0.31:
                s.append((1, rng.choice(ERR_KINDS + [3])))
                continue
            n = rng.choice([1, 2, 3, 5, 8, 64])
            s.append((0, n))
            left -= n
        if rng.random() < 0.6:
            s.append((2, 0))
    else:
        for _ in range(rng.randrange(0, 12)):
            r = rng.random()
            if r < 0.4:
                s.append((0, rng.choice([0, 1, 2, 3, 7, 100])))
            elif r < 0.6:
                s.append((3, 0))
            elif r < 0.8:
                s.append((1, rng.choice(ERR_KINDS + [3, 21])))
            else:
                s.append((2, 0))
    return s


def wsched(rng, adv, poll):
    """writer answers are shared by inner write, flush and shutdown calls"""
    s = []
    n = rng.randrange(0, 16)
    for _ in range(n):
        r = rng.random()
        if not adv:
            if poll and r < 0.2:
                s.append((3, 0))
            elif r < 0.28:
                s.append((1, rng.choice(ERR_KINDS)))
            elif r < 0.33:
                s.append((2, 0))
            else:
                s.append((0, rng.choice([1, 2, 3, 5, 64, 64, 64])))
        else:
            if r < 0.3:
                s.append((3, 0))
            elif r < 0.5:
                s.append((1, rng.choice(ERR_KINDS + [3, 21])))
            elif r < 0.6:
                s.append((2, 0))
            else:
                s.append((0, rng.choice([0, 1, 2, 7, 100])))
    return s


def bytes_lp(bs):
    return [len(bs)] + bs


def sync_ops(rng, adv, degenerate=False):
    small = (lambda: 0) if degenerate else (lambda: rng.choice([0, 0, 1, 1, 2]))
    ops = []
    n = rng.randrange(1, 14)
    while len(ops) < n:
        r = rng.random()
        if adv:
            k = rng.choice([1, 2, 3, 4, 5, 6, 7, 1, 2, 4, 6, 7, 6, 7])
            if k == 1:
                ops.append([1, rng.choice([0, 1, 3, 9, 50])])
            elif k == 2:
                ops.append([2])
            elif k == 3:
                ops.append([3, rng.choice([0, 0, 0, 0, 1, 2, 30])])
            elif k == 4:
                ops.append([4] + bytes_lp(payload(rng, rng.choice([0, 1, 2, 5, 9, 30]))))
            else:
                ops.append([k])
            continue
        if r < 0.28:
            ops.append([6])
            ops.append([1, rng.choice([1, 2, 3, 4, 8, 20])])
        elif r < 0.38:
            ops.append([1, rng.choice([0, 1, 2, 5, 50])])
        elif r < 0.5:
            ops.append([6])
            ops.append([2])
            ops.append([3, small()])
        elif r < 0.56:
            ops.append([6])
        elif r < 0.8:
            ops.append([4] + bytes_lp(payload(rng, rng.choice([0, 1, 2, 3, 5, 8, 13, 45]))))
            if rng.random() < 0.5:
                ops.append([7])
        elif r < 0.93:
            ops.append([7])
        else:
            ops.append([5])
    return ops


def poll_ops(rng, adv, degenerate=False):
    small = (lambda: 0) if degenerate else (lambda: rng.choice([0, 0, 1, 1, 2]))
    ops = []
    n = rng.randrange(1, 16)
    w = lambda: rng.randrange(0, 4)
    while len(ops) < n:
        r = rng.random()
        if adv:
            k = rng.choice([1, 2, 3, 4, 4, 5, 6, 8, 9, 10, 1, 2, 4, 5, 6, 8, 9, 10])
            if k in (1, 8):
                ops.append([k, w(), rng.choice([0, 1, 3, 9, 50])])
            elif k == 3:
                ops.append([3, rng.choice([0, 0, 0, 0, 1, 2, 30])])
            elif k == 4:
                ops.append([4, w()] + bytes_lp(payload(rng, rng.choice([0, 1, 2, 5, 9, 30]))))
            elif k in (2, 5, 6):
                ops.append([k, w()])
            else:
                ops.append([k])
            continue
        if r < 0.3:
            k = rng.choice([1, 1, 8])
            a = w()
            ops.append([k, a, rng.choice([1, 2, 3, 4, 8, 20])])
            if rng.random() < 0.6:
                if rng.random() < 0.4:
                    ops.append([2, w()])            # a second task through another entry point
                ops.append([9])
                ops.append([k, a, rng.choice([1, 3, 8])])
        elif r < 0.42:
            a = w()
            ops.append([2, a])
            ops.append([9])
            ops.append([2, a])
            if rng.random() < 0.3:
                ops.append([9])
                ops.append([2, a])
            ops.append([3, small()])
        elif r < 0.47:
            ops.append([9])
        elif r < 0.72:
            a = w()
            d = payload(rng, rng.choice([0, 1, 2, 3, 5, 8, 13, 45]))
            ops.append([4, a] + bytes_lp(d))
            if rng.random() < 0.4:
                ops.append([10])
                ops.append([4, a] + bytes_lp(d))
        elif r < 0.87:
            a = w()
            ops.append([5, a])
            if rng.random() < 0.5:
                if rng.random() < 0.4:
                    # a second task through another entry point while the flush is in flight
                    if rng.random() < 0.5:
                        ops.append([6, w()])
                    else:
                        ops.append([4, w()] + bytes_lp(payload(rng, 2)))
                ops.append([10])
                ops.append([5, a])
        elif r < 0.95:
            a = w()
            ops.append([6, a])
            if rng.random() < 0.6:
                ops.append([10])
                ops.append([6, a])
        else:
            ops.append([10])
    return ops


def gen_case(rng):
    adv = rng.random() < 0.3
    adapter = rng.choice([1, 2])
    base = rng.choice([0] + [1, 2, 3, 4, 5, 6, 7, 8, 9] * 3) if not adv else rng.randrange(0, 10)
    mx = rng.choice([1, 2, 3, 5, 8, 10, 16, 25, 40] * 3 + [0]) if not adv else rng.choice([0, 1, 2, 3, 7, 10, 40])
    if adapter == 2 and mx == 0 and rng.random() < 0.7:
        mx = 1   # max 0 makes poll_write spin (known finding): keep it rare
    nsrc = rng.choice([0, 1, 5, 12, 30, rng.randrange(0, 41)])
    poll = adapter == 2
    degenerate = base == 0 or mx == 0
    ops = poll_ops(rng, adv, degenerate) if poll else sync_ops(rng, adv, degenerate)
    return ([adapter, base, mx] + enc_sched(rsched(rng, nsrc, adv, poll))
            + enc_sched(wsched(rng, adv, poll)) + bytes_lp(payload(rng, nsrc))
            + [len(ops)] + sum(ops, []))


def generate(seed, n):
    rng = random.Random(seed)
    return [gen_case(rng) for _ in range(n)]


# ---------------------------------------------------------------------------
# decoding (shared with the oracle)

SYNC_NAMES = {1: "read", 2: "fill_buf", 3: "consume", 4: "write", 5: "flush",
              6: "fill_read_buf", 7: "flush_write_buf"}
POLL_NAMES = {1: "poll_read", 2: "poll_fill_buf", 3: "consume", 4: "poll_write", 5: "poll_flush",
              6: "poll_close", 8: "poll_read_uninit", 9: "wake_r", 10: "wake_w"}


def decode(case):
    """-> dict(adapter, base, max, rs, ws, src, ops=[(name, waker|None, n|None, data|None)]); raises on malformed"""
    i = [0]

    def take():
        x = case[i[0]]
        i[0] += 1
        return x

    def take_n(n):
        if i[0] + n > len(case):
            raise IndexError
        s = case[i[0]:i[0] + n]
        i[0] += n
        return s

    def sched():
        n = take()
        s = take_n(2 * n)
        return [(s[2 * j], s[2 * j + 1]) for j in range(n)]

    adapter, base, mx = take(), take(), take()
    rs, ws = sched(), sched()
    src = take_n(take())
    ops = []
    for _ in range(take()):
        t = take()
        if adapter == 1:
            if t in (1, 3):
                ops.append((SYNC_NAMES[t], None, take(), None))
            elif t == 4:
                ops.append(("write", None, None, take_n(take())))
            elif t in (2, 5, 6, 7):
                ops.append((SYNC_NAMES[t], None, None, None))
            else:
                raise IndexError
        elif adapter == 2:
            if t in (1, 8):
                w = take()
                ops.append((POLL_NAMES[t], w, take(), None))
            elif t == 3:
                ops.append(("consume", None, take(), None))
            elif t == 4:
                w = take()
                ops.append(("poll_write", w, None, take_n(take())))
            elif t in (2, 5, 6):
                ops.append((POLL_NAMES[t], take(), None, None))
            elif t in (9, 10):
                ops.append((POLL_NAMES[t], None, None, None))
            else:
                raise IndexError
            if ops[-1][1] is not None and ops[-1][1] >= 4:
                raise IndexError
        else:
            raise IndexError
    if i[0] != len(case):
        raise IndexError
    return {"adapter": adapter, "base": base, "max": mx, "rs": rs, "ws": ws, "src": src, "ops": ops}


def describe(case):
    try:
        d = decode(case)
    except (IndexError, KeyError):
        return "malformed"
    cfg = "base0" if d["base"] == 0 else ("max0" if d["max"] == 0 else "")
    return ("SyncStream" if d["adapter"] == 1 else "AsyncStream") + ("/" + cfg if cfg else "")


def nontrivial(case, impl_out):
    """not rejected, no panic/hang, and at least one byte crossed the adapter
    (some op group reports a positive count)"""
    if impl_out[:1] == [99999] or (impl_out[:1] == [2] and len(impl_out) == 2):
        return False
    return any(x != 0 for x in impl_out[1:])
