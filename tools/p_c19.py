"""C19 — actors: serial FIFO handling, ordered lifecycle, unique names."""
import diffcheck
import gen_c19

WIDTH = {1: 1, 2: 1, 3: 1, 4: 1, 5: 3, 6: 1, 7: 1, 8: 1, 9: 0, 10: 1, 11: 1, 12: 1, 13: 1, 14: 1}


def parse_k1(case, out):
    """-> (ops with results, actors [(trace, fin)], call results) or None"""
    n = case[3]
    ops = [case[4 + 5 * i: 9 + 5 * i] for i in range(n)]
    p = 0
    res = []
    for o in ops:
        w = WIDTH.get(o[0])
        if w is None or p + w > len(out):
            return None
        res.append(out[p:p + w])
        p += w
    if p >= len(out):
        return None
    na = out[p]
    p += 1
    actors = []
    for _ in range(na):
        if p >= len(out):
            return None
        k = out[p]
        tr = out[p + 1:p + 1 + k]
        if p + 1 + k >= len(out):
            return None
        fin = out[p + 1 + k]
        actors.append((tr, fin))
        p += k + 2
    if p >= len(out):
        return None
    nc = out[p]
    calls = out[p + 1:p + 1 + nc]
    if len(calls) != nc or p + 1 + nc != len(out):
        return None
    return ops, res, actors, calls


def lifecycle_ok(tr, fin, flags, cancelled):
    """hooks in the documented order, each at most once; handlers only between a
    successful post_start and pre_stop; complete on every exit path but cancellation"""
    hooks = [x for x in tr if x < 100]
    handlers_pos = [i for i, x in enumerate(tr) if x >= 100]
    kinds = [x // 10 for x in hooks]
    if kinds != sorted(kinds) or len(set(kinds)) != len(kinds):
        return "lifecycle hooks out of order or repeated: %s" % tr
    if handlers_pos:
        if 21 not in tr:
            return "a handler ran without a successful post_start: %s" % tr
        i21 = tr.index(21)
        stop_pos = [i for i, x in enumerate(tr) if x in (30, 31, 40, 41)]
        if min(handlers_pos) < i21 or (stop_pos and max(handlers_pos) > min(stop_pos)):
            return "a handler ran outside post_start..pre_stop: %s" % tr
    if not tr:
        return None if (fin in (0, 4) or cancelled) else "no hook ran but the actor reports exit %d" % fin
    if tr[0] not in (10, 11):
        return "first hook is not pre_start: %s" % tr
    if tr[0] == 10:
        return None if len(tr) == 1 else "hooks ran after a failed pre_start: %s" % tr
    if cancelled and fin == 4:
        return None                      # cancelled by Cluster::join: a prefix is all there is
    if fin in (1, 2, 5):
        if 4 not in kinds or 3 not in kinds:
            return "actor exited (%d) without running pre_stop and post_stop: %s" % (fin, tr)
        if fin != 5 and 2 not in kinds:
            return "actor exited without post_start: %s" % tr
    return None


def oracle_k1(case, out):
    parsed = parse_k1(case, out)
    if parsed is None:
        return "malformed harness output"
    ops, res, actors, calls = parsed
    cancelled = case[2] == 1
    # calls are answered
    if any(c == 9 for c in calls):
        return "a call accepted by the mailbox was never answered although its actor is gone (reply port kept alive in the queue)"
    # lifecycle
    spawn_flags = [o[3] for o in ops if o[0] == 1]
    for i, (tr, fin) in enumerate(actors):
        w = lifecycle_ok(tr, fin, spawn_flags[i] if i < len(spawn_flags) else 0, cancelled)
        if w:
            return "actor %d: %s" % (i, w)
        if fin == 7:
            return "actor %d never exited although it was stopped" % i
    # serial FIFO: what an actor handled of the directly sent messages is a prefix of what
    # its mailbox accepted, in order, each once
    accepted = {}
    group_ok, group_back = [], []
    for o, r in zip(ops, res):
        if o[0] in (2, 3) and r == [1]:
            accepted.setdefault(o[1], []).append(o[2])
        if o[0] in (8, 11):
            (group_ok if r == [1] else group_back).append(o[2])
    seen = {}
    for i, (tr, fin) in enumerate(actors):
        hs = [x - 100 for x in tr if 100 <= x < 600]
        for h in hs:
            if h in seen:
                return "message %d handled twice (actors %d and %d)" % (h, seen[h], i)
            seen[h] = i
        direct = [h for h in hs if h not in group_ok and h not in group_back]
        acc = accepted.get(i, [])
        if direct != acc[:len(direct)]:
            return "actor %d handled %s, not a prefix of what its mailbox accepted %s" % (i, direct, acc)
        if hs != sorted(hs):
            return "actor %d handled messages out of acceptance order: %s" % (i, hs)
    for g in group_back:
        if g in seen:
            return "group message %d was handed back to the sender and also handled by actor %d" % (g, seen[g])
    # queued calls are released before post_stop finishes: the caller that post_stop waits for
    # (op 14) has its answer while post_stop is still waiting
    for o, r in zip(ops, res):
        if o[0] == 14 and r == [9]:
            return ("a call still queued when the actor stopped was not answered while post_stop was waiting "
                    "for its caller (the reply port must be released before post_stop runs)")
    # names: `holder[n]` = the spawn attempt that certainly holds name n at this point of the program
    # (its pre_start is still running, or it started and nothing that could end it has happened yet)
    holder = {}
    spawn_idx = -1
    idx_of_op = {}
    info = {}           # actor index -> dict(name, cap, state)
    for k, (o, r) in enumerate(zip(ops, res)):
        code = o[0]
        if code in (1, 12):
            spawn_idx += 1
            idx_of_op[k] = spawn_idx
            name, cap, flags, sup = o[1], o[2], o[3], o[4]
            if name:
                h = holder.get(name)
                if r == [1] and h is not None:
                    return ("two spawns of name %d are alive at once: actor %d holds it (%s) and the spawn at "
                            "operation %d succeeded as well" % (name, h, info[h]["state"], k))
                if r == [2] and not any(p[0] in (1, 12) and p[1] == name and q in ([1], [5])
                                        for p, q in zip(ops[:k], res[:k])):
                    return "spawn reported NameTaken for a name nobody holds"
                if r == [1]:
                    if code == 12:
                        info[spawn_idx] = dict(name=name, cap=cap, state="in pre_start", flags=flags, sup=sup)
                        holder[name] = spawn_idx
                    else:
                        risky = (flags & 0x3f) != 0 or (sup and ops_flags_react(ops, sup - 1))
                        info[spawn_idx] = dict(name=name, cap=cap, state="started", flags=flags, sup=sup)
                        if not risky:
                            holder[name] = spawn_idx
        elif code == 13:
            a = o[1]
            if a in info and info[a]["state"] == "in pre_start":
                name = info[a]["name"]
                if r == [1]:
                    info[a]["state"] = "started"
                    fl, sup = info[a]["flags"], info[a]["sup"]
                    if (fl & 0x3e) != 0 or (sup and ops_flags_react(ops, sup - 1)):
                        holder.pop(name, None)
                else:
                    holder.pop(name, None)
        elif code == 4 or (code in (2, 3) and o[3] in (1, 3)):
            for n, h in list(holder.items()):
                if h == o[1] and info[h]["state"] == "started":
                    del holder[n]
        elif code in (8, 11) and o[3] in (1, 3):
            for n, h in list(holder.items()):
                if info[h]["state"] == "started":
                    del holder[n]
        elif code == 5:
            name = o[1]
            h = holder.get(name)
            if r[0] == 1 and not any(p[0] in (1, 12) and p[1] == name and q in ([1], [5])
                                     for p, q in zip(ops[:k], res[:k])):
                return "lookup found a name nobody registered"
            if h is not None:
                if info[h]["state"] == "in pre_start" and r[0] == 1:
                    return "name %d is visible although its only holder (actor %d) is still inside pre_start" % (name, h)
                if info[h]["state"] == "started" and (r[0] != 1 or r[1] != info[h]["cap"]):
                    return ("the registration of the live holder of name %d (actor %d, capacity %d) is gone or "
                            "replaced: lookup returned %s" % (name, h, info[h]["cap"], r))
    return None


def ops_flags_react(ops, sup_idx):
    spawns = [o for o in ops if o[0] in (1, 12)]
    return sup_idx < len(spawns) and (spawns[sup_idx][3] & 16) != 0


def oracle_k2(case, out):
    n = out[0]
    if len(out) != 1 + 3 * n:
        return "malformed harness output"
    evs = [tuple(out[1 + 3 * i:4 + 3 * i]) for i in range(n)]
    inv, resp, hstart, hend, done = {}, {}, {}, {}, {}
    beh = {}
    hooks = []
    running = None
    for idx, (k, a, b) in enumerate(evs):
        if k == 1:
            inv[a] = idx
            beh[a] = b
        elif k == 2:
            resp[a] = (idx, b)
        elif k == 5:
            if b == 9:
                return "call %d never returned (watchdog): the mailbox accepted it, the actor is gone" % a
            done[a] = (idx, b)
        elif k == 6:
            hooks.append((idx, a, b))
            if running is not None:
                return "lifecycle hook %d ran while the handler of message %d was running" % (a, running)
        elif k == 7:
            if a in hstart:
                return "message %d handled twice" % a
            if running is not None:
                return "handler of %d started while the handler of %d was running" % (a, running)
            hstart[a] = idx
            running = a
        elif k == 8:
            if running != a:
                return "handler end of %d without its start" % a
            hend[a] = idx
            running = None
        elif k == 9 and a == 9:
            return "the actor did not exit after stop() (watchdog)"
    kinds = [a for (_, a, _) in hooks]
    if kinds != sorted(kinds) or len(set(kinds)) != len(kinds):
        return "lifecycle hooks out of order or repeated: %s" % kinds
    if hstart:
        ps = [i for (i, a, b) in hooks if a == 2 and b == 1]
        if not ps or min(hstart.values()) < ps[0]:
            return "a handler ran before post_start succeeded"
        st = [i for (i, a, _) in hooks if a >= 3]
        if st and max(hstart.values()) > min(st):
            return "a handler ran after pre_stop"
    for m, i in hstart.items():
        if m not in resp or resp[m][1] != 1:
            if m in resp:
                return "message %d was rejected (%d) and handled all the same" % (m, resp[m][1])
    # real-time FIFO: accepted entirely before another message was even sent => handled first
    ok = [m for m, (i, r) in resp.items() if r == 1]
    for m1 in ok:
        for m2 in ok:
            if m1 != m2 and resp[m1][0] < inv[m2] and m2 in hstart:
                if m1 not in hstart or hstart[m1] > hstart[m2]:
                    return ("message %d was accepted before %d was sent, yet %d was handled and %d %s"
                            % (m1, m2, m2, m1, "later" if m1 in hstart else "never"))
    for m, (i, r) in done.items():
        replied = m in hend and beh.get(m, 0) % 10 not in (1, 4)
        if (r == 1) != replied:
            return "call %d: caller saw %s but the handler %s" % (
                m, "a reply" if r == 1 else "NoReply", "replied" if replied else "did not reply")
    return None


def oracle_k3(case, out):
    n = out[0]
    if len(out) != 1 + 3 * n + 4:
        return "malformed harness output"
    for i in range(n):
        ident, r, cnt = out[1 + 3 * i:4 + 3 * i]
        if r == 1 and cnt != 1:
            return "group message %d was accepted by the group but handled %d times" % (ident, cnt)
        if r != 1 and cnt != 0:
            return "group message %d was handed back (%d) but also handled %d times" % (ident, r, cnt)
    glen, held_open, held_total, hung = out[1 + 3 * n:]
    if hung:
        return "a member actor never became idle (watchdog)"
    if not (held_open <= glen <= held_total):
        return "group has %d members; memberships held: %d of live actors, %d in all" % (glen, held_open, held_total)
    return None


class C19(diffcheck.DiffProp):
    pid = "C19"
    manifest = dict(
        text="Coq proofs over labelled transition systems of compio-actor in which every atomic operation on shared state (is_closed check, try_send, stop swap / push, each poll of the biased select, begin_stop, each hook, the receiver's drain and disconnection, task cancellation) is one label, for any number of sending/stopping threads and every interleaving: accepted = handled ++ dropped ++ queued (serial FIFO, at most one handler in progress, the head of the queue is the only message that can be taken next, an idle actor has handled everything it accepted), the lifecycle trace has the documented shape on every exit path, the mailbox is closed, drained and disconnected before post_stop starts (every queued call already has its error while post_stop runs), every accepted call has its reply port used or dropped once the actor is gone (with the repaired receiver; a witness shows the hang of the code before the fix), the registry maps a name to at most one holder / the reservation (not the activation) refuses a second spawn of a held name and leaves the holder's registration untouched / is invisible before activation / free after release, and ProcessGroup::send (pure function) delivers to exactly one live non-full member or hands the message back after trying every member once, evicting exactly the closed ones. Tied to the code by exact comparison of deterministic actor programs with the extracted interpreter, acceptance of logs recorded from concurrent threads by the extracted LTS (search over the silent steps), and an oracle on the implementation's outputs.",
        note="flume is an assumed linearizable FIFO whose queued items live while a sender lives; the handlers' behaviour is scripted; weak memory is not modelled. Known finding C19-late-push (reproduced on the real crate by forced schedules through compio_actor::verif scheduling points, corpus cases `4 1`, `4 2`; witness lemma C19_call_answered_no_exception_refuted): the window is proved precisely, not closed: a send that passed its closed-check before the mailbox closed and pushes between the receiver's drain and its disconnection is stranded (C19_call_answered names it `late`; on the finish() paths C19_late_only_overlap shows only such overlapping sends can be late). Cancellation by Cluster::join skips pre_stop/post_stop (modelled as the label ECancel; the trace is then a prefix). Concurrent process-group programs are judged by the oracle only; their routing is proved on the pure function and compared exactly on deterministic programs. Trusted: Coq kernel, extraction + driver, harness/ext/src/bin/c19.rs, tools/p_c19.py. No axioms.",
        technique="Coq invariant proofs over LTSs + pure-function theorem; exact differential of deterministic programs; log acceptance by the extracted LTS; oracle")
    prop_file = "prop/C19.v"
    model_name = "c19"
    harness_bin = "c19"
    package = "ext"
    gen = gen_c19
    shards = 10
    thorough_release = False
    counts = {"quick": 560, "thorough": 12000}
    rule = ("kind 1: deterministic programs (<= 6 actors, 3..16 operations) of spawn named/unnamed x capacity 1..8 x "
            "failing hooks x supervisor x dropped spawn future, send/call with behaviours ok/fail/gate/stop-self/no-reply/yield/sleep, "
            "stop, lookup, gate release, group join/leave/send/call/len, 1..4 workers, graceful end or Cluster::join; "
            "kind 2: 1..4 threads x 1..6 operations (send/call/stop) on one mailbox of capacity 1..8; "
            "kind 3: 1..4 threads joining/leaving/sending through one process group over 1..4 actors (some stopped before); "
            "kind 4 (corpus): two forced schedules of the drain/disconnect window; kind 5: post_stop waiting for 1..4 concurrent callers of queued calls. "
            "kind 1 includes the reservation window (same-name spawns while a gated pre_start is running) and post_stop waiting for the caller of a queued call. "
            "non-trivial = at least one handler ran; distinct = distinct programs")
    trusted_base = [
        "Coq 8.16.1 kernel (coqc, full .vo build)",
        "extraction: ExtrOcamlBasic only; coq/extract/driver.ml; coq/model/RunC19.v (interpreter, log decoder, silent-step search)",
        "harness/ext/src/bin/c19.rs (instrumented actor, settle-by-ping protocol, event log), tools/gen_c19.py, tools/p_c19.py",
    ]
    assumptions = [
        "flume channels are linearizable FIFO queues; a queued item stays alive while any sender exists",
        "futures oneshot: a dropped sender resolves the receiver with Canceled",
        "sequential consistency of the mailbox's AtomicBool and of the event log order",
        "an actor task is polled by one worker runtime at a time (C18) and its handlers do what the message scripts",
    ]

    def model_input(self, case, out):
        if case[:1] == [2]:
            if not out or out[0] == 99999 or (out[:1] == [2] and len(out) == 2) or len(out) != 1 + 3 * out[0]:
                return [0]
            return [2, case[2]] + out[1:]
        if case[:1] == [3]:
            return [3]
        if case[:1] == [5]:
            return [5]
        return case

    def model_expected(self, case, out):
        if case[:1] == [2]:
            if not out or out[0] == 99999 or (out[:1] == [2] and len(out) == 2) or len(out) != 1 + 3 * out[0]:
                return [99999]
            return [1, out[0]]
        if case[:1] == [3]:
            return [3]
        if case[:1] == [5]:
            return [5]
        return out

    def oracle(self, case, out):
        if out[:1] == [99999]:
            return None
        if out[:1] == [2] and len(out) == 2:
            return "hang or panic (code %d) in the actor program" % out[1]
        k = case[0]
        if k == 1:
            return oracle_k1(case, out)
        if k == 2:
            return oracle_k2(case, out)
        if k == 3:
            return oracle_k3(case, out)
        if k == 5:
            if len(out) != 1 + case[3]:
                return "malformed harness output"
            if out[0] == 9:
                return ("the actor never exited: post_stop waits for the callers of the calls that were queued, "
                        "and they never got their answer (deadlock)")
            if any(x == 9 for x in out[1:]):
                return "a call was never answered"
            return None
        if k == 4:
            if len(out) != 3:
                return "malformed harness output"
            if out[1] == 9:
                return ("a call accepted by the mailbox between the receiver's drain and its disconnection "
                        "was never answered although the actor is gone")
            return None
        return None

    def known(self, case, out, what):
        # identified by the forced schedule (kind 4) only: any other unanswered call is a violation
        if case[:1] == [4] and "between the receiver's drain and its disconnection" in what:
            return "C19-late-push"
        return None


PROP = C19()
