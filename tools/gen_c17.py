"""Case generator for C17 (the blocking pool).  Case formats: harness/rt/src/bin/c17.rs.
   0 direct pool, concurrent dispatcher threads, phases (gaps let workers retire)
   1 forced window at sched_point(10)
   2 proactors sharing one pool (panicking jobs)
   3 Runtime::spawn_blocking"""
import random

TMO = [0, 1, 1, 2, 3, 5, 10, 20, 50]
DUR = [0, 0, 200, 500, 1000, 3000, 8000]
PRE = [0, 0, 0, 100, 500, 2000]


def gen_direct(rng):
    l = rng.choice([1, 1, 2, 2, 3, 4])
    tmo = rng.choice(TMO)
    d = rng.choice([1, 2, 2, 3, 4, 4])
    np_ = rng.randrange(1, 4)
    case = [0, l, tmo, d, np_]
    total = 0
    for _ in range(np_):
        gap = rng.choice([0, 1, tmo + 5, tmo + 5, 2 * tmo + 10])
        nj = rng.randrange(1, 7)
        total += nj
        case += [gap, nj]
        budget = 40000
        for _ in range(nj):
            dur = rng.choice(DUR)
            if dur > budget:
                dur = 0
            budget -= dur
            case += [rng.randrange(d), dur, rng.choice(PRE)]
    return case


def gen_window(rng):
    l = rng.choice([1, 1, 2, 3])
    tmo = rng.choice([0, 1, 5, 20])
    d = rng.choice([2, 2, 3, 4])
    return [1, l, tmo, d, rng.choice([2, 5, 10, 20]), rng.choice([0, 0, 5, tmo + 10])]


def gen_proactors(rng):
    l = rng.choice([1, 1, 2, 3, 4])
    tmo = rng.choice(TMO)
    r = rng.choice([1, 2, 2, 3, 4])
    nj = rng.randrange(1, 9)
    case = [2, l, tmo, r, rng.choice([0, 1]), nj]
    for _ in range(nj):
        case += [rng.randrange(r), 1 if rng.random() < 0.3 else 0, rng.choice([0, 100, 500, 2000, 5000])]
    return case


def gen_runtime(rng):
    l = rng.choice([1, 2, 3])
    tmo = rng.choice(TMO)
    nj = rng.randrange(1, 7)
    case = [3, l, tmo, nj]
    for _ in range(nj):
        case += [1 if rng.random() < 0.3 else 0, rng.choice([0, 100, 1000, 3000])]
    return case


def gen_adversarial(rng):
    k = rng.randrange(5)
    if k == 0:
        return [0, 0, 5, 1, 1, 0, 1, 0, 0, 0]          # limit 0: outside the quantifier (dispatch panics)
    if k == 1:
        return [rng.randrange(4, 9), 1, 1]
    if k == 2:
        c = gen_direct(rng)
        return c[:-1]                                   # truncated
    if k == 3:
        return [0, 1, 1, 2, 1, 0, 1, 5, 0, 0]           # dispatcher index out of range
    return [1, 1, 1, 9, 1, 0]


def generate(seed, n):
    rng = random.Random(seed * 7919 + 17)
    out = []
    for _ in range(n):
        r = rng.random()
        if r < 0.55:
            out.append(gen_direct(rng))
        elif r < 0.65:
            out.append(gen_window(rng))
        elif r < 0.85:
            out.append(gen_proactors(rng))
        elif r < 0.96:
            out.append(gen_runtime(rng))
        else:
            out.append(gen_adversarial(rng))
    return out


def describe(case):
    if not case:
        return "empty"
    m = case[0]
    if m == 0 and len(case) > 3:
        return "direct/L%d/D%d/tmo%s" % (case[1], case[3], "0" if case[2] == 0 else "<=5" if case[2] <= 5 else ">5")
    if m == 1 and len(case) > 3:
        return "window/L%d/D%d" % (case[1], case[3])
    if m == 2 and len(case) > 4:
        return "proactors/%s/L%d/R%d" % ("uring" if case[4] == 0 else "poll", case[1], case[3])
    if m == 3:
        return "runtime/L%d" % case[1]
    return "malformed"


def nontrivial(case, out):
    # a worker was spawned through a reservation and a job ran
    if not out or out[0] == 99999 or len(out) < 2:
        return False
    n = out[0]
    kinds = out[1:1 + 3 * n:3]
    return 5 in kinds and 8 in kinds and 9 in kinds
