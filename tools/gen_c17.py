"""Case generator for C17 (the blocking pool).  Case formats: harness/rt/src/bin/c17.rs.
   0 direct pool, concurrent dispatcher threads, phases (gaps let workers retire)
   1 forced window at sched_point(10)
   2 proactors sharing one pool (panicking jobs)
   3 Runtime::spawn_blocking
   4 k jobs finishing together while the driver sleeps in poll (result delivery wake-up)
   5 the OS refuses a thread exactly when the pool must grow (RLIMIT_AS in a child process)
Second part (harness/ext/src/bin/c17d.rs, class D below): a compio_dispatcher::Dispatcher
whose worker runtimes and dispatch_blocking share one pool."""
import random

TMO = [0, 1, 1, 2, 3, 5, 10, 20, 50]
DUR = [0, 0, 200, 500, 1000, 3000, 8000]
PRE = [0, 0, 0, 100, 500, 2000]


def gen_direct(rng):
    l = rng.choice([1, 1, 2, 2, 3, 4])
    tmo = rng.choice(TMO)
    d = rng.choice([1, 2, 2, 3, 4, 4])
    np_ = rng.randrange(1, 4)
    case = [0, l, tmo, d, np_]
    total = 0
    for _ in range(np_):
        gap = rng.choice([0, 1, tmo + 5, tmo + 5, 2 * tmo + 10])
        nj = rng.randrange(1, 7)
        total += nj
        case += [gap, nj]
        budget = 40000
        for _ in range(nj):
            dur = rng.choice(DUR)
            if dur > budget:
                dur = 0
            budget -= dur
            case += [rng.randrange(d), dur, rng.choice(PRE)]
    return case


def gen_window(rng):
    l = rng.choice([1, 1, 2, 3])
    tmo = rng.choice([0, 1, 5, 20])
    d = rng.choice([2, 2, 3, 4])
    return [1, l, tmo, d, rng.choice([2, 5, 10, 20]), rng.choice([0, 0, 5, tmo + 10])]


def gen_proactors(rng):
    l = rng.choice([1, 1, 2, 3, 4])
    tmo = rng.choice(TMO)
    r = rng.choice([1, 2, 2, 3, 4])
    nj = rng.randrange(1, 9)
    case = [2, l, tmo, r, rng.choice([0, 1]), nj]
    for _ in range(nj):
        case += [rng.randrange(r), 1 if rng.random() < 0.3 else 0, rng.choice([0, 100, 500, 2000, 5000])]
    return case


def gen_runtime(rng):
    l = rng.choice([1, 2, 3])
    tmo = rng.choice(TMO)
    nj = rng.randrange(1, 7)
    case = [3, l, tmo, nj]
    for _ in range(nj):
        case += [1 if rng.random() < 0.3 else 0, rng.choice([0, 100, 1000, 3000])]
    return case


def gen_wake(rng, thorough=False):
    k = rng.choice([2, 2, 3, 4])
    l = rng.choice([k, k, k + 1, 4]) if k < 4 else 4
    l = max(l, k)
    rounds = rng.choice([300, 400, 600]) if thorough else rng.choice([150, 200, 300])
    # drv 0 = io_uring (the important one); the last number is how long after the k-th job arrived all k
    # return together (the driver thread needs that long to fall asleep in poll)
    return [4, l, rng.choice([20, 50, 100]), rng.choice([0, 0, 0, 1]), k, rounds, rng.choice([100, 200, 300, 500, 1000])]


def gen_fault(rng):
    l = rng.choice([1, 1, 2, 3, 4])
    sub = rng.choice([0, 0, 1])
    m = rng.randrange(l) if sub == 0 else 0
    return [5, l, rng.choice([1, 5, 10, 20]), sub, m, rng.choice([0, 1])]


def gen_adversarial(rng):
    k = rng.randrange(5)
    if k == 0:
        return [0, 0, 5, 1, 1, 0, 1, 0, 0, 0]          # limit 0: outside the quantifier (dispatch panics)
    if k == 1:
        return [rng.randrange(4, 9), 1, 1]
    if k == 2:
        c = gen_direct(rng)
        return c[:-1]                                   # truncated
    if k == 3:
        return [0, 1, 1, 2, 1, 0, 1, 5, 0, 0]           # dispatcher index out of range
    return [1, 1, 1, 9, 1, 0]


def generate(seed, n):
    rng = random.Random(seed * 7919 + 17)
    out = []
    thorough = n > 1000
    for _ in range(n):
        r = rng.random()
        if r < 0.50:
            out.append(gen_direct(rng))
        elif r < 0.60:
            out.append(gen_window(rng))
        elif r < 0.78:
            out.append(gen_proactors(rng))
        elif r < 0.88:
            out.append(gen_runtime(rng))
        elif r < 0.93:
            out.append(gen_wake(rng, thorough))
        elif r < 0.97:
            out.append(gen_fault(rng))
        else:
            out.append(gen_adversarial(rng))
    # every behaviour class is exercised by at least a dozen generated cases in every run
    for mode, g in ((1, gen_window), (4, lambda r: gen_wake(r, thorough)), (5, gen_fault), (2, gen_proactors),
                    (3, gen_runtime)):
        have = sum(1 for c in out if c and c[0] == mode)
        out += [g(rng) for _ in range(max(0, 12 - have))]
    return out


def describe(case):
    if not case:
        return "empty"
    m = case[0]
    if m == 0 and len(case) > 3:
        return "direct/L%d/D%d/tmo%s" % (case[1], case[3], "0" if case[2] == 0 else "<=5" if case[2] <= 5 else ">5")
    if m == 1 and len(case) > 3:
        return "window/L%d/D%d" % (case[1], case[3])
    if m == 2 and len(case) > 4:
        return "proactors/%s/L%d/R%d" % ("uring" if case[4] == 0 else "poll", case[1], case[3])
    if m == 3:
        return "runtime/L%d" % case[1]
    if m == 4 and len(case) > 5:
        return "wake/%s/k%d" % ("uring" if case[3] == 0 else "poll", case[4])
    if m == 5 and len(case) > 5:
        return "spawnfail/%s/L%d/m%d" % ("pool" if case[3] == 0 else "push", case[1], case[4])
    return "malformed"


def nontrivial(case, out):
    # a worker was spawned through a reservation and a job ran
    if not out or out[0] == 99999 or len(out) < 2:
        return False
    if case[:1] == [5]:
        return len(out) >= 11 and out[-3] == 1      # the injected fault really refused a thread
    n = out[0]
    kinds = out[1:1 + 3 * n:3]
    return 5 in kinds and 8 in kinds and 9 in kinds


class D:
    """cases of the dispatcher part: [L; tmo_ms; W; concurrent; join_mode; S; njobs; (path dur_us panics)*]"""

    @staticmethod
    def gen_case(rng):
        l = rng.choice([1, 1, 2, 2, 3, 4])
        tmo = rng.choice([1, 5, 10, 20, 50])
        w = rng.choice([1, 2, 2, 3, 4])
        conc = rng.choice([0, 1, 1])
        jm = rng.choice([0, 0, 0, 1, 2])
        s = rng.choice([1, 1, 2])
        nj = rng.randrange(2, 10)
        case = [l, tmo, w, conc, jm, s, nj]
        budget = 60000
        for _ in range(nj):
            path = rng.choice([0, 0, 1])
            if jm == 1 and path == 1:
                dur = rng.choice([10000, 20000, 30000])     # still running when join is called
            else:
                dur = rng.choice([500, 1000, 3000, 5000, 8000])
            if dur > budget:
                dur = 200
            budget -= dur
            panics = 1 if (path == 0 and rng.random() < 0.2) else 0
            case += [path, dur, panics]
        return case

    @staticmethod
    def gen_probe(rng):
        """saturation probe: exactly L gated spawn_blocking jobs first, then dispatch_blocking jobs"""
        l = rng.choice([1, 1, 2, 2, 3, 4])
        w = rng.choice([1, 2, 3, 4])
        conc = 1 if w < l else rng.choice([0, 1])
        s = rng.choice([1, 2])
        n1 = rng.randrange(1, 5)
        case = [l, rng.choice([1, 5, 10, 20, 50]), w, conc, 3, s, l + n1]
        for _ in range(l):
            case += [0, rng.choice([0, 500, 2000]), 0]
        for _ in range(n1):
            case += [1, rng.choice([200, 1000, 3000]), 0]
        return case

    @staticmethod
    def generate(seed, n):
        rng = random.Random(seed * 104729 + 5)
        out = []
        for _ in range(n):
            if rng.random() < 0.25:
                out.append(D.gen_probe(rng))
            elif rng.random() < 0.04:
                out.append(rng.choice([[0, 5, 1, 1, 0, 1, 0], [1, 5, 9, 1, 0, 1, 0], [1, 5, 1, 1, 0, 1, 1, 1, 100, 1], [2, 5, 2]]))
            else:
                out.append(D.gen_case(rng))
        return out

    @staticmethod
    def describe(case):
        if len(case) < 7:
            return "malformed"
        return "disp/L%d/W%d/%s/join%d" % (case[0], case[2], "conc" if case[3] else "seq", case[4])

    @staticmethod
    def nontrivial(case, out):
        if not out or out[0] == 99999 or len(out) < 12:
            return False
        # several jobs over both paths, or a replayed pool history
        return len(case) >= 7 and case[6] >= 2
