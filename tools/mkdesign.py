#!/usr/bin/env python3
"""(dev-time) refresh the generated parts of DESIGN.md: §8.1 fixes/findings, §8.3 seeded table,
§10 as-built per-property summary and the list of hook commits."""
import os, re, subprocess, sys
HERE = os.path.dirname(os.path.abspath(__file__)); ROOT = os.path.dirname(HERE)
subprocess.run([sys.executable, os.path.join(HERE, "mkfixes_table.py")], check=True)
subprocess.run([sys.executable, os.path.join(HERE, "mkseeded_table.py")], check=True)
built = subprocess.run([sys.executable, os.path.join(HERE, "mkdesign_table.py")], check=True, stdout=subprocess.PIPE, text=True).stdout
hooks = subprocess.run(["git", "-C", "/repo", "log", "--reverse", "--format=* `%h` %s", "--grep=^verif hook:"], stdout=subprocess.PIPE, text=True).stdout
fixes = subprocess.run(["git", "-C", "/repo", "log", "--reverse", "--format=* `%h` %s", "--grep=^fix:"], stdout=subprocess.PIPE, text=True).stdout
p = os.path.join(ROOT, "DESIGN.md")
s = open(p).read()
body = ("### 10.1 Commits made in /repo\n\nHook commits (add-only, `#[cfg(compio_verif)]`; with the flag off the code is "
        "the upstream code plus the `fix:` commits):\n\n" + hooks + "\nRepairs of genuine defects (`fix:` commits, unguarded, "
        "each found by a check of this framework and recorded under `fixed` in known_findings.json):\n\n" + fixes +
        "\n### 10.2 Per property\n\n" + built)
s = re.sub(r"<!-- asbuilt-begin -->.*<!-- asbuilt-end -->", lambda m: "<!-- asbuilt-begin -->\n" + body + "<!-- asbuilt-end -->", s, flags=re.S)
open(p, "w").write(s)
print("DESIGN.md refreshed")
