"""Case generator for the runtime-level part of C05 (see coq/model/RunC05RT.v for the
case format).  A case is a PROGRAM: tasks awaiting one operation future wrapped in a
nesting of combinators, tokens fired before / after / twice, handles dropped, data
written, the runtime run in between.

45 % scenario templates (token shared by several ops, registration after the fire,
both nestings of with_personality / with_cancel, double cancel, drop before the first
poll, timeouts, neighbours on one descriptor) with random decoration, 55 % random
programs.  All randomness from random.Random(seed)."""
import random

KINDS = [0, 0, 0, 0, 1, 2, 3, 4]


def spawn(r, wx, wraps):
    out = [1, r, wx, len(wraps)]
    for w, a in wraps:
        out += [w, a]
    return out


def write(r, extra=0):
    return [2, r, extra]


def fire(t):
    return [3, t]


def droph(i):
    return [4, i]


RUN = [5]


def rand_wraps(rng, ntok, maxn=4, p_cancel=0.45):
    n = rng.choice([0, 1, 1, 2, 2, 3, maxn])
    ws = []
    for _ in range(n):
        x = rng.random()
        if x < p_cancel:
            ws.append((1, rng.randrange(ntok)))
        elif x < p_cancel + 0.17:
            ws.append((2, rng.choice([0, 0, 1, 1, 1, 2])))
        elif x < p_cancel + 0.30:
            ws.append((3, rng.randrange(ntok)))
        elif x < p_cancel + 0.45:
            ws.append((4, rng.choice([0, 1, 1, 2, 2])))
        else:
            ws.append((5, rng.randrange(ntok)))
    return ws


def encode(drv, kinds, ntok, steps):
    flat = []
    for s in steps:
        flat += s
    return [drv, len(kinds)] + kinds + [ntok, len(steps)] + flat


def scenario(rng):
    drv = rng.randrange(2)
    k = rng.choice([0, 0, 0, 1, 2, 3, 4])
    kinds = [k]
    ntok = 2
    wx = rng.randrange(2)
    deco = rand_wraps(rng, ntok, 2, p_cancel=0.0) if rng.random() < 0.4 else []
    deco = [w for w in deco if w[0] in (2, 4) and w != (4, 0) and w != (4, 1) and w != (2, 2)]
    which = rng.randrange(12)
    st = []
    can_write = k != 4
    if which == 0:      # token shared by two ops, a third op on the same descriptor is a neighbour
        st = [spawn(0, wx, [(1, 0)] + deco), spawn(0, wx, deco + [(1, 0)]), spawn(0, wx, deco), RUN, fire(0), RUN]
        if can_write:
            st += [write(0), RUN]
    elif which == 1:    # registered after the token fired
        st = [fire(0)] + ([RUN] if rng.random() < 0.5 else []) + [spawn(0, wx, [(1, 0)] + deco), RUN]
    elif which == 2:    # op.with_personality(p).with_cancel(t)
        p = rng.choice([0, 1])
        st = [spawn(0, 1, [(2, p), (1, 0)]), RUN, fire(0), RUN]
    elif which == 3:    # op.with_cancel(t).with_personality(p)
        p = rng.choice([0, 1])
        st = [spawn(0, 1, [(1, 0), (2, p)]), RUN, fire(0), RUN]
    elif which == 4:    # double cancel, and cancel after completion
        st = [spawn(0, wx, [(1, 0)] + deco), spawn(0, wx, [(1, 1)]), RUN, fire(0), fire(0), RUN, fire(0)]
        if can_write:
            st += [write(0), RUN, fire(1), RUN]
    elif which == 5:    # dropped before the first poll / after it
        st = [spawn(0, wx, [(1, 0)] + deco), droph(0), spawn(0, wx, deco), RUN, droph(1), RUN]
    elif which == 6:    # timeouts
        d = rng.choice([0, 1])
        st = [spawn(0, wx, [(4, d)]), spawn(0, wx, [(1, 0), (4, d)]), spawn(0, wx, [(4, 2)]), RUN]
        if can_write:
            st += [write(0), RUN]
    elif which == 7:    # an inner with_cancel replaces the outer token
        st = [spawn(0, wx, [(1, 0), (2, 1), (1, 1)]), spawn(0, wx, [(1, 1), (1, 0)]), RUN,
              fire(rng.choice([0, 1])), RUN, fire(0), fire(1), RUN]
    elif which == 8:    # fail-fast: listener created before / after the fire
        st = [spawn(0, wx, [(3, 0)] + deco), RUN, fire(0), spawn(0, wx, [(3, 0)]), RUN]
    elif which == 9:    # data and cancel in the same window, both orders
        if can_write:
            a, b = [write(0)], [fire(0)]
            st = [spawn(0, wx, [(1, 0)] + deco), spawn(0, wx, []), RUN] + (a + b if rng.random() < 0.5 else b + a) + [RUN]
        else:
            st = [spawn(0, wx, [(1, 0)]), RUN, fire(0), RUN]
    elif which == 10:   # cancel after completion is harmless
        if can_write:
            st = [spawn(0, wx, [(1, 0)] + deco), write(0), RUN, fire(0), droph(0), RUN]
        else:
            st = [spawn(0, wx, [(1, 0)]), RUN, droph(0), fire(0), RUN]
    else:               # buffered data, then ops polled for the first time under a fired token
        if can_write:
            st = [write(0, 1), fire(0), spawn(0, wx, [(1, 0)] + deco), spawn(0, wx, [(1, 0)]), RUN]
        else:
            st = [fire(0), spawn(0, wx, [(1, 0)]), spawn(0, wx, []), RUN]
    return encode(drv, kinds, ntok, st)


def random_program(rng):
    drv = rng.randrange(2)
    nres = rng.choice([1, 1, 2, 2, 3])
    kinds = [rng.choice(KINDS) for _ in range(nres)]
    ntok = rng.choice([1, 2, 2, 3])
    nsteps = rng.randrange(4, 17)
    steps = []
    ntasks = 0
    for _ in range(nsteps):
        x = rng.random()
        if x < 0.34 and ntasks < 7:
            steps.append(spawn(rng.randrange(nres), rng.randrange(2), rand_wraps(rng, ntok)))
            ntasks += 1
        elif x < 0.50:
            r = rng.randrange(nres)
            if kinds[r] == 4:
                steps.append(RUN)
            else:
                steps.append(write(r, rng.choice([0, 0, 0, 1, 2])))
        elif x < 0.66:
            steps.append(fire(rng.randrange(ntok)))
        elif x < 0.74 and ntasks > 0:
            steps.append(droph(rng.randrange(ntasks)))
        else:
            steps.append(RUN)
    return encode(drv, kinds, ntok, steps)


def adversarial(rng):
    """malformed / boundary encodings: both sides must reject the same ones"""
    c = random_program(rng)
    x = rng.random()
    if x < 0.3 and len(c) > 4:
        i = rng.randrange(len(c))
        c[i] = rng.choice([0, 6, 7, 9, 13, 41])
    elif x < 0.6:
        c = c[:rng.randrange(len(c) + 1)]
    else:
        c = c + [rng.randrange(6)]
    return c


def generate(seed, n):
    rng = random.Random(seed)
    cases = []
    for _ in range(n):
        x = rng.random()
        if x < 0.45:
            cases.append(scenario(rng))
        elif x < 0.97:
            cases.append(random_program(rng))
        else:
            cases.append(adversarial(rng))
    return cases


# ---------------------------------------------------------------------------
# decoding (for describe / the oracle)

def parse(case):
    """-> dict(drv, kinds, ntok, steps=[(tag, ...)]) or None when malformed"""
    try:
        c = list(case)
        drv, nres = c[0], c[1]
        if drv > 1 or nres > 6:
            return None
        kinds = c[2:2 + nres]
        if len(kinds) != nres or any(k > 4 for k in kinds):
            return None
        p = 2 + nres
        ntok, nsteps = c[p], c[p + 1]
        if ntok > 6 or nsteps > 40:
            return None
        p += 2
        steps = []
        ntasks = 0
        for _ in range(nsteps):
            tag = c[p]
            if tag == 1:
                r, wx, n = c[p + 1], c[p + 2], c[p + 3]
                if r >= nres or wx > 1 or n > 8 or ntasks >= 12:
                    return None
                ws = []
                for j in range(n):
                    w, a = c[p + 4 + 2 * j], c[p + 5 + 2 * j]
                    if (w in (1, 3, 5) and a < ntok) or (w in (2, 4) and a < 3):
                        ws.append((w, a))
                    else:
                        return None
                steps.append(("spawn", r, wx, ws))
                ntasks += 1
                p += 4 + 2 * n
            elif tag == 2:
                r, extra = c[p + 1], c[p + 2]
                if r >= nres or extra > 2 or kinds[r] == 4:
                    return None
                steps.append(("write", r, extra))
                p += 3
            elif tag == 3:
                if c[p + 1] >= ntok:
                    return None
                steps.append(("fire", c[p + 1]))
                p += 2
            elif tag == 4:
                if c[p + 1] >= ntasks:
                    return None
                steps.append(("drop", c[p + 1]))
                p += 2
            elif tag == 5:
                steps.append(("run",))
                p += 1
            else:
                return None
        if p != len(c):
            return None
        return dict(drv=drv, kinds=kinds, ntok=ntok, steps=steps)
    except IndexError:
        return None


def parse_out(out):
    """-> dict(tasks=[(fin, cls, val, pers)], left=[..], keys=[(dc, freed)], toks=[(c, w)]) or None"""
    try:
        if out[0] != 0:
            return None
        n = out[1]
        tasks = [tuple(out[2 + 4 * i: 6 + 4 * i]) for i in range(n)]
        p = 2 + 4 * n
        nr = out[p]
        left = out[p + 1: p + 1 + nr]
        p += 1 + nr
        keys = [tuple(out[p + 2 * i: p + 2 * i + 2]) for i in range(n)]
        p += 2 * n
        nt = out[p]
        toks = [tuple(out[p + 1 + 2 * i: p + 3 + 2 * i]) for i in range(nt)]
        if len(tasks) != n or len(left) != nr or len(keys) != n or len(toks) != nt or p + 1 + 2 * nt != len(out):
            return None
        if any(len(t) != 4 for t in tasks) or any(len(k) != 2 for k in keys) or any(len(t) != 2 for t in toks):
            return None
        return dict(tasks=tasks, left=left, keys=keys, toks=toks)
    except IndexError:
        return None


def describe(case):
    pr = parse(case)
    if pr is None:
        return "malformed"
    tags = set()
    for s in pr["steps"]:
        if s[0] == "fire":
            tags.add("T")
        elif s[0] == "drop":
            tags.add("D")
        elif s[0] == "spawn":
            for w, a in s[3]:
                tags.add({1: "c", 2: "p", 3: "F", 4: "O", 5: "c"}[w])
    return ("uring" if pr["drv"] == 0 else "poll") + ":" + "".join(sorted(tags))


def nontrivial(case, out):
    po = parse_out(out) if out else None
    if po is None:
        return False
    return any(t[1] in (2, 3, 4, 6) for t in po["tasks"]) or any(k[0] > 0 for k in po["keys"])
