"""Program generator for the driver family (C01 drop points, C02 result routing,
C05 cancellation).  case = [drv, sq_cap, n_res, n_steps, (op a b)*]; see
harness/rt/src/bin/drv.rs."""
import random

OPS = {1: "recv", 2: "send", 3: "blocking", 4: "write", 5: "poll", 6: "pop", 7: "dropkey",
       8: "cancel", 9: "token", 10: "dropdriver", 11: "peer_read", 12: "send_zc", 13: "pop_multishot", 14: "accept_multi", 15: "connect", 16: "wake", 17: "set_waker", 18: "recv_dup"}


def gen_program(rng, mode):
    drv = rng.choice([0, 0, 1])
    cap = rng.choice([1, 1, 2, 2, 4, 1024]) if mode != "c01" else rng.choice([1, 2, 4, 1024])
    n_res = rng.randrange(1, 4)
    steps = []
    nslots = 0
    written = [0] * n_res
    n = rng.randrange(3, 14)
    for _ in range(n):
        r = rng.random()
        have = nslots > 0
        if mode == "c02":
            w = [(0.30, "push"), (0.22, "write"), (0.2, "poll"), (0.2, "pop"), (0.03, "drop"), (0.03, "cancel"), (0.02, "dd")]
        elif mode == "c05":
            w = [(0.28, "push"), (0.1, "write"), (0.2, "poll"), (0.12, "pop"), (0.02, "drop"), (0.26, "cancel"), (0.02, "dd")]
        else:
            w = [(0.28, "push"), (0.12, "write"), (0.16, "poll"), (0.08, "pop"), (0.16, "drop"), (0.1, "cancel"), (0.10, "dd")]
        acc, what = 0.0, "push"
        for p, name in w:
            acc += p
            if r < acc:
                what = name
                break
        if what == "push" or not have:
            k = rng.random()
            if k < 0.12:
                steps.append((18, rng.randrange(n_res), rng.choice([1, 2, 3, 5, 8])))
            elif k < 0.65:
                steps.append((1, rng.randrange(n_res), rng.choice([1, 2, 3, 5, 8, 16])))
            elif k < 0.78:
                steps.append((2, rng.randrange(n_res), rng.choice([1, 3, 8, 40])))
            elif k < 0.86 and drv == 0:
                steps.append((12, rng.randrange(n_res), rng.choice([1, 8, 64])))
            elif k < 0.92:
                steps.append((14, 0, 0))
                if rng.random() < 0.7:
                    steps.append((15, rng.choice([1, 2, 3]), 0))
            else:
                steps.append((3, rng.choice([0, 1, 5, 15]), 0))
            nslots += 1
        elif what == "write" and rng.random() < 0.15:
            steps.append((15, rng.choice([1, 2]), 0))
        elif what == "write":
            res = rng.randrange(n_res)
            k = rng.choice([1, 2, 3, 5, 9])
            if written[res] + k < 240:
                written[res] += k
                steps.append((4, res, k))
        elif what == "poll" and rng.random() < 0.2:
            steps.append((16, 0, 0))
            steps.append((5, rng.choice([0, 0, 5]), 0))
        elif what == "pop" and rng.random() < 0.3 and nslots > 0:
            steps.append((17, rng.randrange(nslots), len(steps) % 16))
        elif what == "poll":
            if mode == "c05" and rng.random() < 0.35:
                # something else is ready when the driver is polled
                res = rng.randrange(n_res)
                if written[res] + 2 < 240:
                    written[res] += 2
                    steps.append((4, res, 2))
                    steps.append((1, res, rng.choice([1, 2, 8])))
                    nslots += 1
            steps.append((5, rng.choice([0, 0, 5, 10]), 0))
        elif what == "pop":
            if rng.random() < 0.25:
                steps.append((13, rng.randrange(nslots), 0))
            steps.append((6, rng.randrange(nslots), 0))
        elif what == "drop":
            steps.append((7, rng.randrange(nslots), 0))
        elif what == "cancel":
            steps.append((rng.choice([8, 8, 9]), rng.randrange(nslots), 0))
            if rng.random() < 0.3:  # twice / after completion
                steps.append((rng.choice([8, 9]), steps[-1][1], 0))
        else:
            steps.append((10, rng.choice([0, 1]), 0))
            break
    # usually give the driver a chance to deliver and the user a chance to collect
    if rng.random() < 0.7 and not (steps and steps[-1][0] == 10):
        steps.append((5, 10, 0))
        steps.append((5, 5, 0))
        for s in range(nslots):
            if rng.random() < 0.7:
                steps.append((6, s, 0))
    case = [drv, cap, n_res, len(steps)]
    for (o, a, b) in steps:
        case += [o, a, b]
    return case


def templated(rng):
    """structured scenarios (mostly valid, specific multi-step shapes) with random variation"""
    drv = rng.choice([0, 1, 1])
    cap = rng.choice([1, 2, 4, 1024])
    t = rng.choice(list(range(10)) + [9, 9, 6, 0, 0])
    S = []
    if t == 0:
        # several operations queued on ONE descriptor, one of them (often the head) is cancelled
        # and reaped, only then the descriptor becomes ready
        k = rng.randrange(2, 5)
        for _ in range(k):
            S.append((1, 0, rng.choice([1, 2, 4, 8])))
        victim = rng.choice([0, 0, 0, rng.randrange(k)])
        S.append((rng.choice([8, 8, 9, 7]), victim, 0))
        S.append((5, rng.choice([0, 5]), 0))
        if rng.random() < 0.5:
            S.append((5, 5, 0))
        S.append((4, 0, rng.choice([3, 9, 16])))
        S += [(5, 10, 0), (5, 5, 0)] * (2 if drv == 0 else k + 1)
        S += [(6, i, 0) for i in range(k)]
    elif t == 1:
        # multishot accept with unreaped completions when the driver goes away
        S.append((14, 0, 0))
        if rng.random() < 0.5:
            S.append((7, 0, 0))
        S.append((15, rng.choice([1, 2, 3]), 0))
        if rng.random() < 0.5:
            S += [(5, 5, 0), (13, 0, 0), (15, rng.choice([1, 2]), 0)]
        S.append((10, rng.choice([0, 1]), 0))
    elif t == 2:
        # zero-copy send: byte count first, buffer only after the notification; drop points
        S.append((12, 0, rng.choice([1, 8, 64])))
        S.append((rng.choice([5, 5, 7, 8]), 0 if rng.random() < 0.5 else 5, 0))
        S += [(13, 0, 0), (6, 0, 0), (5, 5, 0), (6, 0, 0)]
        if rng.random() < 0.4:
            S.append((10, rng.choice([0, 1]), 0))
    elif t == 3:
        # submission queue overflow: more pushes than the queue holds, then cancels
        cap = rng.choice([1, 2])
        k = rng.randrange(3, 7)
        for i in range(k):
            S.append((rng.choice([1, 1, 2]), rng.randrange(2), rng.choice([1, 4, 8])))
        for _ in range(rng.randrange(1, 3)):
            S.append((rng.choice([8, 9]), rng.randrange(k), 0))
        S += [(4, 0, 5), (4, 1, 5), (5, 10, 0), (5, 5, 0)] + [(6, i, 0) for i in range(k)]
    elif t == 4:
        # blocking jobs around driver drop / handle drops
        k = rng.randrange(1, 4)
        for _ in range(k):
            S.append((3, rng.choice([0, 2, 10]), 0))
        S.append((rng.choice([5, 7, 10]), rng.choice([0, 1]), 0))
        S += [(5, 10, 0)] + [(6, i, 0) for i in range(k)]
    elif t == 6:
        # two descriptors of one socket, each with a pending receive, fewer chunks than waiters:
        # the loser must complete when new data arrives for it
        S += [(1, 0, 4), (18, 0, 4)]
        if rng.random() < 0.5:
            S.append((1, 0, 4))
        S += [(4, 0, rng.choice([1, 2])), (5, 10, 0), (5, 5, 0), (4, 0, rng.choice([1, 3])), (5, 10, 0), (5, 5, 0),
              (4, 0, 2)] + [(5, 10, 0), (5, 5, 0)] * 3 + [(6, 0, 0), (6, 1, 0), (6, 2, 0)]
    elif t == 7:
        # the waker of a pending operation is replaced before it completes
        S.append((rng.choice([1, 1, 3]), 0, 4))
        S += [(17, 0, 1), (5, 0, 0), (17, 0, 2)]
        if rng.random() < 0.5:
            S += [(5, 0, 0), (17, 0, 3)]
        S += [(4, 0, 3), (5, 10, 0), (5, 5, 0), (6, 0, 0)]
    elif t == 8:
        # a thread-pool job finishes while the driver keeps being woken
        k = rng.randrange(1, 3)
        for _ in range(k):
            S.append((3, rng.choice([0, 1, 3]), 0))
        # the job ends inside this poll (which returns on the worker's wake-up) ...
        S.append((5, rng.choice([20, 40]), 0))
        if rng.random() < 0.3:
            S.append((5, 10, 0))
        # ... and from then on the driver is always already notified when polled
        for _ in range(rng.randrange(3, 6)):
            S += [(16, 0, 0), (5, rng.choice([0, 5, 10]), 0)]
        S += [(6, i, 0) for i in range(k)]
    elif t == 9:
        # final completions sit unreaped in the completion queue when the driver goes away
        k = rng.randrange(1, 4)
        for i in range(k):
            S.append((rng.choice([1, 1, 2]), i % 2, 4))
        # the submission queue is handed to the kernel; nothing is ready yet
        S.append((5, rng.choice([0, 0, 5]), 0))
        for r in range(2):
            if rng.random() < 0.8:
                S.append((4, r, rng.choice([1, 2, 4])))
        if rng.random() < 0.4:
            S.append((7, rng.randrange(k), 0))
        if rng.random() < 0.2:
            S.append((rng.choice([8, 9]), rng.randrange(k), 0))
        S.append((10, rng.choice([0, 0, 1]), 0))
    else:
        # cancel after completion / twice, neighbours keep their data
        S += [(1, 0, 4), (1, 0, 4), (4, 0, 8), (5, 10, 0), (5, 5, 0)]
        S.append((rng.choice([8, 9]), rng.choice([0, 1]), 0))
        S.append((rng.choice([8, 9]), rng.choice([0, 1]), 0))
        S += [(6, 0, 0), (6, 1, 0)]
    case = [drv, cap, 2, len(S)]
    for (o, a, b) in S:
        case += [o, a, b]
    return case


def make(mode):
    class G:
        @staticmethod
        def generate(seed, n):
            rng = random.Random(seed * 1000003 + sum(map(ord, mode)) % 1000)
            return [templated(rng) if rng.random() < 0.3 else gen_program(rng, mode) for _ in range(n)]

        @staticmethod
        def describe(case):
            ops = case[4::3]
            return ("uring" if case[0] == 0 else "poll") + "/cap%d/" % case[1] + \
                ("cancel" if any(o in (8, 9) for o in ops) else "dropdriver" if 10 in ops else
                 "dropkey" if 7 in ops else "plain")

        @staticmethod
        def nontrivial(case, out):
            # at least one operation reached the kernel / a queue and something was freed
            if not out or out[0] == 99999:
                return False
            n = out[0]
            kinds = out[1:1 + 3 * n:3]
            return (3 in kinds or 14 in kinds or 11 in kinds) and 2 in kinds
    return G
