"""Case generator for C18 (dispatcher). Format: see harness/ext/src/bin/c18.rs.
[locked; workers; concurrent; broken_driver; join_mode; D; (n; (kind arg)*)*]"""
import random


def gen_case(rng):
    locked = 1 if rng.random() < 0.7 else 0
    workers = rng.randrange(1, 5)
    conc = rng.choice([0, 1])
    broken = 1 if rng.random() < 0.08 else 0
    join_mode = rng.choice([0, 0, 1, 1, 2])
    d = rng.randrange(1, 5)
    long_used = False
    threads = []
    total = 0
    for _ in range(d):
        n = rng.randrange(0, 5)
        prog = []
        for _ in range(n):
            r = rng.random()
            if r < 0.30:
                prog.append((0, 0))
            elif r < 0.55:
                prog.append((1, rng.randrange(1, 6)))
            elif r < 0.75:
                prog.append((2, rng.randrange(1, 4)))
            elif r < 0.84:
                prog.append((3, 0))
            elif r < 0.95 or long_used or join_mode == 1:
                prog.append((4, 0))
            else:
                prog.append((5, 0))
                long_used = True
        total += n
        threads.append(prog)
    if total == 0:
        threads[0].append((0, 0))
    case = [locked, workers, conc, broken, join_mode, d]
    for p in threads:
        case.append(len(p))
        for k, a in p:
            case += [k, a]
    return case


def generate(seed, n):
    rng = random.Random(seed * 104729 + 18)
    return [gen_case(rng) for _ in range(n)]


def describe(case):
    if len(case) < 6:
        return "other"
    return "%s,%s,join=%s%s" % (
        "replayed" if case[0] else "free-running", "concurrent" if case[2] else "sequential",
        ["at-once", "after-receivers", "after-3ms"][case[4]] if case[4] < 3 else "?",
        ",broken-driver" if case[3] else "")


def nontrivial(case, out):
    if not out or out[0] == 99999 or (out[:1] == [2] and len(out) == 2):
        return False
    n = out[0]
    return any(out[1 + 3 * i] == 2 for i in range(n))      # some closure was called
