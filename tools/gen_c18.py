"""Case generator for C18 (dispatcher). Format: see harness/ext/src/bin/c18.rs.
[locked; workers; concurrent; broken_driver; join_mode; D; (n; (kind arg)*)*]"""
import random


def gen_case(rng):
    locked = 1 if rng.random() < 0.7 else 0
    workers = rng.randrange(1, 5)
    conc = rng.choice([0, 1])
    broken = 1 if rng.random() < 0.08 else 0
    join_mode = rng.choice([0, 0, 1, 1, 2])
    d = rng.randrange(1, 5)
    long_used = False
    threads = []
    total = 0
    for _ in range(d):
        n = rng.randrange(0, 5)
        prog = []
        for _ in range(n):
            r = rng.random()
            if r < 0.30:
                prog.append((0, 0))
            elif r < 0.55:
                prog.append((1, rng.randrange(1, 6)))
            elif r < 0.75:
                prog.append((2, rng.randrange(1, 4)))
            elif r < 0.84:
                prog.append((3, 0))
            elif r < 0.95 or long_used or join_mode == 1:
                prog.append((4, 0))
            else:
                prog.append((5, 0))
                long_used = True
        total += n
        threads.append(prog)
    if total == 0:
        threads[0].append((0, 0))
    case = [locked, workers, conc, broken, join_mode, d]
    for p in threads:
        case.append(len(p))
        for k, a in p:
            case += [k, a]
    return case


def gen_sync_panic(rng):
    """closures that panic synchronously, before they have returned their future, with other closures
    accepted behind them (same worker when there is one worker): the panic must stay in the task"""
    locked = 1 if rng.random() < 0.7 else 0
    workers = rng.choice([1, 1, 1, 2, 3, 4])
    conc = rng.choice([0, 1])
    join_mode = rng.choice([1, 1, 1, 0, 2])
    d = rng.choice([1, 1, 2, 3])
    case = [locked, workers, conc, 0, join_mode, d]
    for t in range(d):
        prog = []
        for _ in range(rng.randrange(0, 3)):
            prog.append(rng.choice([(0, 0), (1, 2), (2, 1)]))
        if t == 0 or rng.random() < 0.5:
            prog.append((6, 0))
        for _ in range(rng.randrange(1, 5)):
            prog.append(rng.choice([(0, 0), (0, 0), (1, 3), (2, 1), (4, 0), (6, 0), (3, 0)]))
        case.append(len(prog))
        for k, a in prog:
            case += [k, a]
    return case


def gen_burst(rng):
    """more closures than one tick of the executor runs (61) picked up by one worker in a single poll
    of its loop — they pile up while the worker thread is blocked, or are simply dispatched in one go —
    and nothing wakes that worker afterwards: the receivers are awaited before join"""
    locked = 1 if rng.random() < 0.5 else 0
    workers = 1 if rng.random() < 0.8 else 2
    n = rng.choice([62, 63, 64, 70, 90, 122, 123, 124, 150, 183, 184, 200, 240])
    prog = []
    if rng.random() < 0.8:
        for _ in range(workers):
            prog.append((7, rng.choice([40, 60, 80])))        # every worker is busy while the burst arrives
    # only closures that return at once: a yielding or sleeping one would wake the worker again
    for _ in range(n):
        prog.append((0, 0))
    prog = prog[:255]
    case = [locked, workers, 1, 0, 1, 1, len(prog)]
    for k, a in prog:
        case += [k, a]
    return case


def generate(seed, n):
    rng = random.Random(seed * 104729 + 18)
    cases = []
    for _ in range(n):
        r = rng.random()
        if r < 0.07:
            cases.append(gen_sync_panic(rng))
        elif r < 0.11:
            cases.append(gen_burst(rng))
        else:
            cases.append(gen_case(rng))
    return cases


def _kinds(case):
    ks, p = [], 6
    for _ in range(case[5]):
        n = case[p]
        p += 1
        for _ in range(n):
            ks.append(case[p])
            p += 2
    return ks


def describe(case):
    if len(case) < 6:
        return "other"
    try:
        ks = _kinds(case)
    except IndexError:
        ks = []
    cls = ",burst>61" if len(ks) > 61 else (",sync-panic" if 6 in ks else "")
    return "%s,%s,join=%s%s%s" % (
        "replayed" if case[0] else "free-running", "concurrent" if case[2] else "sequential",
        ["at-once", "after-receivers", "after-3ms"][case[4]] if case[4] < 3 else "?",
        ",broken-driver" if case[3] else "", cls)


def nontrivial(case, out):
    if not out or out[0] == 99999 or (out[:1] == [2] and len(out) == 2):
        return False
    n = out[0]
    return any(out[1 + 3 * i] == 2 for i in range(n))      # some closure was called
