"""C10 — all buffer views obey one contract.

Oracle = the contract of the property text, executed on the implementation's printed
ranges only (gen_c10.Window / gen_c10.VSpec are the executable contract):
  * every printed state: as_init starts where as_uninit starts, len <= capacity, both inside
    the root allocation, initialised part inside the root's initialised prefix;
  * slicing/uninit() produce the documented sub-window;
  * a recorded fill (write k bytes at the start of the writable part, advance_to /
    advance_vec_to) makes exactly those bytes visible (root length = max(old, end of the
    written range)), every other cell and every other length unchanged;
  * Slice<Slice<T>>::flatten leaves every reported range as it was;
  * pool buffers: set_capacity(n) gives capacity min(n, full size) (nothing for 0), length
    min(length, capacity), content untouched; the view contract holds in every capacity state;
  * reserve: a fixed-capacity buffer (arrays, ArrayVec, pool buffer, VectoredBufIter) accepts a
    request iff it fits into capacity - initialised length; extend_from_slice / WriterRef::write
    then append exactly behind the initialised bytes, or report the error and change nothing;
    length <= capacity always, nothing outside the written range moves;
  * every view of the initialised bytes (as_init, as_mut_slice, Slice's DerefMut, the root's
    Deref / DerefMut) has the same offset and length;
  * no panic as long as the program stays inside the contract.
Programs that leave the contract (out-of-range begin/end, fills beyond the capacity, raw
set_len) are not judged from that point on.
"""
import json
import os
import re

import diffcheck
import gen_c10
import vlib
import gen_c10b
from gen_c10 import POOL, Leave, Member, VSpec, Window


class Cur:
    def __init__(self, v):
        self.v, self.i = v, 0

    def take(self):
        x = self.v[self.i]
        self.i += 1
        return x

    def take_n(self, n):
        if self.i + n > len(self.v):
            raise IndexError
        s = self.v[self.i:self.i + n]
        self.i += n
        return s

    def done(self):
        return self.i == len(self.v)


def is_bare_panic(out):
    return out[:1] == [2] and len(out) == 2


class Diverged(Exception):
    """the implementation's memory state has left the contract in a labelled class: what
    follows (views built on the diverged state, writes through them) is not judged"""


class Verdict:
    """collects tagged violations; a tag names the clause that failed and, when the failing
    state belongs to an input class already known to be defective, that class"""

    def __init__(self):
        self.items = []

    def add(self, tag, msg):
        if tag not in [t for t, _ in self.items]:
            self.items.append((tag, msg))

    def result(self):
        if not self.items:
            return None
        return "; ".join("[%s] %s" % (t, m) for t, m in self.items)


def check_member_dump(vd, o, m, idx, tag, cell_tag="contract"):
    rl, cp = o.take(), o.take()
    if m.kind == POOL:
        full = o.take()
        if full != m.full:
            vd.add("contract", "pool buffer: full size changed %d -> %d" % (m.full, full))
            return
        cells = o.take_n(full)
    else:
        cells = o.take_n(cp)
    if cp != m.cap:
        vd.add("contract", "member %d: capacity changed %d -> %d" % (idx, m.cap, cp))
        return
    if rl != m.rlen:
        vd.add(tag, "member %d: %d bytes initialised at the end, the recorded fills require %d"
               % (idx, rl, m.rlen))
    for i, (a, b) in enumerate(zip(cells, m.img)):
        if a != b:
            vd.add(cell_tag, "member %d: cell %d holds %d, expected %d (written where nothing was "
                               "recorded, or not written)" % (idx, i, a, b))
            break


# ---------------------------------------------------------------------------
# buffer cases

def window_print(vd, o, w, tag, resync=False):
    io, il, uo, uc, rl = o.take(), o.take(), o.take(), o.take(), o.take()
    m = w.m
    if resync:
        if rl > m.cap or rl < w.o:
            raise Leave
        m.rlen = rl
    eo, el, ec = w.rng()
    if io != uo:
        vd.add(tag, "as_init starts at %d, as_uninit at %d: the initialised bytes are not a prefix of "
                    "the writable region" % (io, uo))
    elif il > uc:
        vd.add(tag, "buf_len %d exceeds buf_capacity %d" % (il, uc))
    elif uo + uc > m.cap or rl > m.cap:
        vd.add(tag, "range [%d,%d) / length %d outside the allocation of %d bytes" % (uo, uo + uc, rl, m.cap))
    elif io + il > rl:
        vd.add(tag, "as_init [%d,%d) reaches beyond the root's %d initialised bytes" % (io, io + il, rl))
    elif (io, il, uc, rl) != (eo, el, ec, m.rlen):
        vd.add(tag, "view reports init (%d,%d) writable (%d,%d) root len %d; the contract gives "
                    "init (%d,%d) writable (%d,%d) root len %d" % (io, il, uo, uc, rl, eo, el, eo, ec, m.rlen))


def judge_buffer(case, out):
    c = Cur(case)
    if c.take() == 3:
        c.take()
        full = c.take()
        m = Member(POOL, 0, full, full)
    else:
        kind, ln, cap = c.take(), c.take(), c.take()
        m = Member(kind, ln, cap)
    ns = c.take()
    steps = [(c.take(), c.take(), c.take()) for _ in range(ns)]
    w = Window(m)
    vd = Verdict()
    bare = is_bare_panic(out)
    o = Cur(out)

    flags = {"bounded_advance": False}

    def tag():
        if w.filled_after_uninit:
            return "uninit-after-fill"
        if flags["bounded_advance"]:
            return "bounded-slice-advance"
        return "contract"

    try:
        if not bare:
            window_print(vd, o, w, tag())
        j = 0
        for (code, a, b) in steps:
            resync = False
            if code == 1:
                w.slice(a, None if b == 0 else b - 1)
            elif code == 2:
                w.uninit()
            elif code == 3:
                w.fill_to(j, a)
                j += 1
            elif code == 4:
                if w.E is not None and w.E < m.rlen:
                    # advance through a slice whose end lies inside the initialised bytes
                    flags["bounded_advance"] = True
                w.fill_adv(j, a)
                j += 1
            elif code == 5:
                if a > w.rng()[2]:
                    raise Leave
                w.write(j, a)
                if a > 0 and w.has_uninit:
                    w.filled_after_uninit = True
                j += 1
                resync = True
                if bare:
                    raise Leave
            elif code == 6:
                w.flatten()      # the window and every range stay as they are
            elif code in (8, 9, 10):
                ok = w.reserve_ok(a)
                grow = ok and m.growable() and a > m.cap - m.rlen
                if not bare:
                    res = o.take()
                    n = o.take() if code == 10 else None
                    if res != (0 if ok else 1):
                        vd.add(tag(), "%s(%d) with %d of %d bytes initialised (view: len %d, capacity %d) "
                                      "answered %s, expected %s"
                               % ({8: "extend_from_slice", 9: "reserve", 10: "WriterRef::write"}[code], a,
                                  m.rlen, m.cap, w.rng()[1], w.rng()[2], "Ok" if res == 0 else "an error",
                                  "Ok" if ok else "an error"))
                        return vd.result()
                    if code == 10 and n != (a if ok else 0):
                        vd.add(tag(), "WriterRef::write reported %d bytes, expected %d" % (n, a if ok else 0))
                    if grow:
                        # the new capacity is the allocator policy's business: read it from the
                        # next print (writable end of an end-less view), it must hold the request
                        nxt = o.v[o.i:o.i + 5]
                        newcap = nxt[2] + nxt[3] if len(nxt) == 5 else 0
                        if newcap < m.rlen + a:
                            vd.add(tag(), "reserve(%d) succeeded but the capacity is %d for %d initialised "
                                          "bytes" % (a, newcap, m.rlen))
                            return vd.result()
                        m.grow(newcap)
                elif grow:
                    raise Leave      # capacity unknown without the output
                if code != 9:
                    if ok:
                        w.extend(j, a)
                    j += 1
            elif code == 11:
                eo, el, _ = w.rng()
                if not bare:
                    got = [tuple(o.take_n(2)) for _ in range(4)]
                    exp = [(eo, el), (eo, el), (0, m.rlen), (0, m.rlen)]
                    if got != exp:
                        names = ["as_mut_slice", "Slice::deref_mut / as_init", "root Deref", "root DerefMut"]
                        bad = [("%s (%d,%d) expected (%d,%d)" % (names[i], *got[i], *exp[i]))
                               for i in range(4) if got[i] != exp[i]]
                        vd.add(tag(), "views of the initialised bytes disagree: " + "; ".join(bad))
                        return vd.result()
                m.bump(eo, el)
            elif code == 12:
                m.bump(0, m.rlen)
            elif code == 7:
                # shrinking the capacity below bytes a view covers is not a use of the view
                if w.layers and a != 0 and min(a, m.full) < m.rlen:
                    raise Leave
                m.set_capacity(a)
            if not bare:
                window_print(vd, o, w, tag(), resync)
    except Leave:
        return vd.result()
    if bare:
        vd.add(tag() if tag() != "contract" else "panic",
               "panic/abort (code %d) although every step stays inside the contract" % out[1])
        return vd.result()
    check_member_dump(vd, o, m, 0, tag(), tag())
    return vd.result()


# ---------------------------------------------------------------------------
# vectored cases

def read_vprint(o):
    if o.take() != 7:
        raise IndexError
    res = []
    for _ in range(2):
        n = o.take()
        res.append([tuple(o.take_n(3)) for _ in range(n)])
    return res


def judge_vectored(case, out):
    c = Cur(case)
    c.take()
    cont, nm = c.take(), c.take()
    specs = [(c.take(), c.take(), c.take()) for _ in range(nm)]
    ns = c.take()
    steps = [(c.take(), c.take()) for _ in range(ns)]
    ms = [Member(*s) for s in specs]
    v = VSpec(ms)
    vd = Verdict()
    bare = is_bare_panic(out)
    o = Cur(out)
    # input classes met so far (they only LABEL a deviation, they never excuse one that
    # does not occur): see KNOWN_TAGS
    st = {"it": None, "diverged": None, "suspect": None, "next_partial": False,
          "uninit_offset": False}

    def general_tag():
        t = (st["diverged"] or ("viter-next-partial" if st["next_partial"] else None) or st["suspect"]
             or ("vslice-uninit-offset" if st["uninit_offset"] else None) or "contract")
        if t != "contract":
            st["diverged"] = t
        return t

    def vprint():
        if v.uninit_offset():
            st["uninit_offset"] = True
        if bare:
            return
        li, lu = read_vprint(o)
        if li != v.init_ranges() or lu != v.uninit_ranges():
            t = general_tag()
            vd.add(t, "vectored view reports init %r writable %r; the contract gives %r / %r"
                   % (li, lu, v.init_ranges(), v.uninit_ranges()))
            if t != "contract":
                raise Diverged

    def iprint():
        it = st["it"]
        if bare:
            return
        if o.take() != 8:
            raise IndexError
        mi, io, il, uo, uc = o.take_n(5)
        w = it["win"]
        eo, el, ec = w.rng()
        if mi == it["idx"] and (io, il, uo, uc) == (eo, el, eo, ec):
            return
        stop = False
        if it["filled"]:
            t = "viter-after-fill"
        elif w.filled_after_uninit:
            t = "uninit-after-fill"
        else:
            t = general_tag()
            stop = t != "contract"
        if mi != it["idx"]:
            vd.add(t, "iterator is at member %d, expected %d" % (mi, it["idx"]))
        elif io != uo:
            vd.add(t, "view over VectoredBufIter: as_init starts at %d, as_uninit at %d: the initialised "
                      "bytes are not a prefix of the writable region" % (io, uo))
        else:
            vd.add(t, "view over VectoredBufIter reports init (%d,%d) writable (%d,%d); the contract gives "
                      "(%d,%d) / (%d,%d)" % (io, il, uo, uc, eo, el, eo, ec))
        if stop:
            raise Diverged

    def enter_member(idx, off):
        st["it"] = {"idx": idx, "win": Window(ms[idx], off), "filled": False, "off": off}
        st["it"]["win"].fixed_base = True

    def recorded(fill, cls):
        """run a recorded fill of the contract; label it when the members are not in
        sequential-fill order before or after it"""
        before = v.nonseq()
        fill()
        if (before or v.nonseq()) and st["suspect"] is None:
            st["suspect"] = cls

    try:
        vprint()
        j = 0
        for (code, a) in steps:
            it = st["it"]
            if it is None:
                if code == 0:
                    pass
                elif code in (1, 2):
                    v.slice(a, code == 2)
                elif code == 3:
                    tl = v.total_len()
                    recorded(lambda: v.fill(j, a),
                             "advance-vec-to-noop" if a <= tl else "vectored-set-len-by-capacity")
                    j += 1
                elif code == 4:
                    raise Leave
                elif code == 5:
                    if v.f >= len(ms):
                        if not bare and o.take() != 9:
                            vd.add("contract", "owned_iter of an empty vectored view did not return Err")
                    else:
                        enter_member(v.f, v.off)
                else:
                    return None  # rejected by both sides
            else:
                w = it["win"]
                if code in (6, 9):
                    if it["filled"] and st["diverged"] is None:
                        # refill through an iterator whose as_init no longer starts at 0
                        st["diverged"] = "viter-after-fill"
                    if w.filled_after_uninit and st["diverged"] is None:
                        st["diverged"] = "uninit-after-fill"
                    if code == 9 and w.E is not None and w.E < w.m.rlen and st["suspect"] is None:
                        st["suspect"] = "bounded-slice-advance"
                    o_before, l_before = w.rng()[0], w.rng()[1]
                    if any(x.rlen > 0 for x in ms[it["idx"] + 1:]) and st["suspect"] is None:
                        # the iterator hands total_filled + k to the container's set_len as the
                        # total length of the whole vectored buffer
                        st["suspect"] = "vectored-set-len-by-capacity"
                    recorded(lambda: (w.fill_to if code == 6 else w.fill_adv)(j, a),
                             "vectored-set-len-by-capacity")
                    j += 1
                    # did a set_len(x), x > 0, reach the iterator?  advance_to(k) calls set_len(k)
                    # when k > len, advance(k) always calls set_len(len + k); every Slice/Uninit
                    # layer adds its begin (window offset relative to the member's view)
                    rel = o_before - it["off"]
                    if (code == 6 and a > l_before and rel + a > 0) or (code == 9 and rel + l_before + a > 0):
                        it["filled"] = True
                elif code == 7:
                    raise Leave
                elif code == 8:
                    if w.has_uninit or w.o != it["off"] or w.E is not None:
                        return None  # rejected by both sides (wrappers present)
                    if ms[it["idx"]].cap - it["off"] > 0:
                        st["next_partial"] = True
                    if it["idx"] + 1 < len(ms):
                        enter_member(it["idx"] + 1, 0)
                    else:
                        st["it"] = None
                        if not bare and o.take() != 9:
                            vd.add("contract", "next() past the last member did not return Err")
                elif code == 13:
                    if it["filled"] and st["diverged"] is None:
                        st["diverged"] = "viter-after-fill"
                    if w.filled_after_uninit and st["diverged"] is None:
                        st["diverged"] = "uninit-after-fill"
                    ok = w.reserve_ok(a)
                    if not bare:
                        res = o.take()
                        if res != (0 if ok else 1):
                            t = general_tag()
                            vd.add(t, "extend_from_slice(%d) through VectoredBufIter (member: %d of %d bytes "
                                      "initialised) answered %s" % (a, w.m.rlen, w.m.cap,
                                                                    "Ok" if res == 0 else "an error"))
                            return vd.result()
                    if ok:
                        o_before, l_before = w.rng()[0], w.rng()[1]
                        if it["filled"] and st["diverged"] is None:
                            st["diverged"] = "viter-after-fill"
                        if any(x.rlen > 0 for x in ms[it["idx"] + 1:]) and st["suspect"] is None:
                            st["suspect"] = "vectored-set-len-by-capacity"
                        recorded(lambda: w.extend(j, a), "vectored-set-len-by-capacity")
                        if (o_before - it["off"]) + l_before + a > 0 and a > 0:
                            it["filled"] = True
                    j += 1
                elif code == 10:
                    w.slice(a, None)
                elif code == 11:
                    w.uninit()
                elif code == 12:
                    w.slice(0, a)
                else:
                    return None
            if st["it"] is None:
                vprint()
            else:
                iprint()
    except (Leave, Diverged):
        return vd.result()
    it = st["it"]
    if bare:
        if st["uninit_offset"]:
            t = "vslice-uninit-offset"
        elif st["next_partial"]:
            t = "viter-next-partial"
        elif it is not None and it["filled"]:
            t = "viter-after-fill"
        elif it is not None and it["win"].filled_after_uninit:
            t = "uninit-after-fill"
        else:
            t = st["diverged"] or st["suspect"] or "panic"
        vd.add(t, "panic/abort (code %d) although every step stays inside the contract" % out[1])
        return vd.result()
    probe = Verdict()
    for i, m in enumerate(ms):
        check_member_dump(probe, o, m, i, "LEN%d" % i, "CELL%d" % i)
    for t, msg in probe.items:
        if t.startswith("LEN"):
            vd.add(general_tag(), msg)
        elif t.startswith("CELL"):
            # a cell differs: only a refill through a diverged view writes elsewhere
            vd.add(st["diverged"] if st["diverged"] in ("viter-after-fill", "uninit-after-fill") else "contract", msg)
        else:
            vd.add(t, msg)
    return vd.result()


def oracle(case, out):
    if out[:1] == [99999]:
        return None
    try:
        if case[0] in (1, 3):
            return judge_buffer(case, out)
        if case[0] == 2:
            return judge_vectored(case, out)
        return None
    except IndexError:
        return "[contract] malformed result %r" % (out,)


# ---------------------------------------------------------------------------
# known findings (D6 class): tag of the failing clause -> id, most specific first

KNOWN_TAGS = [
    ("viter-next-partial", "C10-vectored-iter-next-partial"),
    ("vectored-set-len-by-capacity", "C10-vectored-set-len-by-capacity"),
    ("advance-vec-to-noop", "C10-advance-vec-to-noop"),
    ("vslice-uninit-offset", "C10-vectored-slice-uninit-offset"),
    ("viter-after-fill", "C10-vectored-iter-init-not-prefix"),
    ("uninit-after-fill", "C10-uninit-after-fill"),
    ("bounded-slice-advance", "C10-bounded-slice-advance-truncates"),
]


def case_steps(case):
    if case[0] in (1, 3):
        p = 4 if case[0] == 1 else 3
        ns = case[p]
        return [case[p + 1 + 3 * i] for i in range(ns)]
    nm = case[2]
    p = 3 + 3 * nm
    return [case[p + 1 + 2 * i] for i in range(case[p])]


def known(case, out, what):
    tags = re.findall(r"\[([a-z-]+)\]", what or "")
    ids = dict(KNOWN_TAGS)
    if not tags or any(t not in ids for t in tags):
        return None
    try:
        codes = case_steps(case)
    except IndexError:
        return None
    # each class is tied to the input shape that produces it
    need = {
        "viter-next-partial": lambda: case[0] == 2 and 5 in codes and 8 in codes,
        "vectored-set-len-by-capacity": lambda: case[0] == 2 and (3 in codes or 5 in codes),
        "advance-vec-to-noop": lambda: case[0] == 2 and 3 in codes,
        "vslice-uninit-offset": lambda: case[0] == 2 and (1 in codes or 2 in codes),
        "viter-after-fill": lambda: case[0] == 2 and 5 in codes and (6 in codes or 9 in codes or 13 in codes),
        "uninit-after-fill": lambda: (11 if case[0] == 2 else 2) in codes,
        "bounded-slice-advance": lambda: ((12 in codes and 9 in codes) if case[0] == 2
                                          else (1 in codes and 4 in codes)),
    }
    if not all(need[t]() for t in tags):
        return None
    for t, kid in KNOWN_TAGS:
        if t in tags:
            return kid
    return None


MANIFEST = dict(
    text="Unbounded Coq theorems (structural induction over every nesting of Slice/Uninit views, every root "
         "kind/length/capacity incl. pool buffers (BufferRef) in every capacity state, every fill list; induction "
         "over member lists for Vec<T> vectored buffers; Slice<Slice<T>>::flatten denotes the same view for all "
         "begin/end combinations in every state; BufferRef::set_capacity keeps len <= cap <= full size) about an "
         "executable model of compio-buf's views; the model is tied to the code on every run by an exact "
         "differential correspondence (6 root kinds + real BufferRefs from the fallback and the io_uring pool, 3 "
         "container kinds, VectoredSlice, VectoredBufIter, the real flatten) plus an independent contract oracle.",
    note="Trusted: Coq kernel; ExtrOcamlBasic extraction + OCaml driver; harnesses pure/c10.rs and rt/c10b.rs (enum "
         "nesting of the real view types, shared module pure/src/c10_node.rs; offsets as pointer differences to the "
         "root base; the nested Slice<Slice<_>> handed to the real flatten is rebuilt with slice(0..) + "
         "set_begin_unchecked + set_end); exact with_capacity of Vec/BytesMut/SmallVec (asserted by the harness); "
         "set_len beyond capacity = Vec abort under debug assertions, SmallVec silent UB trapped by the harness. "
         "Vectored theorems cover the unsliced Vec<T> container and the first VectoredBufIter fill; sliced vectored "
         "views, tuple containers and later iterator positions are covered by the correspondence and by refutation "
         "witnesses only. Pool buffers are obtained with BufferPool::take (no kernel-selected buffer). The "
         "full-strength statements are false in 7 classes (known findings, each with a vm_compute witness). Fixed "
         "defect: BufferRef::set_capacity truncated its argument to 32 bits (f24a030). No axioms. No "
         "release-profile pass: out-of-contract set_len is silent UB in release.",
    technique="Coq proof (structural induction over view nestings and fill lists) + extracted-model differential "
              "correspondence")


class C10(diffcheck.DiffProp):
    pid = "C10"
    evidence_name = "C10_views"
    corpus_name = "C10"
    manifest = MANIFEST
    prop_file = "prop/C10.v"
    model_name = "c10"
    harness_bin = "c10"
    package = "pure"
    gen = gen_c10
    counts = {"quick": 2400, "thorough": 40000}
    # a release-profile pass is not comparable here: out-of-contract set_len beyond the capacity
    # traps only under debug assertions (release: silent UB), and every in-contract step is
    # free of overflow arithmetic
    thorough_release = False
    rule = ("cases = corpus (D6-class witnesses) + random programs: 55% buffer cases (6 root kinds, "
            "capacities 0..16, 1..8 steps of slice/uninit/fill+advance_to/fill+advance/set_len/flatten, a quarter "
            "of them biased to nested slices with begin > 0 and ends None/inside/beyond the outer window), 45% "
            "vectored cases (Vec<T> and tuple containers of 0..4 members, slice/slice_mut/vectored "
            "fill+advance_vec_to/owned_iter/next/views over the iterator); 70% in-contract, 30% "
            "adversarial; distinct = distinct case lines; non-trivial = not rejected, no bare panic, "
            "at least one fill with a non-zero count")
    trusted_base = [
        "Coq 8.16.1 kernel (coqc, full .vo build); vm_compute only in witness/example lemmas",
        "extraction: ExtrOcamlBasic only, no Extract Constant; coq/extract/driver.ml; ocamlfind ocamlopt",
        "harness/pure/src/bin/c10.rs (run-time nesting enum around the real Slice/Uninit/VectoredSlice/"
        "VectoredBufIter; offsets = pointer differences to the root allocation's base), tools/gen_c10.py "
        "(generator + executable contract), tools/p_c10.py oracle, tools/diffcheck.py",
        "set_len beyond the capacity: Vec aborts through std's debug precondition check, BytesMut/ArrayVec/"
        "array impls through debug_assert!; SmallVec has no check (silent UB) and is trapped by the harness",
        "exact capacities of Vec::with_capacity / BytesMut::with_capacity / SmallVec::with_capacity "
        "(asserted by the harness)",
    ]
    assumptions = [
        "an I/O operation writes at the start of as_uninit() / iter_uninit_slice() in order and records "
        "the count with advance_to / advance_vec_to (compio-driver op/ext.rs); the harness does exactly that",
        "vectored members are root buffers (each its own allocation), not nested views",
        "debug profile (debug assertions on); memmap2, bumpalo, BorrowedBuf are not built",
    ]

    def oracle(self, case, out):
        return oracle(case, out)

    def known(self, case, out, what):
        return known(case, out, what)


class C10Pool(C10):
    """pool buffers: the same buffer-case programs over real BufferRefs (harness rt/c10b)"""
    evidence_name = "C10_pool"
    corpus_name = "C10b"
    harness_bin = "c10b"
    package = "rt"
    gen = gen_c10b
    counts = {"quick": 600, "thorough": 12000}
    rule = ("cases = corpus + random programs over a fresh BufferRef (fallback pool of the polling driver / "
            "io_uring buffer ring, full size 1..64): slice/uninit/fills/flatten as in the view part plus "
            "set_capacity(n) in every order (below the current length, back up, 0, beyond the full size, beyond "
            "2^32); distinct/non-trivial as in the view part")
    trusted_base = C10.trusted_base + [
        "harness/rt/src/bin/c10b.rs: Proactor with buffer_pool_size 2 and buffer_pool_buffer_len = full size, "
        "BufferPool::take; the buffer is pre-filled with canaries through as_uninit; base pointer and full size "
        "from BufferRef::verif_identity (cfg(compio_verif) hook 7b11a8d)",
    ]
    assumptions = C10.assumptions + [
        "a BufferRef taken with BufferPool::take behaves like one selected by the kernel (same type, len 0, "
        "cap = full size)",
    ]


class C10All:
    """C10 = views over ordinary buffers (harness pure/c10) + the same over pool buffers
    (harness rt/c10b); one model (run_c10), one property file, one evidence file"""
    pid = "C10"
    manifest = MANIFEST
    prop_file = "prop/C10.v"
    model_name = "c10"
    harness_bin = "c10"
    package = "pure"
    model_names = ["c10"]
    harness_bins = [("c10", "pure"), ("c10b", "rt")]

    def __init__(self):
        self.parts = [C10(), C10Pool()]
        self.gen = self.parts[0].gen

    def oracle(self, case, out):
        return oracle(case, out)

    def known(self, case, out, what):
        return known(case, out, what)

    def run(self, tier, seed, replay=None):
        return diffcheck.run_multi("C10", self.parts, tier, seed, replay)


PROP = C10All()
