"""C11 — I/O helpers are invariant under chunking and transient errors."""
import diffcheck
import gen_c11


def canary(i):
    return 128 + (i % 100)


class Cur:
    def __init__(self, v):
        self.v, self.i = v, 0

    def take(self):
        x = self.v[self.i]
        self.i += 1
        return x

    def take_n(self, n):
        if self.i + n > len(self.v):
            raise IndexError
        s = self.v[self.i:self.i + n]
        self.i += n
        return s

    def bytes(self):
        return self.take_n(self.take())

    def sched(self):
        n = self.take()
        s = self.take_n(2 * n)
        return [(s[2 * i], s[2 * i + 1]) for i in range(n)]

    def rest(self):
        s = self.v[self.i:]
        self.i = len(self.v)
        return s


def dec_vec(o, cap0):
    """[len cap init.. spare..] -> (len, cap, init, spare or None)"""
    ln, cap = o.take(), o.take()
    init = o.take_n(ln)
    spare = o.take_n(cap - ln) if cap == cap0 else None
    return ln, cap, init, spare


def vec_check(name, ln0, cap0, got, written_at, data):
    """reference for a Vec filled with `data` at offset `written_at`:
    content before/after the written range is preserved (canaries)"""
    ln, cap, init, spare = got
    full = init + (spare if spare is not None else [])
    exp_len = max(ln0, written_at + len(data)) if data else ln0
    if ln != exp_len:
        return "%s: length %d, expected %d" % (name, ln, exp_len)
    for i, b in enumerate(full):
        if written_at <= i < written_at + len(data):
            e = data[i - written_at]
        elif spare is not None or i < ln0:
            e = canary(i)
        else:
            continue
        if b != e:
            return "%s: byte %d is %d, expected %d" % (name, i, b, e)
    return None


def sink_of(o):
    """decode an event log: returns (bytes, events)"""
    n = o.take()
    bs, evs = [], []
    for _ in range(n):
        t = o.take()
        if t == 1:
            d = o.bytes()
            bs += d
            evs.append(("w", d))
        elif t == 2:
            evs.append(("f",))
        elif t == 3:
            evs.append(("s",))
        else:
            raise IndexError
    return bs, evs


def oracle(case, out):
    if out[:1] == [99999]:
        return None
    if out[:1] == [2] and len(out) == 2:
        if case[0] == 8 and out[1] == 3 and _has_consume(case):
            # AsyncBufRead::consume beyond the window is a caller error (assert);
            # whether this program commits it is decided by the correspondence
            return None
        return "panic/abort (code %d) instead of a result" % out[1]
    try:
        return _oracle(case, out)
    except IndexError:
        return "malformed result %r" % (out,)


def _has_consume(case):
    c = Cur(case)
    c.take(); c.take()
    no = c.take()
    for _ in range(no):
        t = c.take()
        if t == 1:
            c.take(); c.take()
        elif t == 3:
            if c.take() > 0:
                return True
    return False


def _oracle(case, out):
    c, o = Cur(case), Cur(out)
    op = c.take()
    st, val = o.take(), o.take()
    if op in (1, 2, 3):
        ln0, cap0 = c.take(), c.take()
        sc = c.sched() if op != 3 else [(c.take(), c.take())]
        src = c.rest()
        got = dec_vec(o, cap0)
        remaining = o.take()
        consumed = len(src) - remaining
        kinds = {a for (k, a) in sc if k == 1}
        if consumed < 0:
            return "negative consumption"
        if op == 1:
            r = vec_check("read_exact", ln0, cap0, got, 0, src[:consumed])
            if r:
                return r
            if st == 0 and consumed != cap0:
                return "read_exact Ok but %d of %d bytes placed" % (consumed, cap0)
            if st == 1 and val != 1 and val not in kinds:
                return "read_exact error kind %d never produced by the stream" % val
            if st == 1 and consumed == cap0 and cap0 > 0 and val == 1:
                return "read_exact reports UnexpectedEof though the buffer was filled"
        elif op == 2:
            r = vec_check("read_to_end", ln0, cap0, got, ln0, src[:consumed])
            if r:
                return r
            if st == 0 and val != consumed:
                return "read_to_end count %d but %d bytes consumed" % (val, consumed)
            if st == 1 and val not in kinds:
                return "read_to_end error kind %d never produced by the stream" % val
        else:
            r = vec_check("append", ln0, cap0, got, ln0, src[:consumed])
            if r:
                return r
            if st == 0 and val != consumed:
                return "append count mismatch"
    elif op == 4:
        sc = c.sched()
        data = c.rest()
        bs, _ = sink_of(o)
        if bs != data[:len(bs)]:
            return "write_all: sink is not a prefix of the data"
        if st == 0 and len(bs) != len(data):
            return "write_all Ok but only %d of %d bytes written" % (len(bs), len(data))
        kinds = {a for (k, a) in sc if k == 1}
        if st == 1 and val != 2 and val not in kinds:
            return "write_all error kind %d never produced" % val
    elif op == 5:
        bsz = c.take()
        rs, ws = c.sched(), c.sched()
        src = c.rest()
        bs, evs = sink_of(o)
        remaining = o.take()
        consumed = len(src) - remaining
        if bs != src[:len(bs)]:
            return "copy: sink is not a prefix of the source"
        if st == 0:
            if len(bs) != consumed or val != consumed:
                return "copy Ok: consumed %d, sank %d, reported %d" % (consumed, len(bs), val)
            # reference reader: copy may only report success at the reader's end-of-file
            pos, i, stopped = 0, 0, False
            while i < len(rs) and bsz > 0:
                kind, n = rs[i]
                i += 1
                if kind == 0:
                    k = min(n, bsz, len(src) - pos)
                    if k == 0:
                        break
                    pos += k
                elif kind == 1:
                    if n != 3:      # not Interrupted: copy must have failed
                        stopped = True
                        break
                else:
                    break
            if bsz > 0 and not stopped and consumed != pos:
                return ("copy reported success after %d bytes, but the reader delivers %d bytes before its "
                        "end-of-file (the rest of the stream was silently dropped)" % (consumed, pos))
            if evs[-2:] != [("f",), ("s",)]:
                return "copy Ok without final flush+shutdown"
            if consumed == 0 and src and rs and rs[0][0] == 0 and rs[0][1] > 0:
                return "copy reported success but copied nothing although the source had data (false EOF)"
    elif op == 6:
        limit = c.take()
        nr = c.take()
        reads = [(c.take(), c.take()) for _ in range(nr)]
        c.sched()
        src = c.rest()
        p = 0
        for (l0, cp0) in reads:
            got = dec_vec(o, cp0)
            if p >= limit and (st, val) != (0, 0):
                return ("Take at its limit must answer end-of-file itself, got %r "
                        "(the inner reader was consulted again)" % ((st, val),))
            k = val if st == 0 else 0
            r = vec_check("take.read", l0, cp0, got, 0, src[p:p + k])
            if r:
                return r
            p += k
            if o.i < len(o.v) - 2:
                st, val = o.take(), o.take()
        if p > limit:
            return "take delivered %d bytes, limit %d" % (p, limit)
        lim_left, remaining = o.take(), o.take()
        if lim_left != limit - p:
            return "take limit bookkeeping: %d left, expected %d" % (lim_left, limit - p)
        if len(src) - remaining != p:
            return "take consumed %d from the source but delivered %d" % (len(src) - remaining, p)
    elif op == 7:
        cap = c.take()
        no = c.take()
        ops = []
        for _ in range(no):
            t = c.take()
            if t == 4:
                # write_vectored: accepted bytes are a prefix of the concatenated segments
                ops.append((1, sum((c.bytes() for _ in range(c.take())), [])))
            else:
                ops.append((t, c.bytes() if t == 1 else None))
        accepted = []
        results = [(st, val)]
        for _ in range(no - 1):
            results.append((o.take(), o.take()))
        for (t, d), (s, v) in zip(ops, results):
            if t == 1 and s == 0:
                if v > len(d):
                    return "BufWriter accepted more than offered"
                accepted += d[:v]
        bs, evs = sink_of(o)
        pending = o.bytes()
        if bs + pending != accepted:
            return ("BufWriter: sink (%d bytes) ++ pending (%d) differs from the %d bytes accepted "
                    "(lost, duplicated or reordered)" % (len(bs), len(pending), len(accepted)))
        t, (s, v) = ops[-1][0], results[-1]
        if t == 2 and s == 0:
            if pending:
                return "BufWriter flush Ok but %d bytes still buffered" % len(pending)
            if not evs or evs[-1] != ("f",):
                return "BufWriter flush Ok but the inner writer was not flushed"
    elif op == 8:
        cap = c.take()
        no = c.take()
        ops = []
        for _ in range(no):
            t = c.take()
            if t == 1:
                ops.append((1, c.take(), c.take()))
            elif t == 2:
                ops.append((2, 0, 0))
            else:
                ops.append((3, c.take(), 0))
        sc = c.sched()
        src = c.rest()
        p = 0
        window = 0
        first = True
        for (t, a, b) in ops:
            if not first:
                st, val = o.take(), o.take()
            first = False
            if st == 2:
                # a panic: legitimate only for consume beyond the window
                if t == 3 and a > window:
                    return None
                return "BufReader panicked"
            if t == 1:
                got = dec_vec(o, b)
                k = val if st == 0 else 0
                r = vec_check("BufReader.read", a, b, got, 0, src[p:p + k])
                if r:
                    return r
                p += k
                window = 0
            elif t == 2:
                if st == 0:
                    w = o.take_n(val)
                    if w != src[p:p + len(w)]:
                        return "BufReader.fill_buf window is not the next bytes of the stream"
                    window = len(w)
            else:
                p += a
                window -= a
        remaining = o.take()
        if len(src) - remaining < p:
            return "BufReader handed out more than it consumed"
        if (p == 0 and remaining == len(src) and src and sc and all(k == 0 and a > 0 for (k, a) in sc)
                and any(t == 1 and b > 0 for (t, a, b) in ops)):
            return "BufReader reported end-of-file although the stream had data (false EOF)"
    elif op == 10:
        l0, cp0 = c.take(), c.take()
        this = c.rest()
        got = dec_vec(o, cp0)
        k = min(len(this), cp0)
        if st != 0 or val != k:
            return "&[u8]::read returned %r, expected Ok(%d)" % ((st, val), k)
        r = vec_check("&[u8]::read", l0, cp0, got, 0, this[:k])
        if r:
            return r
        if o.take() != len(this) - k:
            return "&[u8]::read: source not advanced by n"
    elif op == 11:
        l0, cp0 = c.take(), c.take()
        pos = c.take()
        this = c.rest()
        got = dec_vec(o, cp0)
        s = this[min(pos, len(this)):]
        k = min(len(s), cp0)
        if st != 0 or val != k:
            return "[u8]::read_at returned %r, expected Ok(%d)" % ((st, val), k)
        return vec_check("[u8]::read_at", l0, cp0, got, 0, s[:k])
    elif op in (12, 13):
        pos = c.take() if op == 13 else 0
        nm = c.take()
        caps = c.take_n(nm)
        this = c.rest()
        s = this[min(pos, len(this)):]
        k = min(len(s), sum(caps))
        if st != 0 or val != k:
            return "vectored mem read returned %r, expected Ok(%d)" % ((st, val), k)
        p = 0
        for cp in caps:
            got = dec_vec(o, cp)
            n = min(cp, len(s) - p)
            r = vec_check("vectored member", 0, cp, got, 0, s[p:p + n])
            if r:
                return r
            p += n
    elif op in (14, 15, 16, 17):
        cap = c.take()
        content = c.bytes()
        pos = len(content)
        if op in (16, 17):
            pos = c.take()
        if op in (14, 16):
            data = c.rest()
        else:
            n = c.take()
            data = []
            for _ in range(n):
                data += c.bytes()
        exp = list(content)
        if pos > len(exp):
            exp += [0] * (pos - len(exp))
        exp[pos:pos + len(data)] = data
        if st != 0 or val != len(data):
            return "Vec write returned %r, expected Ok(%d)" % ((st, val), len(data))
        ln = o.take()
        got = o.take_n(ln)
        if got != exp:
            return "Vec write: content %r, expected %r" % (got, exp)
    elif op == 18:
        d = c.bytes()
        pos = c.take()
        data = c.rest()
        p = min(pos, len(d))
        n = min(len(data), len(d) - p)
        exp = list(d)
        exp[p:p + n] = data[:n]
        if st != 0 or val != n:
            return "[u8]::write_at returned %r, expected Ok(%d)" % ((st, val), n)
        ln = o.take()
        if o.take_n(ln) != exp:
            return "[u8]::write_at content mismatch"
    elif op == 19:
        b = c.take()
        l0, cp0 = c.take(), c.take()
        got = dec_vec(o, cp0)
        if st != 0 or val != cp0:
            return "Repeat::read returned %r, expected Ok(%d)" % ((st, val), cp0)
        return vec_check("Repeat::read", l0, cp0, got, 0, [b] * cp0)
    elif op in (20, 21, 22):
        return _oracle_vectored(op, c, o, st, val)
    return None


def take_members(c):
    nm = c.take()
    return [(c.take(), c.take()) for _ in range(nm)]


def nonseq(ms):
    """some member with spare capacity is followed by a non-empty one"""
    gap = False
    for ln, cp in ms:
        if gap and ln > 0:
            return True
        if ln < cp:
            gap = True
    return False


def members_check(name, ms, o, data):
    """the first len(data) bytes of the concatenated CAPACITIES hold data, in member order,
    from offset 0 of every member; every other cell and every length not covered is unchanged"""
    p = 0
    for i, (ln, cp) in enumerate(ms):
        got = dec_vec(o, cp)
        chunk = data[p:p + cp]
        r = vec_check("%s member %d" % (name, i), ln, cp, got, 0, chunk)
        if r:
            return r
        p += cp
    return None


def _oracle_vectored(op, c, o, st, val):
    if op == 20:
        ms = take_members(c)
        sc = c.sched()
        src = c.rest()
        total = sum(cp for _, cp in ms)
        # the members come first in the output, then the unconsumed source
        mark = o.i
        for _, cp in ms:
            dec_vec(o, cp)
        remaining = o.take()
        consumed = len(src) - remaining
        if consumed < 0 or consumed > total:
            return "read_vectored_exact consumed %d bytes for a total capacity of %d" % (consumed, total)
        o.i = mark
        r = members_check("read_vectored_exact", ms, o, src[:consumed])
        if r:
            return r
        kinds = {a for (k, a) in sc if k == 1 and a != 3}
        if st == 0 and (consumed != total or val != total):
            return ("read_vectored_exact Ok but %d of %d bytes of capacity filled (members with spare "
                    "capacity left unfilled)" % (consumed, total))
        if st == 1 and val == 3:
            return "read_vectored_exact surfaced Interrupted instead of retrying"
        if st == 1 and val != 1 and val not in kinds:
            return "read_vectored_exact error kind %d never produced by the stream" % val
        if st == 1 and val == 1 and consumed == total and total > 0:
            return "read_vectored_exact reports UnexpectedEof though the whole capacity was filled"
    elif op == 21:
        pos = c.take()
        ms = take_members(c)
        this = c.rest()
        s = this[min(pos, len(this)):]
        total = sum(cp for _, cp in ms)
        if len(s) >= total:
            if st != 0 or val != total:
                return "read_vectored_exact_at returned %r, expected Ok (capacity %d)" % ((st, val), total)
            return members_check("read_vectored_exact_at", ms, o, s[:total])
        if st != 1 or val != 1:
            return ("read_vectored_exact_at returned %r for a source of %d bytes and a capacity of %d, expected "
                    "UnexpectedEof" % ((st, val), len(s), total))
        return members_check("read_vectored_exact_at", ms, o, s)
    else:
        ms = take_members(c)
        kind, arg = c.take(), c.take()
        src = c.rest()
        first = next((i for i, (_, cp) in enumerate(ms) if cp > 0), None)
        if first is None:
            exp, k = (0, 0), 0
        elif kind == 0:
            k = min(arg, ms[first][1], len(src))
            exp = (0, k)
        elif kind == 1:
            exp, k = (1, arg), 0
        else:
            exp, k = (0, 0), 0
        if (st, val) != exp:
            return "default read_vectored returned %r, expected %r" % ((st, val), exp)
        for i, (ln, cp) in enumerate(ms):
            got = dec_vec(o, cp)
            r = vec_check("read_vectored member %d" % i, ln, cp, got, 0, src[:k] if i == first else [])
            if r:
                return r
        if o.take() != len(src) - k:
            return "default read_vectored: source not advanced by the count"
    return None


class C11(diffcheck.DiffProp):
    pid = "C11"
    manifest = dict(
        text="Unbounded Coq theorems (induction over every schedule of the inner stream, every payload, every buffer length/capacity) about an executable model of compio-io's helper algorithms (read_exact, read_to_end, write_all, copy, BufReader, BufWriter, Take, in-memory readers/writers); the model is tied to the code on every run by an exact differential correspondence over 18 helper operations plus an independent oracle.",
        note="Trusted: Coq kernel; ExtrOcamlBasic extraction + generic OCaml driver; the Rust harness' scripted reader/writer; std Vec growth policy (modelled); constants via tools/consts.py. The theorems are about the model; the code is covered as far as the correspondence exercises it. No axioms (Print Assumptions: closed under the global context). Known findings: zero-capacity BufReader / copy buffer (false EOF).",
        technique="Coq proof (induction on the environment schedule) + extracted-model differential correspondence")
    prop_file = "prop/C11.v"
    model_name = "c11"
    harness_bin = "c11"
    package = "pure"
    gen = gen_c11
    counts = {"quick": 3000, "thorough": 60000}
    uses_consts = True
    rule = ("cases = corpus (minimised earlier failures, D-witnesses) + random programs over 21 helper "
            "operations (60% friendly / 40% adversarial schedules, capacities 0..17, payloads 0..80; vectored-exact "
            "reads over 0..5 Vec members with pre-existing content and spare capacity, 65% in sequential-fill "
            "order); "
            "distinct = distinct case lines; non-trivial = not rejected and some byte/count moved")
    trusted_base = [
        "Coq 8.16.1 kernel (coqc, full .vo build); vm_compute only in witness/example lemmas",
        "extraction: ExtrOcamlBasic only, no Extract Constant; coq/extract/driver.ml; ocamlfind ocamlopt",
        "harness/src/bin/c11.rs scripted reader/writer, tools/gen_c11.py, tools/p_c11.py oracle, tools/diffcheck.py",
        "std Vec<u8> growth policy max(8, 2*cap, len+additional) and exact with_capacity (modelled, not verified)",
        "constants READ_TO_END_RESERVE, FLUSH_NUM/FLUSH_DEN regenerated from the source by tools/consts.py",
    ]
    assumptions = [
        "the inner stream obeys the AsyncRead/AsyncWrite contract: returns n <= capacity, writes at the start of the "
        "writable region and records n via advance_to (the scripted stream of the harness does)",
        "in-memory vectored destinations are fresh (length 0) members; pre-filled members fall under C10's finding",
        "futures are driven by futures-executor::block_on on one thread",
    ]

    def oracle(self, case, out):
        return oracle(case, out)

    def known(self, case, out, what):
        # BufReader / copy with a zero-capacity internal buffer: EOF reported at once
        if case[0] == 8 and case[1] == 0:
            return "C11-bufreader-cap0"
        if case[0] == 5 and case[1] == 0:
            return "C11-copy-bufsize0"
        if case[0] == 21:
            # [u8]::read_vectored_at records with advance_vec_to (C10 findings
            # C10-advance-vec-to-noop / C10-vectored-set-len-by-capacity / C10-vectored-slice-
            # uninit-offset): reachable through read_vectored_exact_at when the source is shorter
            # than the total capacity and the members are not in sequential-fill order
            try:
                c = Cur(case)
                c.take()
                pos = c.take()
                ms = take_members(c)
                this = c.rest()
            except IndexError:
                return None
            short = len(this[min(pos, len(this)):]) < sum(cp for _, cp in ms)
            if short and nonseq(ms):
                return "C11-read-vectored-exact-at-short-nonseq"
        return None


PROP = C11()
