"""C16 — QUIC streams and datagrams: ordered, exactly-once, never stranded."""
import diffcheck
import gen_c16

REG, EV_BEGIN, EV_END, TERM_BEGIN, TERM_END, DROP_SEND, DROP_RECV = 1, 2, 3, 4, 5, 6, 7
NS = 13
EVW = 4 + NS


def parse_log(v, p):
    total, n = v[p], v[p + 1]
    p += 2
    evs = []
    for i in range(n):
        e = v[p + EVW * i: p + EVW * (i + 1)]
        evs.append((e[0], e[1], e[2], e[3], e[4:]))
    return total, evs


def parse(case, out):
    if out[:1] != [0]:
        return None
    k = case[0]
    d = {"kind": k, "verdict": out[1]}
    if k == 1:
        n = out[3]
        d["flags"] = out[2]
        d["streams"] = [dict(zip("got data_ok echo echo_ok write_ok".split(), out[4 + 5 * i: 9 + 5 * i])) for i in range(n)]
        p = 4 + 5 * n
        d["dgram"] = dict(zip("n ok dup".split(), out[p:p + 3]))
        d["total"], d["log"] = parse_log(out, p + 3)
    elif k == 2:
        n = out[3]
        d["close_kind"] = out[2]
        d["slots"] = [(out[4 + 2 * i], out[5 + 2 * i]) for i in range(n)]
        d["parked_at_close"] = out[4 + 2 * n]
        d["total"], d["log"] = parse_log(out, 5 + 2 * n)
    elif k == 3:
        d["n"], d["done"] = out[2], out[3]
        d["total"], d["log"] = parse_log(out, 4)
    elif k == 4:
        d["write"], d["stopped"] = out[2], out[3]
        d["total"], d["log"] = parse_log(out, 4)
    elif k == 5:
        d["sent"], d["received"], d["received_ok"] = out[2], out[3], out[4]
        d["total"], d["log"] = parse_log(out, 5)
    elif k == 6:
        d["hdr_ok"], d["returned"], d["expected"], d["rest_ok"] = out[2:6]
        d["total"], d["log"] = parse_log(out, 6)
    elif k == 7:
        d["rounds_done"], d["final_got"], d["final_ok"], d["stop_seen"] = out[2:6]
        d["total"], d["log"] = parse_log(out, 6)
    elif k == 8:
        d["readers"], d["completed"], d["intact"] = out[2:5]
        d["total"], d["log"] = parse_log(out, 5)
    elif k == 9:
        d["got"], d["expected"] = out[2:4]
        d["total"], d["log"] = parse_log(out, 4)
    return d


def conn_labels(evs):
    """labels for the model and the expected model output, for one connection"""
    labs, exp = [], []
    nlab = 0
    prev = [0] * NS
    i = 0
    n = len(evs)
    while i < n:
        _, kind, a, b, sizes = evs[i]
        if kind == REG:
            key = b
            if a == 0:
                key = 1 if sizes[0] == prev[0] else 0
            labs += [1, a, key]
            exp += prev + list(sizes) + [0]
            prev = list(sizes)
            nlab += 1
        elif kind in (EV_BEGIN, TERM_BEGIN):
            end_kind = EV_END if kind == EV_BEGIN else TERM_END
            j = i + 1
            while j < n and evs[j][1] != end_kind:
                j += 1
            if j >= n:
                break  # cut off by the log cap
            after = list(evs[j][4])
            labs += [2, a, b] if kind == EV_BEGIN else [3]
            exp += list(sizes) + after + [sum(sizes[:11]) - sum(after[:11])]
            prev = after
            nlab += 1
            i = j
        elif kind == DROP_SEND:
            labs += [4, b]
            exp += prev + list(sizes) + [0]
            prev = list(sizes)
            nlab += 1
        elif kind == DROP_RECV:
            labs += [5, b]
            exp += prev + list(sizes) + [0]
            prev = list(sizes)
            nlab += 1
        i += 1
    return nlab, labs, exp


def by_conn(d):
    order, groups = [], {}
    for e in d["log"]:
        if e[0] not in groups:
            groups[e[0]] = []
            order.append(e[0])
        groups[e[0]].append(e)
    return [conn_labels(groups[c]) for c in order]


SLOT_NAMES = {1: "client read on a bidi stream", 2: "client write blocked on flow control", 3: "client open_uni_wait without credit",
              4: "client accept_uni", 5: "client accept_bi", 6: "client recv_datagram", 7: "client SendStream::stopped",
              8: "client RecvStream::received_reset", 9: "client Endpoint::wait_incoming", 11: "server read on a bidi stream",
              12: "server accept_uni", 13: "server recv_datagram", 14: "server Endpoint::wait_incoming",
              21: "spawned task in send_datagram_wait on a full send buffer (1)",
              22: "spawned task in send_datagram_wait on a full send buffer (2)",
              23: "spawned task in send_datagram_wait on a full send buffer (3)"}


def oracle(case, out):
    if out[:1] == [99999]:
        return None
    if out[:1] == [2] and len(out) == 2:
        return "panic/abort/hang of the harness process (code %d)" % out[1]
    d = parse(case, out)
    if d is None:
        return "malformed result"
    if d["kind"] == 1:
        if d["verdict"] == 1:
            return "handshake failed"
        if d["verdict"] != 0:
            st = "; ".join("stream %d: got %d echo %d" % (i, s["got"], s["echo"]) for i, s in enumerate(d["streams"]))
            return "hang: the session made no progress for 8 s (flags %d; %s)" % (d["flags"], st)
        nuni, nbi = case[6], case[7]
        lens = case[14:14 + nuni + nbi]
        for i, s in enumerate(d["streams"]):
            want = lens[i] + 4
            if not s["write_ok"]:
                return "stream %d: write/finish failed" % i
            if s["got"] != want or not s["data_ok"]:
                return "stream %d: the peer read %d bytes (expected %d), %s" % (
                    i, s["got"], want, "content/end-of-stream wrong" if not s["data_ok"] else "")
            if i >= nuni and (s["echo"] != want or not s["echo_ok"]):
                return "bidi stream %d: %d bytes echoed back (expected %d) or content/end-of-stream wrong" % (i, s["echo"], want)
        g = d["dgram"]
        if g["ok"] != g["n"]:
            return "%d of %d received datagrams differ from what was sent" % (g["n"] - g["ok"], g["n"])
        if g["dup"]:
            return "%d datagrams delivered twice" % g["dup"]
        if g["n"] > case[11]:
            return "more datagrams received than sent"
        if d["flags"] != 15:
            return "close/shutdown did not complete (flags %d)" % d["flags"]
        return None
    if d["kind"] == 2:
        if d["verdict"] < 100:
            return "close scenario: %s" % ("handshake failed" if d["verdict"] == 1 else "made no progress for 8 s")
        hung = [SLOT_NAMES.get(i, str(i)) for i, s in d["slots"] if s == 0]
        if hung:
            return "after %s: still pending (left hanging): %s" % (gen_c16.describe(case), ", ".join(hung))
        noerr = [SLOT_NAMES.get(i, str(i)) for i, s in d["slots"] if s == 2]
        if noerr:
            return "after %s: completed without a connection error: %s" % (gen_c16.describe(case), ", ".join(noerr))
        return None
    if d["kind"] == 3:
        if d["verdict"] != 0:
            return "0.5-RTT scenario did not finish"
        if d["done"] != d["n"]:
            return "%d tasks waited in accepted_0rtt(); only %d were woken when the handshake completed" % (d["n"], d["done"])
        return None
    if d["kind"] == 4:
        if d["verdict"] != 0:
            return "stop scenario did not finish (a writer or stopped() left hanging after the peer's STOP_SENDING)"
        if d["write"] == 2:
            return "write on a stopped stream failed with something else than Stopped(7)"
        if d["stopped"] != 0:
            return "stopped() did not report the peer's stop code 7 (result %d)" % d["stopped"]
        return None
    if d["kind"] == 5:
        if d["verdict"] != 0:
            return "datagram scenario did not finish (send_datagram_wait left hanging)"
        if d["sent"] != case[1]:
            return "only %d of %d datagrams accepted by send_datagram_wait" % (d["sent"], case[1])
        if d["received_ok"] != d["received"] or d["received"] > d["sent"]:
            return "received %d datagrams, %d intact, %d sent" % (d["received"], d["received_ok"], d["sent"])
        return None
    if d["kind"] == 9:
        if d["verdict"] == 4:
            return "the answer written on the send half of the bidirectional stream did not reach the peer intact"
        if d["verdict"] != 0:
            return "bidirectional-halves scenario did not finish (verdict %d)" % d["verdict"]
        if d["got"] != d["expected"]:
            return ("a reader parked on the receive half of a bidirectional stream while the send half of the SAME stream "
                    "was finished and dropped got %s of %d bytes: %s" % (
                        "no end-of-stream / was never woken" if d["got"] > 1 << 40 else str(d["got"]), d["expected"],
                        "left hanging" if d["got"] > 1 << 40 else "data lost"))
        return None
    if d["kind"] == 8:
        if d["verdict"] != 0:
            return "datagram-readers scenario did not finish"
        if d["completed"] != d["readers"]:
            return ("%d tasks were parked in recv_datagram() on clones of one connection and the peer queued %d datagrams "
                    "back to back: only %d of the readers completed within 3 s, the others were left hanging although "
                    "datagrams were waiting" % (d["readers"], d["readers"], d["completed"]))
        if d["intact"] != d["completed"]:
            return "%d of %d received datagrams differ from what was sent" % (d["completed"] - d["intact"], d["completed"])
        return None
    if d["kind"] == 6:
        if d["verdict"] != 0:
            return "read_to_end scenario did not finish"
        if not d["hdr_ok"]:
            return "the first %d bytes read from the stream differ from what was sent" % case[2]
        if d["returned"] != d["expected"] or not d["rest_ok"]:
            return ("read_to_end after %d bytes had been consumed returned %d bytes (expected the remaining %d), content %s"
                    % (case[2], d["returned"], d["expected"], "equal" if d["rest_ok"] else "DIFFERENT (shifted / zero prefix / truncated)"))
        return None
    if d["kind"] == 7:
        rounds = case[3]
        if d["verdict"] != 0:
            return ("after %d of %d streams were stopped by the peer and dropped without reset()/finish(), with %d concurrent "
                    "streams allowed: the next open_%s_wait / stream never completed (the dropped streams were not closed "
                    "towards the peer, their credit did not come back)" % (d["rounds_done"], rounds, case[2], "bi" if case[1] else "uni"))
        if d["rounds_done"] != rounds:
            return "only %d of %d rounds ran" % (d["rounds_done"], rounds)
        if d["final_got"] != case[6] + 4 or not d["final_ok"]:
            return "the stream opened after the dropped ones delivered %d bytes (expected %d) or wrong content" % (d["final_got"], case[6] + 4)
        if case[5] == 0 and d["stop_seen"] != rounds:
            return "stopped() reported the peer's stop code in %d of %d rounds" % (d["stop_seen"], rounds)
        return None
    return None


def hits(case, out):
    """which of the strengthening behaviour classes this run exercised"""
    d = parse(case, out)
    if d is None:
        return []
    h = []
    if d["kind"] == 2 and d.get("parked_at_close", 0) >= 1:
        h.append("send_datagram_wait parked at close")
    if d["kind"] == 6 and case[2] > 0:
        h.append("read_to_end after partial read")
    if d["kind"] == 7:
        h.append("stopped SendStream dropped implicitly")
    return h


class C16(diffcheck.DiffProp):
    pid = "C16"
    manifest = dict(
        text="Coq theorems over a labelled transition system of compio-quic's own part of a connection — the per-connection waker tables (on_connected, on_handshake_data, datagram_received, datagrams_unblocked, stream_opened/available[Uni/Bi], readable/writable/stopped keyed by stream id), the event -> wake mapping of the worker loop, terminate/close, the register-on-blocked discipline of every future, stream-handle drops — for every sequence of labels: terminate wakes every registered waker and no later poll of any future returns Pending (they return the stored error); a future blocked on stream s / readiness r is woken by the matching event or by termination whatever happens in between; registering and events touch only their own entries (no cross-talk). Tied to the code by loopback runs of the real compio-quic (client and server endpoints in one runtime): the waker-table model is replayed on the hook-recorded history of registrations / events / terminate / drops (exact equality of all table sizes before and after each step and of the number of wakers woken), and an oracle checks per-stream byte equality, end-of-stream after finish, echo on bidi streams, datagram integrity, and that every pending future completes with an error after each close point.",
        note="PARTIAL. Proved (Coq, no axioms): the waker-table properties above for all label sequences. NOT modelled, only observed through the runs: quinn-proto 0.11 (ordering, exactly-once delivery, flow control, stream limits, loss recovery, datagram queues), rustls, the UDP socket layer, timers; 'a slow reader only delays data' and 'concurrent streams do not interfere' are checked by the oracle on generated runs, not proved. Connection::closed() and Endpoint::shutdown() (which wait for the protocol state machine to drain) are observed only. Trusted: Coq kernel, extraction + driver, the cfg(compio_verif) hook commit in compio-quic, harness/ext/src/bin/c16.rs, tools/p_c16.py. One fix: commit (on_connected kept a single waker: concurrent accepted_0rtt waiters hung).",
        technique="Coq invariant proofs over an LTS + replay of hook-recorded waker-table histories through the extracted model + oracle on loopback QUIC runs")
    prop_file = "prop/C16.v"
    model_name = "c16"
    harness_bin = "c16"
    package = "ext"
    gen = gen_c16
    shards = 8
    thorough_release = False
    counts = {"quick": 160, "thorough": 3000}
    rule = ("cases = corpus (accepted_0rtt with several waiters, the four close points, window/limit corner cases) + random: ~70% data "
            "sessions (0-5 uni + 0-4 bidi concurrent streams, payload 0..200 KB each, write/read chunk 1..70000, stream/connection "
            "receive windows 200..1.25 MB, send window, max concurrent uni/bidi streams 1..100 with open_*_wait, reader pacing, 0-8 "
            "datagrams), ~22% close points with 11-12 pending futures on both sides, ~8% concurrent accepted_0rtt waiters; "
            "non-trivial = handshake completed and the scenario ran; distinct = distinct case lines")
    trusted_base = [
        "Coq 8.16.1 kernel (coqc, full .vo build); vm_compute only in the non-vacuity examples",
        "extraction: ExtrOcamlBasic only; coq/extract/driver.ml; coq/model/RunC16.v decoder",
        "hook commit in /repo: compio_quic::verif waker-table snapshots (cfg(compio_verif), add-only) report faithfully",
        "harness/ext/src/bin/c16.rs, tools/gen_c16.py, tools/p_c16.py",
        "quinn-proto 0.11.17, rustls, the loopback UDP path and the runtime's timers (environments)",
    ]
    assumptions = [
        "quinn-proto emits the event matching a state change that unblocks an operation (Readable/Writable/Stopped/Finished/Opened/Available/Datagram*), and answers a poll with 'blocked' only when such an event will follow or the connection ends",
        "stream handles are used through &mut self (one task per stream half at a time), so entries keyed by stream id have a single owner",
        "single-threaded runtime: table updates and wakes are atomic with respect to each other",
    ]

    def oracle(self, case, out):
        return oracle(case, out)

    def model_input(self, case, out):
        d = parse(case, out) if out else None
        if d is None:
            return [0]
        conns = by_conn(d)
        res = [1, len(conns)]
        for (nlab, labs, _) in conns:
            res += [nlab] + labs
        return res

    def model_expected(self, case, out):
        d = parse(case, out) if out else None
        if d is None:
            return [0]
        res = []
        for (_, _, exp) in by_conn(d):
            res += exp
        return res

    def known(self, case, out, what):
        return None


PROP = C16()
