"""Case generator for C03 (cross-thread wake-ups).
case = [mode, drv, a, b, c, seed]; see harness/rt/src/bin/c03.rs.

  mode 1 stress history      a = waker threads K in {1,2,4,8}, b = wakes per thread, c = pause scale
  mode 2 forced window       a = scheduling point of Driver::poll (1, 2 (io_uring only), 3)
  mode 3 external-loop       a = variant 0..3
  mode 4 executor level      a = sub-mode 0..3, b = cross-thread queue size (1, 2, 64), c = threads / extra tasks
  mode 6 completion burst    a = ring capacity, b = receives completing at once, c = wake during the burst
  mode 5 host event loop     a = wake source (0 same-thread callback after flush, 1 cross-thread during the
                             sleep, 2 timer, 3 I/O, 4 same-thread callback before flush, 5 same-thread wake of
                             the loop's own waker after flush), b = rounds, c = cross-thread queue size
"""
import random

MODES = {1: "stress", 2: "window", 3: "external", 4: "executor", 5: "hostloop", 6: "cq-burst", 7: "wake-in-poll"}
SOURCES = {0: "same-thread-after-flush", 1: "cross-thread", 2: "timer", 3: "io", 4: "same-thread-before-flush",
           5: "own-waker-after-flush"}
THOROUGH_SCALE = 4


def gen_case(rng, big):
    r = rng.random()
    drv = rng.choice([0, 1])
    seed = rng.randrange(1, 1 << 30)
    if r < 0.22:
        # host event loop driving a real Runtime through its descriptor; half of the cases wake on
        # the runtime's own thread between flush() and the sleep
        src = rng.choice([0, 0, 0, 0, 1, 2, 3, 4, 5, 5])
        return [5, drv, src, rng.choice([2, 4, 8]) * (2 if big else 1), rng.choice([1, 2, 64]), seed]
    if r < 0.30:
        # completion burst that overflows a small completion queue, then a cross-thread wake
        cap = rng.choice([1, 2, 2, 4, 8])
        burst = rng.choice([2 * cap + 2, 3 * cap + 1, 4 * cap + 4])
        return [6, drv, cap, burst, rng.choice([0, 1, 1]), seed]
    if r < 0.36:
        # a cross-thread wake lands while the task is being polled because of an earlier cross-thread wake
        return [7, drv, rng.choice([3, 6, 12]), rng.choice([1, 2, 64]), 0, seed]
    r = (r - 0.36) / 0.64
    if r < 0.30:
        k = rng.choice([1, 2, 4, 8])
        rounds = rng.choice([5, 10, 20, 40]) * (THOROUGH_SCALE if big else 1)
        if k * rounds > (2400 if big else 320):
            rounds = (2400 if big else 320) // k
        return [1, drv, k, rounds, rng.choice([1, 2, 8]), seed]
    if r < 0.48:
        point = rng.choice([1, 3] if drv == 1 else [1, 2, 3])
        return [2, drv, point, 0, 0, seed]
    if r < 0.66:
        return [3, drv, rng.choice([0, 1, 2, 3]), 0, 0, seed]
    sub = rng.choice([0, 0, 1, 2, 2, 3])
    q = rng.choice([1, 2, 64])
    if sub == 3:
        q = rng.choice([1, 2, 3])
        return [4, drv, 3, q, 1, seed]
    if sub == 2:
        q = rng.choice([1, 2, 8])
        return [4, drv, 2, q, rng.choice([1, 3, 6]), seed]
    return [4, drv, sub, q, rng.choice([1, 2, 4, 8]), seed]


def generate(seed, n):
    rng = random.Random(seed)
    big = n > 400
    return [gen_case(rng, big) for _ in range(n)]


def describe(case):
    if len(case) < 3:
        return "malformed"
    m = MODES.get(case[0], "other")
    drv = "iour" if case[1] == 0 else "poll"
    if case[0] == 1:
        return "%s/%s/K=%d" % (m, drv, case[2])
    if case[0] == 4:
        return "%s/%s/sub=%d/q=%d" % (m, drv, case[2], case[3] if len(case) > 3 else 0)
    if case[0] == 5:
        return "%s/%s/%s" % (m, drv, SOURCES.get(case[2], "other"))
    return "%s/%s/%d" % (m, drv, case[2])


def nontrivial(case, out):
    """a history with at least one remote wake and one kernel entry was recorded"""
    if not out or len(out) < 7 or out[0] not in (1, 2, 3, 4, 5):
        return False
    n = out[6]
    evs = out[7:7 + 3 * n]
    kinds = evs[0::3]
    return 22 in kinds and 27 in kinds
