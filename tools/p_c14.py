"""C14 — socket transports deliver exactly what was sent."""
import diffcheck
import gen_c14

MASK = 2147483647
DRAIN_CAP = 4096
TRUNC = 32


def pat(seed, i):
    v = i + seed
    t = v * v
    return ((t >> 3) + (t >> 11) + (v << 3) + (v << 2) + v + (v >> 7)) & 255


def hash_of(xs):
    h = 7
    for x in xs:
        h = ((h << 5) + h + x + 1) & MASK
    return h


def canary(i):
    return 128 + (i % 100)


def split_sizes(a, b):
    b = max(b, 1)
    q, r = divmod(a, b)
    return [q + (1 if i < r else 0) for i in range(b)]


def clamp(x, lo, hi):
    return max(lo, min(x, hi))


def vec_state(ln, cap, data):
    """a Vec (len, cap) canary-filled, the first len(data) cells overwritten, length only grows"""
    cells = list(data) + [canary(i) for i in range(len(data), cap)]
    return [max(ln, len(data)), cap] + cells


def vectored_state(caps, data):
    out, p = [], 0
    for c in caps:
        k = min(c, len(data) - p)
        out += vec_state(0, c, data[p:p + k])
        p += k
    return out


def managed_state(data):
    return [len(data)] + list(data)


def managed_cap(plen, ln):
    return plen if ln == 0 else min(ln, plen)


def events(out):
    n = out[1]
    if len(out) != 2 + 7 * n:
        raise IndexError
    return [out[2 + 7 * i: 9 + 7 * i] for i in range(n)]


def progs(case):
    i = 9
    ps = []
    for _ in range(4):
        n = case[i]
        ops = [tuple(case[i + 1 + 3 * j: i + 4 + 3 * j]) for j in range(n)]
        ps.append(ops)
        i += 1 + 3 * n
    return ps


def oracle_stream(case, evs):
    drv, tr, split, sbuf, rbuf, plen, psize, seed = case[1:9]
    pa, pb, pc, pd = progs(case)
    for dirn, sp, rp in ((1, pa, pb), (2, pc, pd)):
        sd = seed + 1000 * dirn
        sent = 0          # bytes accepted so far
        shut = False
        rpos = 0
        gap_ok = False
        gaps = 0
        rcvd = 0
        eof_seen = False
        eofs = 0
        summary = None
        for e in evs:
            t = e[0]
            if t in (1, 7, 2, 3, 4, 6, 9) and e[1] != dirn:
                continue
            if t == 1:
                _, _, idx, offered, acc, bufok, kind = e
                if shut:
                    return "dir %d: a send was accepted after shutdown" % dirn
                if idx >= len(sp) or sp[idx][0] != kind or sp[idx][1] != offered:
                    return "dir %d: send event %r does not belong to the program" % (dirn, e)
                if acc > offered or (offered > 0 and acc == 0):
                    return "dir %d: send op %d offered %d bytes, result %d" % (dirn, idx, offered, acc)
                if bufok != 1:
                    return "dir %d: send op %d returned a different buffer than it was given" % (dirn, idx)
                sent += acc
            elif t == 7:
                if not (e[3] == 95 and e[6] in (3, 4) and tr == 1 and drv == 0):
                    return "dir %d: send op %d failed with errno %d" % (dirn, e[2], e[3])
            elif t == 2:
                if e[2] != 0:
                    return "dir %d: shutdown failed with errno %d" % (dirn, e[2])
                shut = True
            elif t == 6:
                if not (e[3] == 105 and e[6] in (3, 4, 7, 8)):
                    return "dir %d: receive op %d failed with errno %d" % (dirn, e[2], e[3])
            elif t == 3:
                _, _, idx, n, pos, h, kind = e
                if idx < len(rp):
                    k, a, b = rp[idx]
                    if k != kind:
                        return "dir %d: receive event %r does not belong to the program" % (dirn, e)
                else:
                    k, a, b = 1, DRAIN_CAP, 0
                    if kind != 1:
                        return "dir %d: malformed drain event" % dirn
                if pos < rpos or (pos > rpos and not gap_ok):
                    return ("dir %d: receive op %d delivered stream position %d, expected %d "
                            "(bytes lost, duplicated or reordered)" % (dirn, idx, pos, rpos))
                gaps += pos - rpos
                rpos = pos
                data = [pat(sd, rpos + i) for i in range(n)]
                if k in (1, 6):
                    cap = a
                    st = vec_state(min(b, a), a, data)
                elif k == 2:
                    caps = split_sizes(a, clamp(b, 1, 8))
                    cap = sum(caps)
                    st = vectored_state(caps, data)
                elif k == 8:
                    cap = plen if drv == 1 else plen - 16 - 128 - 64
                    st = managed_state(data)
                else:
                    cap = managed_cap(plen, a)
                    st = managed_state(data) if (n > 0 or k == 4) else [0]
                if n > cap:
                    return "dir %d: receive op %d returned %d bytes into a capacity of %d" % (dirn, idx, n, cap)
                if rpos + n > sent:
                    return "dir %d: receive op %d obtained bytes beyond what was sent" % (dirn, idx)
                if hash_of(st) != h:
                    return ("dir %d: receive op %d (kind %d, %d bytes at position %d): buffer content/shape differs "
                            "from the sent bytes" % (dirn, idx, k, n, rpos))
                if n == 0 and cap > 0:
                    if not shut or rpos != sent:
                        return ("dir %d: end-of-stream reported at position %d while %d bytes were sent%s"
                                % (dirn, rpos, sent, "" if shut else " and the writer has not shut down"))
                    eof_seen = True
                    eofs += 1
                elif eof_seen and n > 0:
                    return "dir %d: data after end-of-stream" % dirn
                rpos += n
                rcvd += n
            elif t == 4:
                _, _, idx, reason, items, pos, _ = e
                if reason == 0:
                    if pos < rpos or (pos > rpos and not gap_ok):
                        return "dir %d: multishot stream ended at position %d, expected %d" % (dirn, pos, rpos)
                    gaps += pos - rpos
                    rpos = pos
                    if not shut or rpos != sent:
                        return "dir %d: multishot stream ended at position %d while %d bytes were sent" % (dirn, rpos, sent)
                    eof_seen = True
                    eofs += 1
                else:
                    gap_ok = True
            elif t == 9:
                summary = e
        if summary is None:
            return "dir %d: no summary" % dirn
        _, _, s_sent, s_rcvd, m, s_eofs, s_gaps = summary
        if s_sent != sent or s_rcvd != rcvd:
            return "dir %d: summary counts differ from the transcript" % dirn
        if not eof_seen or s_eofs < 2:
            return "dir %d: the reader never saw a (sticky) end-of-stream after shutdown" % dirn
        if rcvd + gaps != sent:
            return "dir %d: %d bytes sent, %d received" % (dirn, sent, rcvd)
        if gaps and not gap_ok:
            return "dir %d: bytes lost without an early multishot drop" % dirn
        if m != (2 if gaps else 1):
            return "dir %d: the harness' byte-for-byte comparison of received and sent streams failed (flag %d)" % (dirn, m)
    return None


def dg_specs(case):
    n = case[10]
    return [tuple(case[11 + 7 * i: 18 + 7 * i]) for i in range(n)]


def oracle_dgram(case, evs):
    drv, tr, plen, psize, seed, nsend, window, mkind, mcount, n = case[1:11]
    # the control length the harness passes to recv_msg_multi (harness/rt/src/bin/c14.rs, RunC14.msg_multi_clen)
    msg_multi_clen = [64, 20, 33, 16, 7][(n + mcount) % 5]
    specs = dg_specs(case)
    addrs = {}
    queue = []
    nxt = 0
    for e in evs:
        t = e[0]
        if t == 10:
            addrs[e[1]] = e[2]
            if e[2] == 0 or e[2] == 7777:
                return "sender %d has no usable address" % e[1]
        elif t == 1:
            _, idx, size, acc, bufok, skind, sender = e
            if idx >= n or specs[idx][1] != size or specs[idx][0] != skind or specs[idx][2] != sender:
                return "send event %r does not belong to the program" % (e,)
            if acc != size:
                return "datagram %d: %d bytes offered, %d reported sent" % (idx, size, acc)
            if bufok != 1:
                return "datagram %d: the send returned a different buffer" % idx
            queue.append(idx)
        elif t == 7:
            return "datagram %d: send failed with errno %d" % (e[1], e[2])
        elif t == 6:
            if not (e[3] == 105 and e[6] > 10):
                return "datagram %d: receive failed with errno %d" % (e[2], e[3])
        elif t == 4:
            return "multishot datagram stream ended by itself"
        elif t == 5:
            _, idx, cnt, addr, fl, h, rk = e
            if not queue or queue[0] != idx or idx != nxt:
                return "receive %d does not take the oldest pending datagram (each datagram exactly once, in order)" % idx
            queue.pop(0)
            nxt += 1
            skind, size, sender, rkind, cap, ln, flags = specs[idx]
            if rk < 10 and rk != rkind:
                return "receive event %r does not belong to the program" % (e,)
            data = [pat(seed + 131 * idx, i) for i in range(size)]
            src = addrs.get(sender)
            want_addr, want_flags = 0, 0
            if rk in (1, 3, 7):
                eff = cap
                st = vec_state(min(ln, cap), cap, data[:eff])
            elif rk in (2, 4, 8):
                caps = split_sizes(cap, clamp(ln, 1, 4))
                eff = sum(caps)
                st = vectored_state(caps, data[:eff])
            elif rk in (5, 6, 9):
                eff = managed_cap(plen, cap)
                st = managed_state(data[:eff]) if size > 0 else [0]
            elif rk == 11:
                eff = plen
                st = managed_state(data[:eff])
            elif rk in (12, 13):
                eff = plen if drv == 1 else plen - 16 - 128 - (msg_multi_clen if rk == 13 else 0)
                st = managed_state(data[:eff])
            else:
                return "unknown receive kind %d" % rk
            exp_n = min(size, eff)
            if rk in (1, 2, 3, 4, 5, 6, 12, 13) and not (rk in (5, 6) and size == 0):
                want_addr = src
            if rk in (3, 4, 6, 13) and size > eff:
                want_flags = TRUNC
            if cnt > eff:
                return "datagram %d: %d bytes reported for a capacity of %d" % (idx, cnt, eff)
            if cnt != exp_n:
                return "datagram %d (%d bytes) into capacity %d: %d bytes reported" % (idx, size, eff, cnt)
            if hash_of(st) != h:
                return "datagram %d: received content/buffer shape differs from the sent datagram cut to %d" % (idx, eff)
            if addr != want_addr:
                return "datagram %d: source address %d reported, sender has %d" % (idx, addr, want_addr)
            if fl != want_flags:
                return "datagram %d (%d bytes, capacity %d): truncation flag %d" % (idx, size, eff, fl)
    if nxt != n:
        return "%d of %d datagrams received" % (nxt, n)
    return None


def oracle_accept(case, evs):
    drv, tr, k, mode, j = case[1:6]
    clients = {}
    served = []
    early = False
    for e in evs:
        if e[0] == 11:
            clients[e[1]] = (e[2], e[3])
        elif e[0] == 12:
            served.append((e[1], e[2], e[3]))
        elif e[0] == 4:
            early = True
        elif e[0] == 6:
            return "accept failed with errno %d" % e[3]
    ids = [s[0] for s in served]
    if len(set(ids)) != len(ids):
        return "a connection was handed out twice: ids %r" % ids
    for (cid, port, via) in served:
        if not (1 <= cid <= k):
            return "accepted a connection of an unknown client %d" % cid
        if tr == 0 and clients.get(cid - 1, (None,))[0] != port:
            return "connection of client %d: peer port %d, the client's local port is %r" % (
                cid, port, clients.get(cid - 1))
    if len(clients) != k:
        return "%d of %d clients finished" % (len(clients), k)
    for i, (lport, st) in sorted(clients.items()):
        if st == 3:
            return "client %d could not connect" % i
        if st == 1 and (i + 1) not in ids:
            return "client %d was acknowledged but its connection was never accepted" % i
        if st == 2 and (i + 1) in ids:
            return "client %d was accepted but never acknowledged" % i
        if st == 2 and not early:
            return "connection of client %d was lost although no incoming stream was dropped" % i
    if not early and len(ids) != k:
        return "%d connections accepted, %d made" % (len(ids), k)
    return None


SEND_KINDS = {1: "write", 2: "write_vectored", 3: "write_zerocopy", 4: "write_zerocopy_vectored",
              6: "write_with_ancillary", 7: "write_vectored_with_ancillary"}
BULK_KINDS = {1: "write", 2: "write_vectored", 3: "write_all", 4: "write_vectored_all",
              5: "write_zerocopy", 6: "write_zerocopy_vectored"}
RECV_KINDS = {1: "read", 2: "read_vectored", 3: "read_managed", 4: "read_multi", 6: "read_with_ancillary",
              7: "read_managed_with_ancillary", 8: "read_multi_with_ancillary"}
DRV = {0: "io_uring", 1: "polling"}


def describe_stall(case, evs):
    """the harness' watchdog fired: say what never completed (tag 13 = pending operation,
    tag 19 = bytes accepted / received so far)"""
    pend = [e for e in evs if e[0] == 13]
    if not pend:
        return None
    prog = {e[1]: (e[2], e[3]) for e in evs if e[0] == 19}
    mode = case[0]
    drv = DRV.get(case[1], "?")
    parts = []
    for _, dirn, idx, what, a, b, kind in pend:
        sent, rcvd = prog.get(dirn, (None, None))
        so_far = "" if sent is None else " (direction %d: %d bytes accepted, %d received so far)" % (dirn, sent, rcvd)
        if what == 1:
            names = BULK_KINDS if mode == 4 else SEND_KINDS
            peer = "with the peer reading" if (rcvd or 0) > 0 or mode == 4 else "with the peer not yet reading"
            parts.append("send of %d bytes stalled %s: %s op %d at stream position %d never completed%s"
                         % (a, peer, names.get(kind, "send kind %d" % kind), idx, b, so_far))
        elif what == 2:
            parts.append("receive stalled: %s op %d (capacity %d) at stream position %d never completed%s"
                         % (RECV_KINDS.get(kind, "receive kind %d" % kind), idx, a, b, so_far))
        elif what == 3:
            parts.append("shutdown of direction %d never completed" % dirn)
        elif what == 4:
            parts.append("%s never yielded a connection (%d of %d accepted)"
                         % ("incoming()" if kind == 2 else "accept()", b, a))
        elif what == 5:
            parts.append("client %d never finished (connect / acknowledgement)" % idx)
        elif what == 6:
            parts.append("send of datagram %d (%d bytes, send kind %d) never completed" % (idx, a, kind))
        elif what == 7:
            parts.append("receive of datagram %d (%d bytes sent, receive kind %d, capacity %d) never completed"
                         % (idx, b, kind, a))
        elif what == 8:
            parts.append("multishot stream of receive op %d (%s) never yielded nor ended at stream position %d%s"
                         % (idx, RECV_KINDS.get(kind, "kind %d" % kind), b, so_far))
        elif what == 9:
            parts.append("connection setup never completed")
        else:
            parts.append("the program did not finish (no operation pending: a task was lost)")
    return "no progress under the watchdog on the %s driver: %s" % (drv, "; ".join(parts[:4]))


def oracle_bulk(case, evs):
    drv, tr, split, sbuf, rbuf, seed, who, delay, pace, rcap, n = case[1:12]
    ops = [tuple(case[12 + 3 * i: 15 + 3 * i]) for i in range(n)]
    sent = rpos = eofs = 0
    done = {}
    aborted = set()
    shut = False
    summary = None
    for e in evs:
        t = e[0]
        if t == 1:
            _, _, idx, offered, acc, bufok, kind = e
            if idx >= n or ops[idx][0] != kind:
                return "send event %r does not belong to the program" % (e,)
            k, total, chunk = ops[idx]
            d0 = done.get(idx, 0)
            want = total if k in (3, 4) else min(chunk, total - d0)
            if offered != want:
                return "%s op %d offered %d bytes, the program says %d" % (BULK_KINDS[k], idx, offered, want)
            if acc > offered or acc == 0 or (k in (3, 4) and acc != offered):
                return "%s op %d: %d bytes offered, result %d" % (BULK_KINDS[k], idx, offered, acc)
            if bufok != 1:
                return "%s op %d returned a different buffer than it was given" % (BULK_KINDS[k], idx)
            if shut:
                return "a send was accepted after shutdown"
            done[idx] = d0 + acc
            sent += acc
        elif t == 7:
            if not (e[3] == 95 and e[6] in (5, 6) and tr == 1 and drv == 0):
                return "%s op %d failed with errno %d" % (BULK_KINDS.get(e[6], "send"), e[2], e[3])
            aborted.add(e[2])
        elif t == 2:
            if e[2] != 0:
                return "shutdown failed with errno %d" % e[2]
            shut = True
        elif t == 6:
            return "read %d failed with errno %d" % (e[2], e[3])
        elif t == 3:
            _, _, idx, cnt, pos, ok, _ = e
            if pos != rpos:
                return "read %d delivered stream position %d, expected %d (bytes lost, duplicated or reordered)" % (idx, pos, rpos)
            if cnt > rcap:
                return "read %d returned %d bytes into a capacity of %d" % (idx, cnt, rcap)
            if rpos + cnt > sent:
                return "read %d obtained bytes beyond what was sent" % idx
            if ok != 1:
                return "read %d (%d bytes at position %d): content differs from the sent bytes" % (idx, cnt, pos)
            if cnt == 0:
                if not shut or rpos != sent:
                    return "end-of-stream at position %d while %d bytes were sent" % (rpos, sent)
                eofs += 1
            elif eofs:
                return "data after end-of-stream"
            rpos += cnt
        elif t == 9:
            summary = e
    for i, (k, total, chunk) in enumerate(ops):
        if i not in aborted and done.get(i, 0) != total:
            return "%s op %d delivered %d of %d bytes" % (BULK_KINDS[k], i, done.get(i, 0), total)
    if summary is None:
        return "the transfer did not finish (no summary)"
    if summary[2] != sent or summary[3] != rpos or rpos != sent:
        return "%d bytes sent, %d received" % (sent, rpos)
    if summary[4] != 1:
        return "the harness' byte-for-byte comparison of received and sent streams failed"
    if eofs < 2:
        return "the reader never saw a (sticky) end-of-stream after shutdown"
    return None


def oracle(case, out):
    if out[:1] == [99999]:
        return None
    what = {1: "stream program", 2: "datagram program", 3: "accept program", 4: "bulk transfer"}.get(case[0], "program")
    if out[:1] == [2] and len(out) == 2:
        if out[1] == 8:
            return ("the harness process made no progress on this %s and was killed by the runner's timeout "
                    "(beyond the harness' own watchdog: the runtime itself did not return)" % what)
        if out[1] == 4:
            return "the harness process died (abort / signal) while running this %s" % what
        return "panic (code %d) while running this %s" % (out[1], what)
    if not out:
        return ("the harness printed nothing for this %s before the runner's timeout killed it (a stall that the "
                "harness' own 25 s watchdog did not get to report: the runtime thread itself was stuck)" % what)
    if out[0] != 0 or len(out) < 2:
        return "the harness printed no transcript for this %s (output starts with %r)" % (what, out[:4])
    n = out[1]
    if len(out) != 2 + 7 * n:
        return ("truncated transcript of this %s: %d events announced, %d integers present (%d complete events); "
                "last complete event %r" % (what, n, len(out) - 2, (len(out) - 2) // 7,
                                            out[2 + 7 * ((len(out) - 2) // 7 - 1): 2 + 7 * ((len(out) - 2) // 7)]))
    evs = events(out)
    try:
        stall = describe_stall(case, evs)
        if stall:
            return stall
        if case[0] == 1:
            return oracle_stream(case, evs)
        if case[0] == 2:
            return oracle_dgram(case, evs)
        if case[0] == 3:
            return oracle_accept(case, evs)
        if case[0] == 4:
            return oracle_bulk(case, evs)
    except (IndexError, KeyError, TypeError, ValueError) as ex:
        tags = sorted({e[0] for e in evs})
        return ("transcript of this %s cannot be interpreted (%s: %s); %d events with tags %r, last event %r"
                % (what, type(ex).__name__, ex, len(evs), tags, evs[-1] if evs else None))
    return "unknown mode"


class C14(diffcheck.DiffProp):
    pid = "C14"
    manifest = dict(
        text="Coq proofs over (1) a reference transport semantics (stream = FIFO byte queue with partial sends, partial "
             "receives and half-close; datagram socket = queue of (payload, source); listener = queue of pending "
             "connections) and (2) a model of compio's own glue on top of it (receive result mapping advance_to / "
             "advance_vec_to / managed buffer / map_addr / flags, the SubmitMulti -> SubmitMultiManaged -> "
             "SubmitMultiStream re-submission loop, Incoming, the zero-copy two-phase result, vectored ops, split "
             "halves): for ALL operation sequences, OS chunkings and CQE schedules the readers observe exactly the "
             "accepted bytes in order then end-of-stream, datagrams are cut to the capacity with the flag iff cut, "
             "every connection CQE becomes exactly one socket, an early multishot drop loses only unobserved chunks; "
             "readiness rule of the polling driver: a send blocked on a full send buffer resumes on WRITABLE (and a "
             "receive blocked on an empty socket on READABLE) and a writer under back-pressure delivers everything "
             "although the peer never sends a byte. "
             "Tied to the code by a transcript differential: loopback TCP/Unix-stream/UDP/Unix-datagram peers on a real "
             "compio runtime (io_uring and polling drivers) print what was offered/accepted/received; the extracted "
             "reference replays the OBSERVED chunk sizes through the same Gallina functions the theorems are about, "
             "checks the run is legal and recomputes every buffer content; an independent Python oracle re-checks it.",
        note="PARTIAL. Proved (Coq, no axioms): properties of the reference queues and of the glue MODEL for every OS "
             "answer. Only observed (differential on loopback, both drivers): that the model is the code and that the "
             "Linux network stack behaves like the reference (FIFO, prefix semantics, truncation flag, accept queue). "
             "Not modelled: the kernel, descriptor lifetime (C06), the buffer pool ring (C07), errors other than "
             "ENOBUFS/EOPNOTSUPP, MSG_TRUNC as an input flag (compio-net never passes it; the model shows the "
             "unclamped paths would then exceed the capacity), IPv6, out-of-band data, peek. Kernel-chosen chunk "
             "boundaries are consumed from the transcript, never compared.",
        technique="Coq refinement proof (glue -> reference FIFO) + transcript acceptance by the extracted reference + oracle")
    prop_file = "prop/C14.v"
    model_name = "c14"
    harness_bin = "c14"
    package = "rt"
    shards = 12
    gen = gen_c14
    counts = {"quick": 400, "thorough": 9000}
    thorough_release = False
    uses_consts = False
    rule = ("cases = corpus + random programs: 7% bulk transfers under back-pressure (1-6 MiB through write / "
            "write_vectored / write_all / write_vectored_all / zero-copy (+vectored), direct / borrowed / owned halves, "
            "TCP and Unix stream, socket buffers default or 8-256 KiB, the peer only reads (late, paced) and never "
            "sends; 60% polling driver; a 45 s watchdog reports what never completed), 58% stream pairs (TCP/Unix, 4 concurrent tasks, write / write_vectored / "
            "zero-copy (+vectored) / owned & borrowed halves, read / read_vectored / read_managed / read_multi with "
            "len != cap buffers, pacing, socket buffers 2-16 KiB, writes up to 60 kB, pool buffers 64-8192 x 1-8), "
            "24% datagram programs (UDP via compio-net, Unix/UDP datagram via driver ops; 9 single-shot receive kinds + "
            "3 multishot kinds, capacities below/above the datagram, up to 3 senders), 11% accept programs (1-20 "
            "concurrent connects, accept / incoming / incoming dropped early); both drivers; non-trivial = some "
            "bytes / datagram / connection was delivered; distinct = distinct programs")
    trusted_base = [
        "Coq 8.16.1 kernel (coqc, full .vo build); vm_compute only in Example lemmas",
        "extraction: ExtrOcamlBasic only; coq/extract/driver.ml; coq/model/RunC14.v decoder",
        "harness/rt/src/bin/c14.rs (program interpreter, transcript, pattern/hash), tools/gen_c14.py, tools/p_c14.py oracle",
        "the Linux loopback stack is the environment the reference describes (observed, not proved)",
    ]
    assumptions = [
        "kernel CQE discipline: every CQE of a submission but the last carries F_MORE, data CQEs are non-empty, nothing "
        "is posted after the final CQE; SEND_ZC posts one result CQE and at most one notification",
        "the OS writes received bytes at the start of the offered region and fills iovec members in order",
        "one reader and one writer per direction (the property text's tasks); a multishot stream polled after its end "
        "is outside the model",
        "the log order (sends at their start, receives at completion) is a linearisation of the real execution",
        "poller contract: a registered descriptor is reported WRITABLE while its send buffer has room and READABLE "
        "while its receive queue is non-empty or the peer has shut down; bulk transcripts are replayed on byte counts "
        "(C14_count_abstraction), the harness compares every received chunk with the pattern at its position",
    ]

    def model_input(self, case, out):
        return list(case) + list(out or [])

    def model_expected(self, case, out):
        return out

    def oracle(self, case, out):
        return oracle(case, out)

    def known(self, case, out, what):
        return None


PROP = C14()
