"""C06 — descriptors are closed exactly once, never in use, never leaked."""
import json
import os
import shutil
import time

import diffcheck
import gen_c06
import vlib

KNOWN_URING_DROP = "C06-uring-drop-discards-produced-fd"
KNOWN_SYNC = "C06-sync-closer-stranded"


def fd_oracle(prog, out):
    """kinds 1/2: judged from the implementation's own report (ok / open / res / wake mask)"""
    steps = [tuple(prog[i:i + 2]) for i in range(0, len(prog), 2)]
    if len(out) != 5 * len(steps) + 1:
        return "malformed harness output"
    handles, ops = 1, 0
    closers = []      # dict(state, is_close, polled, pending, gen = wakers given so far, pgen = waker of the last poll)
    first = None
    was_open = True

    def others(c):
        return handles + ops + sum(1 for i, x in enumerate(closers) if i != c and x["state"] in ("fut", "got"))

    for k, (op, arg) in enumerate(steps):
        ok, opn, res, wm, wg = out[5 * k:5 * k + 5]
        if ok:
            if op == 1:
                handles += 1
            elif op == 2:
                handles -= 1
            elif op == 3:
                ops += 1
            elif op in (4, 12):
                ops -= 1
            elif op in (5, 6):
                handles -= 1
                closers.append(dict(state="fut", is_close=(op == 6), polled=False, pending=False, gen=0, pgen=0))
            elif op == 7:
                if arg >= len(closers) or closers[arg]["state"] != "fut":
                    return "step %d: poll of a future that does not exist reported as done" % k
                x = closers[arg]
                x["polled"] = True
                x["pgen"] = x["gen"]
                if first is None:
                    first = arg
                if res == 0:
                    x["pending"] = True
                elif res == 1:
                    if others(arg) != 0:
                        return ("step %d: take() handed out the descriptor while %d other owner(s) "
                                "(handles %d, operations in flight %d) still hold it" % (k, others(arg), handles, ops))
                    if not opn:
                        return "step %d: take() handed out a descriptor that is already closed" % k
                    x["state"], x["pending"] = "got", False
                elif res == 2:
                    x["state"], x["pending"] = "none", False
                elif res == 3:
                    if arg == first and opn:
                        return "step %d: close().await returned Ok but the descriptor is still open" % k
                    x["state"], x["pending"] = "none", False
                else:
                    return "step %d: close() returned an error" % k
            elif op == 8:
                closers[arg]["state"] = "none"
            elif op == 9:
                closers[arg]["state"] = "none"
            elif op == 13:
                closers[arg]["gen"] += 1
            elif op == 11:
                if res == 1:
                    handles -= 1
                    if handles + ops + sum(1 for x in closers if x["state"] in ("fut", "got")) != 0:
                        return "step %d: try_unwrap succeeded while other owners exist" % k
                    closers.append(dict(state="got", is_close=False, polled=False, pending=False, gen=0, pgen=0))
            if handles < 0 or ops < 0:
                return "step %d: the harness reported an impossible step as done" % k
        if opn and not was_open:
            return "step %d: the descriptor is open again after it was closed (closed twice / reused)" % k
        was_open = bool(opn)
        if not opn:
            if handles > 0 or ops > 0:
                return ("step %d: descriptor closed while %d handle(s) and %d in-flight operation(s) hold it"
                        % (k, handles, ops))
            if any(x["state"] == "got" for x in closers):
                return "step %d: descriptor closed while the caller that took it still owns it" % k
            if any(x["state"] == "fut" and not x["polled"] for x in closers):
                return "step %d: descriptor closed while an unpolled take()/close() future holds a reference" % k
        # "as soon as": the waiting closer has been woken once it is the only owner
        if first is not None and opn:
            x = closers[first]
            if (x["state"] == "fut" and x["pending"] and others(first) == 0
                    and not any(y["state"] == "got" for y in closers)):
                woken_gen = ((wg >> (4 * first)) & 15) - 1
                if woken_gen < 0:
                    return ("step %d: the waiting take()/close() (future %d) is the only owner now but was not woken "
                            "(it stays Pending for ever)" % (k, first))
                if woken_gen != x["pgen"]:
                    return ("step %d: the release woke waker %d of the waiting take()/close() (future %d), but its "
                            "latest Pending poll ran under waker %d: the task now holding the future is never woken"
                            % (k, woken_gen, first, x["pgen"]))
                if x["pgen"] == x["gen"] and not (wm >> first) & 1:
                    return "step %d: wake masks inconsistent" % k
    if out[-1] != 0:
        return "the descriptor is still open after every handle, operation and future was dropped (leaked)"
    return None


def accept_oracle(case, out):
    prog = case[2:]
    if len(out) != 3 * len(prog) + 1:
        return "malformed harness output"
    for k, op in enumerate(prog):
        ok, unheld, res = out[3 * k:3 * k + 3]
        if unheld > 1:
            return "step %d: %d descriptors open that the program does not hold" % (k, unheld)
        if res == 1 and unheld != 0:
            return "step %d: accept delivered its socket but another unheld descriptor is open" % k
    if out[-1] != 0:
        return ("%d descriptor(s) created by accept still open after the future, the stream, the listener's runtime "
                "were all dropped (leaked)" % out[-1])
    return None


def multishot_oracle(case, out):
    prog = case[2:]
    if len(out) != 3 * len(prog) + 2:
        return "malformed harness output"
    conn = pulled = 0
    for k, op in enumerate(prog):
        ok, unheld, res = out[3 * k:3 * k + 3]
        if op == 3 and ok:
            conn += 1
        if res == 1:
            pulled += 1
        if res == 2:
            return "step %d: the incoming stream ended or failed" % k
        if unheld > conn - pulled:
            return ("step %d: %d descriptors open that the program does not hold, but only %d connection(s) were "
                    "accepted and not yet pulled" % (k, unheld, conn - pulled))
    if out[-2] != 0:
        return ("%d accepted connection(s) still open after the incoming stream, every delivered stream and the "
                "runtime were dropped (queued/unreaped descriptors leaked)" % out[-2])
    if out[-1] != 0:
        return "%d peer(s) never saw their connection closed after everything was dropped" % out[-1]
    return None


def timing_oracle(case, out):
    if len(out) != 5:
        return "malformed harness output"
    sub, completed, before, after, anomalies = out
    if not completed:
        return "timing program %d did not complete within the watchdog (a close()/operation hangs)" % sub
    if after:
        return "timing program %d: %d descriptor(s) still open after everything incl. the runtime was dropped" % (sub, after)
    if before and not (sub == 0 and case[4] == 4):
        return "timing program %d: %d descriptor(s) open that nothing holds (runtime alive)" % (sub, before)
    if anomalies:
        return "timing program %d: anomalies %d (closed while in flight / read failed / order / never closed)" % (sub, anomalies)
    return None


class C06(diffcheck.DiffProp):
    pid = "C06"
    manifest = dict(
        text="Coq proof over a labelled transition system of the shared descriptor (strong count, waits flag, waker slot, descriptor Open/Moved/Closed; program counters of Drop — read count, read waits, wake, decrement — and of take() — swap, try_unwrap, register, try_unwrap, Pending/Ready; clone, in-flight operations, File/Socket close() futures and their close operation): for EVERY interleaving of those atomic steps (the multi-threaded `sync` build included) the descriptor is closed at most once, exactly once at quiescence, never while a handle/operation/future holds a reference, and try_unwrap succeeds iff the closer is the only owner; for the single-threaded scheduler the waiting closer is woken as soon as it becomes the only owner and its next poll gets the descriptor. Descriptor-producing operations (accept/open/socket/pipe) are a finite LTS of future x driver x kernel checked exhaustively by reflection: delivered or closed for every cancel timing while the driver lives. Tied to the code by running the same programs on the real SharedFd / pipe Receiver / UnixStream / TcpListener::accept (both drivers) and comparing /proc/self/fd-level observations step by step with the extracted model, plus an independent oracle; the `sync` build is explored with a loom port of fd.rs and a forced schedule on the real type.",
        note="Three leaks/hangs found and repaired in /repo (d4ec641 second closer never wakes the first, 615134b unpolled close() future leaked the fd, 33b25a0 kernel-cancelled close op leaked the fd); their former behaviours stay refuted by witness lemmas. Known findings kept: (1) feature `sync`: Drop wakes before it decrements, the woken closer can miss the last release and hang (Coq witness + loom deadlock + forced schedule on the real type); (2) io_uring Driver::drop discards unreaped completions, an accepted/opened descriptor in one is leaked. Not modelled: weak memory (SC assumed), AtomicWaker internals (linearizable slot assumed), runtime teardown races inside the kernel, Windows handles; Pipe's two descriptors are treated as one. Trusted: Coq kernel, extraction + driver.ml, harness/rt/src/bin/c06.rs, /proc/self/fd + fstat observations, loom.",
        technique="Coq invariant proofs over an LTS (unbounded interleavings) + exhaustive reflection for the finite producing-operation LTS + exact differential correspondence on generated programs + loom/forced-schedule search for the sync build")
    prop_file = "prop/C06.v"
    model_name = "c06"
    harness_bin = "c06"
    package = "rt"
    gen = gen_c06
    shards = 8
    counts = {"quick": 480, "thorough": 6000}
    thorough_release = False
    rule = ("programs of clone / drop / start, finish, cancel of an in-flight read / take() / close() / poll / "
            "future-drop / owner-drop / try_unwrap on SharedFd<OwnedFd> (no runtime) and on a pipe Receiver / "
            "UnixStream inside a Runtime on both drivers; accept programs of poll / cancel / connect / driver turn / "
            "runtime drop; 60 timing-dependent programs (descriptor-producing ops x cancel timing, close on a "
            "flush-file, concurrent closers, close vs in-flight read); non-trivial = a future was polled to an answer "
            "or the descriptor was closed before teardown; distinct = distinct programs")
    trusted_base = [
        "Coq 8.16.1 kernel (coqc, full .vo build); vm_compute in witness lemmas and the reflection over the finite producing-operation LTS",
        "extraction: ExtrOcamlBasic only; coq/extract/driver.ml; coq/model/RunC06.v interpreter",
        "harness/rt/src/bin/c06.rs (program interpreter; descriptor identity = fd number + st_ino; /proc/self/fd listing)",
        "harness/loom-c06 (loom 0.7 port of fd.rs, forced schedule on the real sync build): search engines only",
        "tools/gen_c06.py, tools/p_c06.py oracles",
    ]
    assumptions = [
        "sequential consistency of the atomics in fd.rs (weak-memory reorderings outside the model)",
        "Rc/Arc strong counts are exact; WakerSlot / AtomicWaker register and wake are linearizable",
        "kernel: a close request either runs or is cancelled with ECANCELED (descriptor untouched); an accept/open/socket completion carries the only name of the new descriptor until it is reaped",
        "closing the ring makes the kernel give up in-flight requests without creating descriptors",
        "the executor polls a task whose waker was woken (C03/C04)",
    ]

    def model_expected(self, case, out):
        if case[:1] == [4]:
            return [0, 4] if out[:1] != [99999] else [99999]
        return out

    def oracle(self, case, out):
        if not out or out[:1] == [99999]:
            return None
        if out[:1] == [2] and len(out) == 2:
            return "panic/abort/hang (code %d) in the program" % out[1]
        k = case[0] if case else 0
        if out[:2] != [0, k]:
            return "malformed harness output"
        out = out[2:]
        if k == 1:
            return fd_oracle(case[1:], out)
        if k == 2:
            return fd_oracle(case[3:], out)
        if k == 3:
            return accept_oracle(case, out)
        if k == 4:
            return timing_oracle(case, out)
        if k == 5:
            return multishot_oracle(case, out)
        return None

    def known(self, case, out, what):
        if case[:2] == [5, 0] and out[:2] == [0, 5] and len(out) - 2 == 3 * len(case[2:]) + 2:
            o = out[2:]
            for k, op in enumerate(case[2:]):
                ok, unheld, _ = o[3 * k:3 * k + 3]
                prev = o[3 * (k - 1) + 1] if k > 0 else 0
                # the runtime was dropped while accepted connections were still unreaped: nothing changed
                # hands at that step and exactly those stay open
                if op == 6 and ok == 1 and unheld >= 1 and unheld <= prev and o[-2] == unheld:
                    return KNOWN_URING_DROP
            return None
        out = out[2:] if out[:2] == [0, 3] else []
        if case[:2] == [3, 0] and out and len(out) == 3 * len(case[2:]) + 1:
            prog = case[2:]
            for k, op in enumerate(prog):
                ok, unheld, _ = out[3 * k:3 * k + 3]
                prev = out[3 * (k - 1) + 1] if k > 0 else 0
                if op == 6 and ok == 1 and unheld == 1 and prev == 1 and out[-1] == 1:
                    return KNOWN_URING_DROP
        return None

    # -- the `sync` build: loom port + forced schedule on the real type (search engines) --
    def sync_engines(self):
        d = os.path.join(vlib.ROOT, "harness", "loom-c06")
        tdir = os.path.join(vlib.TARGET, "loom-c06")
        if vlib.REPO.rstrip("/") != "/repo":
            # dev use (seeded changes in a scratch checkout): a copy whose path dependency points there
            alt = os.path.join(vlib.TARGET, "alt_harness", "loom-c06")
            shutil.rmtree(alt, ignore_errors=True)
            shutil.copytree(d, alt, ignore=shutil.ignore_patterns("Cargo.lock", "target"))
            toml = os.path.join(alt, "Cargo.toml")
            text = open(toml).read().replace('"/repo/', '"%s/' % vlib.REPO.rstrip("/"))
            open(toml, "w").write(text)
            d, tdir = alt, os.path.join(vlib.TARGET, "alt-loom-c06")
        lock = os.path.join(d, "Cargo.lock")
        if not os.path.exists(lock):
            src = os.path.join(vlib.REPO, "Cargo.lock")
            shutil.copy(src if os.path.exists(src) else "/repo/Cargo.lock", lock)
        env = {"CARGO_TARGET_DIR": tdir, "RUSTFLAGS": "-Awarnings"}
        t0 = time.time()
        rc, out = vlib.sh(["cargo", "build", "--offline", "-q", "--bins"], 900, cwd=d, env=env)
        info = {"build_exit": rc, "role": "search engines only (never a proof)"}
        if rc != 0:
            info["build_log"] = out[-1500:]
            return info
        exe = os.path.join(tdir, "debug")
        rc1, o1 = vlib.sh([os.path.join(exe, "c06_loom")], 300)
        rc2, o2 = vlib.sh([os.path.join(exe, "c06_sync_real"), "forced"], 60)
        rc3, o3 = vlib.sh([os.path.join(exe, "c06_sync_real"), "free"], 60)

        def nums(o):
            for line in o.splitlines():
                t = line.split()
                if t and all(x.isdigit() for x in t):
                    return [int(x) for x in t]
            return None
        info.update(loom=nums(o1), loom_note=[l for l in o1.splitlines() if l.startswith("liveness")][:1],
                    real_forced=nums(o2), real_free=nums(o3), seconds=round(time.time() - t0, 1))
        return info

    def run(self, tier, seed, replay=None):
        rc = diffcheck.run(self, tier, seed, replay)
        if replay:
            return rc
        info = self.sync_engines()
        lines = []
        loom = info.get("loom")
        forced = info.get("real_forced")
        bad = None
        if info.get("build_exit") != 0 or loom is None or forced is None:
            bad = "the sync engines (harness/loom-c06) did not build or run"
        elif loom[0] != 1:
            bad = ("loom: the fd.rs port closes the descriptor twice, while an operation holds it, or never "
                   "(safety model failed)")
        if bad:
            path = os.path.join(vlib.OUT, "C06", "sync_%s.json" % tier)
            vlib.write_json(path, {"property": "C06", "kind": "sync-engines", "what": bad, "info": info})
            vlib.log("VIOLATION property=C06 replay=%s" % path)
            rc = 1
        else:
            if loom[1] == 1 or forced[4] == 1:
                lines.append("KNOWN-FINDING: property=C06 %s: feature `sync`: Drop for SharedFd wakes before the "
                             "decrement; the woken take()/close() polls in between and is never woken again "
                             "(loom port: %s; forced schedule on the real type: polls=%d got_fd=%d wakes=%d stranded=%d; "
                             "Coq witness C06_sync_closer_stranded_refuted)"
                             % (KNOWN_SYNC, "deadlock found" if loom[1] else "not found", forced[0], forced[1],
                                forced[2], forced[4]))
            else:
                lines.append("NOTE: C06 %s no longer reproduced by loom / the forced schedule" % KNOWN_SYNC)
        for l in lines:
            vlib.log(l)
        evp = os.path.join(vlib.ROOT, "evidence", "C06.json")
        try:
            ev = json.load(open(evp))
            ev["coverage"]["sync_engines"] = info
            if not bad and (loom[1] == 1 or forced[4] == 1) and KNOWN_SYNC not in ev["coverage"].get("known_findings_seen", []):
                ev["coverage"].setdefault("known_findings_seen", []).append(KNOWN_SYNC)
            if bad:
                ev["violations"] = ev.get("violations", 0) + 1
            vlib.write_json(evp, ev)
        except (OSError, ValueError, KeyError):
            pass
        vlib.log("C06 sync engines: loom %s, real forced %s, real free %s, %.1fs"
                 % (loom, forced, info.get("real_free"), info.get("seconds", 0)))
        return rc


PROP = C06()
