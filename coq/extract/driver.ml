(* Generic driver of an extracted model: each stdin line is a list of
   non-negative integers (a case); the result list of @RUN@ is printed on one
   line.  tools/vlib.py substitutes the run function's name. *)
open Models

let rec pos_of_int (n : int) : positive =
  if n = 1 then XH
  else if n land 1 = 1 then XI (pos_of_int (n lsr 1))
  else XO (pos_of_int (n lsr 1))

let n_of_int (n : int) : n = if n = 0 then N0 else Npos (pos_of_int n)

let rec int_of_pos (p : positive) : int =
  match p with XH -> 1 | XO q -> 2 * int_of_pos q | XI q -> 2 * int_of_pos q + 1

let int_of_n (x : n) : int = match x with N0 -> 0 | Npos p -> int_of_pos p

let () =
  let buf = Buffer.create 4096 in
  (try
    while true do
      let line = input_line stdin in
      let toks = List.filter (fun s -> s <> "") (String.split_on_char ' ' (String.trim line)) in
      let case = List.map (fun s -> n_of_int (int_of_string s)) toks in
      let out = @RUN@ case in
      Buffer.clear buf;
      List.iteri (fun i x ->
        if i > 0 then Buffer.add_char buf ' ';
        Buffer.add_string buf (string_of_int (int_of_n x))) out;
      print_endline (Buffer.contents buf)
    done
  with End_of_file -> ())
