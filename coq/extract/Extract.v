(* Extraction of the executable models for the correspondence checks.
   ExtrOcamlBasic only: bool, option, unit, list, prod, sumbool map to OCaml's;
   nat, N, Z, positive stay the Coq datatypes. No Extract Constant. *)
Require Extraction.
Require Import ExtrOcamlBasic.
From Compio.Model Require RunC11.
Extraction Language OCaml.
Set Extraction KeepSingleton.
Extraction "extract/gen/models.ml" RunC11.run_c11.
