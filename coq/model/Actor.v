(* Actor.v — compio-actor as labelled transition systems (C19).

   Part 1  one actor and its mailbox: compio-actor/src/mailbox/{mod,receiver,call}.rs,
           actor/deliver.rs (run, finish), cluster/spawn.rs (the task body).
           Every atomic operation on shared state is one label; the actor task
           and the threads using the mailbox carry their position in the state.
             - message channel  = bounded FIFO of capacity [cap] >= 1 (flume::bounded)
             - stop channel     = one slot (flume::bounded(1))
             - stopping         = the AtomicBool of MailboxInner
             - rx               = the Receiver (both flume receivers) is not dropped yet
           flume is assumed to be a linearizable FIFO whose queued items stay
           alive while a sender exists (that is what made D11 a hang).
   Part 2  the name registry: cluster/registry.rs (reserve / activate / Drop).
   Part 3  ProcessGroup::send as a pure function: process_group/mod.rs.
   No proofs here. *)
From Compio.Model Require Import Base.

(* ---------------------------------------------------------------------- *)
(* Part 1: one actor                                                        *)

(* what the handler of a message does (scripted by the environment) *)
Inductive beh := BOk | BFail | BNoReply.

Record msg := mk_msg {
  mid : nat;        (* identity of the message *)
  mcall : bool;     (* a Call: carries a oneshot reply sender *)
  mbeh : beh        (* BOk: replies (if a call) and returns Ok; BNoReply: drops the
                       reply port, returns Ok; BFail: returns Err (reply port dropped) *)
}.

Inductive sres := SOk | SFull | SClosed.          (* result of Mailbox::send *)
Inductive exitk := XStopped | XFailed.            (* ActorExit *)
Inductive fin := FStartFailed | FExit (x : exitk) | FCancelled.

(* what follows the drop of the Receiver: post_stop (finish) or the end of the
   task (failed pre_start, cancellation) *)
Inductive cont := CPostStop (x : exitk) | CFin (f : fin).

(* lifecycle trace of the actor task *)
Inductive lev :=
| LPreStart (ok : bool) | LPostStart (ok : bool) | LHandle (m : msg)
| LPreStop (ok : bool) | LPostStop (ok : bool).

(* program counter of the actor task (cluster/spawn.rs + deliver.rs) *)
Inductive apc :=
| PPreStart                     (* dispatched; pre_start not finished *)
| PStartAck                     (* pre_start ok, name activated; about to started_tx.send(Ok) *)
| PPostStart                    (* run(): post_start not finished *)
| PSelStop                      (* Receiver::recv: polling the stop channel (biased: first) *)
| PSelMsg                       (* ... stop channel was empty: polling the message channel *)
| PHandling (m : msg)           (* handler of m running *)
| PBeginStop (x : exitk)        (* finish(): about to store stopping = true *)
| PPreStop (x : exitk)          (* pre_stop not finished *)
| PDrain (k : cont)             (* Receiver::drop: about to drain the queue (repaired code only) *)
| PDropRx (k : cont)            (* about to drop the two flume receivers *)
| PPostStop (x : exitk)         (* post_stop not finished *)
| PGone (f : fin).              (* the task is over *)

Record ast := mk_ast {
  cap : nat;
  queue : list msg;          (* message channel *)
  slot : bool;               (* stop channel holds () *)
  stopping : bool;
  rx : bool;                 (* receiver alive *)
  pc : apc;
  passed : list msg;         (* sends between their is_closed() check and their try_send *)
  swapped : bool;            (* a stop() is between its swap and its try_send *)
  (* ghost history *)
  accepted : list msg;       (* try_send returned Ok, in channel order *)
  handled : list msg;        (* handlers started, in order *)
  drained : list msg;        (* dropped unhandled by Receiver::drop *)
  released : list msg;       (* messages whose reply port was used or dropped, in order *)
  finished : list msg;       (* handlers that returned, in order *)
  overlap : list msg;        (* sends that were between check and push when stopping was set *)
  late : list msg;           (* accepted between the drain and the drop of the receiver *)
  tr : list lev
}.

Definition init (c : nat) : ast :=
  mk_ast c [] false false true PPreStart [] false [] [] [] [] [] [] [] [].

Definition w_queue v s := mk_ast (cap s) v (slot s) (stopping s) (rx s) (pc s) (passed s) (swapped s) (accepted s) (handled s) (drained s) (released s) (finished s) (overlap s) (late s) (tr s).
Definition w_slot v s := mk_ast (cap s) (queue s) v (stopping s) (rx s) (pc s) (passed s) (swapped s) (accepted s) (handled s) (drained s) (released s) (finished s) (overlap s) (late s) (tr s).
Definition w_rx v s := mk_ast (cap s) (queue s) (slot s) (stopping s) v (pc s) (passed s) (swapped s) (accepted s) (handled s) (drained s) (released s) (finished s) (overlap s) (late s) (tr s).
Definition w_pc v s := mk_ast (cap s) (queue s) (slot s) (stopping s) (rx s) v (passed s) (swapped s) (accepted s) (handled s) (drained s) (released s) (finished s) (overlap s) (late s) (tr s).
Definition w_passed v s := mk_ast (cap s) (queue s) (slot s) (stopping s) (rx s) (pc s) v (swapped s) (accepted s) (handled s) (drained s) (released s) (finished s) (overlap s) (late s) (tr s).
Definition w_swapped v s := mk_ast (cap s) (queue s) (slot s) (stopping s) (rx s) (pc s) (passed s) v (accepted s) (handled s) (drained s) (released s) (finished s) (overlap s) (late s) (tr s).
Definition w_accepted v s := mk_ast (cap s) (queue s) (slot s) (stopping s) (rx s) (pc s) (passed s) (swapped s) v (handled s) (drained s) (released s) (finished s) (overlap s) (late s) (tr s).
Definition w_handled v s := mk_ast (cap s) (queue s) (slot s) (stopping s) (rx s) (pc s) (passed s) (swapped s) (accepted s) v (drained s) (released s) (finished s) (overlap s) (late s) (tr s).
Definition w_drained v s := mk_ast (cap s) (queue s) (slot s) (stopping s) (rx s) (pc s) (passed s) (swapped s) (accepted s) (handled s) v (released s) (finished s) (overlap s) (late s) (tr s).
Definition w_released v s := mk_ast (cap s) (queue s) (slot s) (stopping s) (rx s) (pc s) (passed s) (swapped s) (accepted s) (handled s) (drained s) v (finished s) (overlap s) (late s) (tr s).
Definition w_finished v s := mk_ast (cap s) (queue s) (slot s) (stopping s) (rx s) (pc s) (passed s) (swapped s) (accepted s) (handled s) (drained s) (released s) v (overlap s) (late s) (tr s).
Definition w_late v s := mk_ast (cap s) (queue s) (slot s) (stopping s) (rx s) (pc s) (passed s) (swapped s) (accepted s) (handled s) (drained s) (released s) (finished s) (overlap s) v (tr s).
Definition w_tr v s := mk_ast (cap s) (queue s) (slot s) (stopping s) (rx s) (pc s) (passed s) (swapped s) (accepted s) (handled s) (drained s) (released s) (finished s) (overlap s) (late s) v.

(* storing stopping = true; the first time, remember who is in mid-send *)
Definition set_stopping (s : ast) : ast :=
  mk_ast (cap s) (queue s) (slot s) true (rx s) (pc s) (passed s) (swapped s) (accepted s)
         (handled s) (drained s) (released s) (finished s)
         (if stopping s then overlap s else passed s) (late s) (tr s).

Definition log (e : lev) (s : ast) : ast := w_tr (tr s ++ [e]) s.

(* MailboxInner::is_closed: stopping || messages.is_disconnected() || stop.is_disconnected();
   the senders never all disappear (the actor task holds one) *)
Definition closed (s : ast) : bool := stopping s || negb (rx s).

Definition beh_eqb (a b : beh) : bool :=
  match a, b with BOk, BOk | BFail, BFail | BNoReply, BNoReply => true | _, _ => false end.
Definition msg_eqb (a b : msg) : bool :=
  Nat.eqb (mid a) (mid b) && Bool.eqb (mcall a) (mcall b) && beh_eqb (mbeh a) (mbeh b).

(* remove the first occurrence *)
Fixpoint remove1 (m : msg) (l : list msg) : option (list msg) :=
  match l with
  | [] => None
  | x :: r => if msg_eqb m x then Some r
              else match remove1 m r with Some r' => Some (x :: r') | None => None end
  end.

Inductive ev :=
(* any thread holding a Mailbox / Broker *)
| ESendClosed (m : msg)            (* send: is_closed() was true  => Err(Closed(m)) *)
| ESendPass (m : msg)              (* send: is_closed() was false *)
| ESendPush (m : msg) (r : sres)   (* send: try_send => Ok | Full(m) | Disconnected => Closed(m) *)
| EStopNoop                        (* stop(): the swap saw true  => false *)
| EStopSwap                        (* stop(): the swap saw false *)
| EStopPush (r : bool)             (* stop(): try_send(()) on the stop channel *)
(* the actor task *)
| EPreStart (ok : bool)
| EStartAck (delivered : bool)     (* false: the SpawnFuture was dropped *)
| EPostStart (ok : bool)
| ESelStop (got : bool)
| ESelMsg (m : option msg)         (* None: channel empty; woken up later, polls again *)
| EHandled (m : msg)
| EBeginStop
| EPreStop (ok : bool)
| EDrain
| EDropRx
| EPostStop (ok : bool)
| ECancel.                         (* the worker's runtime is dropped: the task future is dropped
                                      at an await point (Cluster::join) *)

Definition worse (x : exitk) (ok : bool) : exitk :=
  if ok then x else XFailed.       (* only the first error is kept: Stopped -> Failed, Failed stays *)

(* [rep] = the repaired Receiver (drains the queue in Drop).  rep = false is the
   code before the fix: the queue is left as it is. *)
Definition drop_receiver (rep : bool) (k : cont) : apc :=
  if rep then PDrain k else PDropRx k.
Definition in_drop_window (s : ast) : bool :=
  match pc s with PDropRx _ => true | _ => false end.

Definition step_gen (rep : bool) (s : ast) (e : ev) : option ast :=
  match e with
  | ESendClosed m => if closed s then Some s else None
  | ESendPass m => if closed s then None else Some (w_passed (passed s ++ [m]) s)
  | ESendPush m r =>
    match remove1 m (passed s) with
    | None => None
    | Some p =>
      let s1 := w_passed p s in
      match r with
      | SClosed => if rx s then None else Some s1
      | SFull => if rx s && Nat.leb (cap s) (length (queue s)) then Some s1 else None
      | SOk => if rx s && Nat.ltb (length (queue s)) (cap s)
               then Some (w_late (if in_drop_window s then late s ++ [m] else late s)
                          (w_accepted (accepted s ++ [m]) (w_queue (queue s ++ [m]) s1)))
               else None
      end
    end
  | EStopNoop => if stopping s then Some s else None
  | EStopSwap => if stopping s then None else Some (w_swapped true (set_stopping s))
  | EStopPush r =>
    if swapped s then
      (* bounded(1): Ok iff the receiver is alive and the slot is free *)
      if rx s && negb (slot s)
      then (if r then Some (w_swapped false (w_slot true s)) else None)
      else (if r then None else Some (w_swapped false s))
    else None
  | EPreStart ok =>
    match pc s with
    | PPreStart =>
      (* on failure the async block returns: the Receiver it owns is dropped *)
      Some (log (LPreStart ok)
             (w_pc (if ok then PStartAck else drop_receiver rep (CFin FStartFailed)) s))
    | _ => None
    end
  | EStartAck d =>
    match pc s with
    | PStartAck => Some (w_pc (if d then PPostStart else PBeginStop XStopped) s)
    | _ => None
    end
  | EPostStart ok =>
    match pc s with
    | PPostStart => Some (log (LPostStart ok) (w_pc (if ok then PSelStop else PBeginStop XFailed) s))
    | _ => None
    end
  | ESelStop got =>
    match pc s with
    | PSelStop =>
      if slot s
      then (if got then Some (w_pc (PBeginStop XStopped) (w_slot false s)) else None)
      else (if got then None else Some (w_pc PSelMsg s))
    | _ => None
    end
  | ESelMsg om =>
    match pc s with
    | PSelMsg =>
      match queue s, om with
      | [], None => Some (w_pc PSelStop s)
      | x :: q, Some m =>
        if msg_eqb m x
        then Some (log (LHandle x) (w_handled (handled s ++ [x]) (w_pc (PHandling x) (w_queue q s))))
        else None
      | _, _ => None
      end
    | _ => None
    end
  | EHandled m =>
    match pc s with
    | PHandling x =>
      if msg_eqb m x
      then Some (w_finished (finished s ++ [x]) (w_released (released s ++ [x])
                  (w_pc (match mbeh x with BFail => PBeginStop XFailed | _ => PSelStop end) s)))
      else None
    | _ => None
    end
  | EBeginStop =>
    match pc s with
    | PBeginStop x => Some (w_pc (PPreStop x) (set_stopping s))
    | _ => None
    end
  | EPreStop ok =>
    match pc s with
    | PPreStop x => Some (log (LPreStop ok) (w_pc (drop_receiver rep (CPostStop (worse x ok))) s))
    | _ => None
    end
  | EDrain =>
    match pc s with
    | PDrain k => Some (w_pc (PDropRx k)
                         (w_released (released s ++ queue s)
                           (w_drained (drained s ++ queue s) (w_queue [] s))))
    | _ => None
    end
  | EDropRx =>
    match pc s with
    | PDropRx k =>
      Some (w_pc (match k with CPostStop x => PPostStop x | CFin f => PGone f end) (w_rx false s))
    | _ => None
    end
  | EPostStop ok =>
    match pc s with
    | PPostStop x => Some (log (LPostStop ok) (w_pc (PGone (FExit (worse x ok))) s))
    | _ => None
    end
  | ECancel =>
    match pc s with
    | PPreStart | PPostStart | PSelStop | PSelMsg | PPreStop _ =>
      Some (w_pc (drop_receiver rep (CFin FCancelled)) s)
    | PHandling x =>
      (* the handler future is dropped with the message it owns *)
      Some (w_pc (drop_receiver rep (CFin FCancelled)) (w_released (released s ++ [x]) s))
    | PPostStop _ => Some (w_pc (PGone FCancelled) s)
    | _ => None
    end
  end.

Definition step := step_gen true.               (* the code as it is now *)
Definition step_unrepaired := step_gen false.   (* before the fix of D11 *)

Fixpoint steps_gen (rep : bool) (s : ast) (es : list ev) : option ast :=
  match es with
  | [] => Some s
  | e :: r => match step_gen rep s e with Some s' => steps_gen rep s' r | None => None end
  end.
Definition steps := steps_gen true.

(* a call m is answered (reply or NoReply) iff its reply port was used or dropped *)
Definition answered (s : ast) (m : msg) : bool := existsb (msg_eqb m) (released s).
Definition is_gone (s : ast) : bool := match pc s with PGone _ => true | _ => false end.
Definition cur (s : ast) : list msg := match pc s with PHandling m => [m] | _ => [] end.

(* vocabulary of the lifecycle statements *)
(* the trace up to the stop hooks: start-up acknowledged to nobody (the
   SpawnFuture was dropped), post_start failed, or post_start ok + handlers *)
Definition started_shape (t : list lev) (h : list msg) : Prop :=
  (t = [LPreStart true] /\ h = []) \/
  (t = [LPreStart true; LPostStart false] /\ h = []) \/
  t = LPreStart true :: LPostStart true :: map LHandle h.

(* a task cancelled at an await point has run a prefix of that *)
Definition cancelled_shape (t : list lev) (h : list msg) : Prop :=
  (t = [] /\ h = []) \/ started_shape t h \/
  (exists t0 a, t = t0 ++ [LPreStop a] /\ started_shape t0 h).

Definition pre_drain (p : apc) : bool :=
  match p with PDropRx _ | PPostStop _ | PGone _ => false | _ => true end.
Definition post_drop (p : apc) : bool :=
  match p with PPostStop _ | PGone _ => true | _ => false end.
(* finish() has stored stopping = true *)
Definition finishing (p : apc) : bool :=
  match p with
  | PPreStop _ | PDrain (CPostStop _) | PDropRx (CPostStop _) | PPostStop _ | PGone (FExit _) => true
  | _ => false
  end.
(* the labels of the actor task itself *)
Definition actor_ev (e : ev) : bool :=
  match e with
  | ESendClosed _ | ESendPass _ | ESendPush _ _ | EStopNoop | EStopSwap | EStopPush _ => false
  | _ => true
  end.

(* ---------------------------------------------------------------------- *)
(* Part 2: the name registry                                               *)
(* HashMap<Name, Option<ErasedMailbox>>: a name maps to None (reserved) or to
   the actor (spawn attempt) that activated it.  A spawn attempt that reserved
   a name holds a Registration token until it is dropped. *)

Record rst := mk_rst {
  table : list (nat * option nat);   (* name -> None | Some attempt *)
  tokens : list (nat * nat)          (* (attempt, name): live Registration values *)
}.

Definition rinit : rst := mk_rst [] [].

Fixpoint tfind (n : nat) (t : list (nat * option nat)) : option (option nat) :=
  match t with
  | [] => None
  | (k, v) :: r => if Nat.eqb k n then Some v else tfind n r
  end.
Fixpoint tremove (n : nat) (t : list (nat * option nat)) : list (nat * option nat) :=
  match t with
  | [] => []
  | (k, v) :: r => if Nat.eqb k n then tremove n r else (k, v) :: tremove n r
  end.
Fixpoint tset (n : nat) (v : option nat) (t : list (nat * option nat)) : list (nat * option nat) :=
  match t with
  | [] => []
  | (k, w) :: r => if Nat.eqb k n then (k, v) :: r else (k, w) :: tset n v r
  end.
Fixpoint kfind (a : nat) (k : list (nat * nat)) : option nat :=
  match k with
  | [] => None
  | (b, n) :: r => if Nat.eqb b a then Some n else kfind a r
  end.
Fixpoint kremove (a : nat) (k : list (nat * nat)) : list (nat * nat) :=
  match k with
  | [] => []
  | (b, n) :: r => if Nat.eqb b a then kremove a r else (b, n) :: kremove a r
  end.

Definition lookup (r : rst) (n : nat) : option nat :=
  match tfind n (table r) with Some (Some a) => Some a | _ => None end.

Inductive rev :=
| RReserve (a n : nat) (ok : bool)   (* Registry::reserve by spawn attempt a; false = NameTaken *)
| RActivate (a : nat)                (* Registration::activate, after pre_start succeeded *)
| RRelease (a : nat)                 (* Drop of the Registration: failed start, exit, cancellation *)
| RLookup (n : nat) (res : option nat).

Definition rstep (r : rst) (e : rev) : option rst :=
  match e with
  | RReserve a n ok =>
    match kfind a (tokens r) with
    | Some _ => None                                   (* an attempt reserves once *)
    | None =>
      match tfind n (table r) with
      | Some _ => if ok then None else Some r
      | None => if ok then Some (mk_rst (table r ++ [(n, None)]) (tokens r ++ [(a, n)])) else None
      end
    end
  | RActivate a =>
    match kfind a (tokens r) with
    | Some n =>
      match tfind n (table r) with
      | Some _ => Some (mk_rst (tset n (Some a) (table r)) (tokens r))
      | None => None      (* the code panics here: "actor registration disappeared" *)
      end
    | None => None
    end
  | RRelease a =>
    match kfind a (tokens r) with
    | Some n => Some (mk_rst (tremove n (table r)) (kremove a (tokens r)))
    | None => None
    end
  | RLookup n res =>
    match lookup r n, res with
    | Some a, Some b => if Nat.eqb a b then Some r else None
    | None, None => Some r
    | _, _ => None
    end
  end.

Fixpoint rsteps (r : rst) (es : list rev) : option rst :=
  match es with
  | [] => Some r
  | e :: t => match rstep r e with Some r' => rsteps r' t | None => None end
  end.

(* ---------------------------------------------------------------------- *)
(* Part 3: ProcessGroup::send (round robin)                                 *)

Inductive mres := MOk | MFull | MClosed.       (* what member.broker.send(message) returns *)
Inductive gres := GDelivered (member : nat) | GBack (full : bool).  (* Ok | Err(Full/Closed(message)) *)

Definition remove_at (i : nat) (l : list nat) : list nat := firstn i l ++ skipn (S i) l.

(* the loop: [att] attempts left, [idx] the member to try next, [tried] in order *)
Fixpoint gloop (out : nat -> mres) (att : nat) (ms : list nat) (idx : nat) (sawf : bool)
         (tried : list nat) : gres * list nat * list nat :=
  match att with
  | O => (GBack sawf, ms, tried)
  | S a =>
    match ms with
    | [] => (GBack sawf, ms, tried)
    | _ =>
      let i := nth idx ms 0 in
      match out i with
      | MOk => (GDelivered i, ms, tried ++ [i])
      | MFull => gloop out a ms ((idx + 1) mod length ms) true (tried ++ [i])
      | MClosed =>
        let ms' := remove_at idx ms in
        gloop out a ms' (match ms' with [] => idx | _ => idx mod length ms' end) sawf (tried ++ [i])
      end
    end
  end.

(* returns (result, members afterwards, cursor afterwards, members tried in order) *)
Definition gsend (out : nat -> mres) (ms : list nat) (cursor : nat)
  : gres * list nat * nat * list nat :=
  match ms with
  | [] => (GBack false, ms, cursor, [])
  | _ =>
    let '(r, ms', tried) := gloop out (length ms) ms (cursor mod length ms) false [] in
    (r, ms', S cursor, tried)
  end.
