(* RunC19.v — executable front ends of the actor model (C19).

   kind 1  deterministic programs of one controlling thread over a cluster:
           spawn (named/unnamed, capacities, failing hooks, supervisor, dropped
           spawn future), send, call, stop, lookup, gate release, process-group
           join/leave/send/call; after every operation every actor runs until it
           blocks.  The interpreter only moves through [Actor.step] / [Actor.rstep]
           / [Actor.gsend]; the result is compared exactly with the real crate.
   kind 2  acceptor of a log recorded from several threads using one mailbox:
           invocation/response events of send/call/stop + what the actor task did;
           the atomic steps in between are searched (all interleavings of the
           pending operations with the actor's silent steps).
   No proofs here. *)
From Compio.Model Require Import Base Actor.

Definition STUCK : list N := [77%N].     (* the interpreter left the LTS: a modelling error *)

(* ---------------------------------------------------------------------- *)
(* messages of the harness                                                  *)
(* behaviour codes: 0 ok, 1 fail, 2 gate (waits for Release, then ok), 3 the
   handler calls myself.stop(), 4 no reply, 5 yields then ok, 6 sleeps then ok.
   mid = public id + 1000 * extra (1 gate, 2 stop-self). *)
Definition mk (id : nat) (call : bool) (behc : nat) : msg :=
  match behc with
  | 1 => mk_msg id call BFail
  | 2 => mk_msg (id + 1000) call BOk
  | 3 => mk_msg (id + 2000) call BOk
  | 4 => mk_msg id call BNoReply
  | _ => mk_msg id call BOk
  end.
Definition extra (m : msg) : nat := mid m / 1000.
Definition pub_id (m : msg) : nat := mid m mod 1000.
(* supervision events: 500 + 10 * child + kind (1 started, 2 terminated, 3 failed) *)
Definition sup_msg (child kind : nat) : msg := mk_msg (500 + 10 * child + kind) false BOk.
Definition is_sup_started (m : msg) : option nat :=
  let p := pub_id m in
  if Nat.leb 500 p && Nat.eqb ((p - 500) mod 10) 1 then Some ((p - 500) / 10) else None.

(* ---------------------------------------------------------------------- *)
(* atomic use of a mailbox by a thread nobody interleaves with              *)

Definition send_atomic (s : ast) (m : msg) : option (ast * sres) :=
  if closed s then
    match step s (ESendClosed m) with Some s1 => Some (s1, SClosed) | None => None end
  else
    match step s (ESendPass m) with
    | None => None
    | Some s1 =>
      let r := if rx s1 then (if Nat.ltb (length (queue s1)) (cap s1) then SOk else SFull)
               else SClosed in
      match step s1 (ESendPush m r) with Some s2 => Some (s2, r) | None => None end
    end.

Definition stop_atomic (s : ast) : option (ast * bool) :=
  if stopping s then
    match step s EStopNoop with Some s1 => Some (s1, false) | None => None end
  else
    match step s EStopSwap with
    | None => None
    | Some s1 =>
      let r := rx s1 && negb (slot s1) in
      match step s1 (EStopPush r) with Some s2 => Some (s2, r) | None => None end
    end.

(* what member.broker.send would return, without doing it *)
Definition peek_send (s : ast) : mres :=
  if closed s then MClosed
  else if Nat.ltb (length (queue s)) (cap s) then MOk else MFull.

(* ---------------------------------------------------------------------- *)
(* kind 1: the system                                                       *)

Record act := mk_act {
  a_st : ast;
  a_present : bool;     (* an actor task exists (the name was not taken) *)
  a_name : nat;         (* 0 = unnamed *)
  a_sup : nat;          (* 0 = none, else index of the supervisor + 1 *)
  a_flags : nat;        (* bit0 pre_start fails, 1 post_start, 2 pre_stop, 3 post_stop,
                           4 as a supervisor: stop the child on ActorStarted, 5 spawn future dropped,
                           6 post_stop waits until the harness (a caller) signals *)
  a_gated : bool;
  a_res : nat;          (* what spawn returned; 0 while the spawn is still pending *)
  a_pending : bool;     (* spawn begun with a gated pre_start: name reserved, pre_start not finished *)
  a_psopen : bool       (* flag bit6: post_stop waits for a signal; true once it was given *)
}.

Record grp := mk_grp { g_members : list (nat * nat);  (* (member id, actor) *)
                       g_cursor : nat; g_next : nat }.

Record sys := mk_sys {
  acts : list act;
  reg : rst;
  grps : list grp;
  calls : list (nat * msg * nat);   (* actor (or 999), message, immediate status 1/2/3 *)
  ok : bool                         (* false: the interpreter got stuck *)
}.

Definition flag (a : act) (k : nat) : bool := Nat.testbit (a_flags a) k.

Definition set_nth {A} (l : list A) (i : nat) (x : A) : list A :=
  firstn i l ++ match skipn i l with [] => [] | _ :: r => x :: r end.

Definition w_acts v s := mk_sys v (reg s) (grps s) (calls s) (ok s).
Definition w_reg v s := mk_sys (acts s) v (grps s) (calls s) (ok s).
Definition w_grps v s := mk_sys (acts s) (reg s) v (calls s) (ok s).
Definition w_calls v s := mk_sys (acts s) (reg s) (grps s) v (ok s).
Definition fail_sys s := mk_sys (acts s) (reg s) (grps s) (calls s) false.

Definition w_ast (a : act) (v : ast) : act :=
  mk_act v (a_present a) (a_name a) (a_sup a) (a_flags a) (a_gated a) (a_res a) (a_pending a) (a_psopen a).
Definition w_gated (a : act) (v : bool) : act :=
  mk_act (a_st a) (a_present a) (a_name a) (a_sup a) (a_flags a) v (a_res a) (a_pending a) (a_psopen a).
Definition w_psopen (a : act) (v : bool) : act :=
  mk_act (a_st a) (a_present a) (a_name a) (a_sup a) (a_flags a) (a_gated a) (a_res a) (a_pending a) v.

Definition set_act (s : sys) (i : nat) (a : act) : sys := w_acts (set_nth (acts s) i a) s.

(* a send by library code whose result is ignored (supervision events) *)
Definition notify (s : sys) (sup1 child kind : nat) : sys :=
  match sup1 with
  | O => s
  | S j =>
    match nth_error (acts s) j with
    | Some a =>
      if a_present a then
        match send_atomic (a_st a) (sup_msg child kind) with
        | Some (st', _) => set_act s j (w_ast a st')
        | None => fail_sys s
        end
      else s
    | None => s
    end
  end.

Definition stop_actor (s : sys) (j : nat) : sys * nat :=
  match nth_error (acts s) j with
  | Some a =>
    if a_present a then
      match stop_atomic (a_st a) with
      | Some (st', r) => (set_act s j (w_ast a st'), if r then 1 else 0)
      | None => (fail_sys s, 0)
      end
    else (s, 0)
  | None => (s, 0)
  end.

Definition rdo (s : sys) (e : rev) : sys :=
  match rstep (reg s) e with Some r' => w_reg r' s | None => fail_sys s end.

(* one step of actor i, if it can move *)
Definition progress (s : sys) (i : nat) : option sys :=
  match nth_error (acts s) i with
  | None => None
  | Some a =>
    if negb (a_present a) then None else
    let st := a_st a in
    let go (e : ev) (k : ast -> sys) : option sys :=
        match step st e with Some st' => Some (k st') | None => Some (fail_sys s) end in
    let plain (e : ev) := go e (fun st' => set_act s i (w_ast a st')) in
    match pc st with
    | PPreStart | PStartAck | PGone _ => None
    | PPostStart =>
      let okk := negb (flag a 1) in
      go (EPostStart okk) (fun st' =>
        let s1 := set_act s i (w_ast a st') in
        if okk then notify s1 (a_sup a) i 1 else s1)
    | PSelStop => plain (ESelStop (slot st))
    | PSelMsg =>
      match queue st with
      | [] => if slot st then plain (ESelMsg None) else None
      | m :: _ =>
        go (ESelMsg (Some m)) (fun st' =>
          let a1 := w_ast a st' in
          match extra m with
          | 1 => set_act s i (w_gated a1 true)
          | 2 =>
            match stop_atomic st' with
            | Some (st2, _) => set_act s i (w_ast a st2)
            | None => fail_sys s
            end
          | _ =>
            let s1 := set_act s i a1 in
            match is_sup_started m with
            | Some child => if flag a 4 then fst (stop_actor s1 child) else s1
            | None => s1
            end
          end)
      end
    | PHandling m => if a_gated a then None else plain (EHandled m)
    | PBeginStop _ => plain EBeginStop
    | PPreStop _ => plain (EPreStop (negb (flag a 2)))
    | PDrain _ => plain EDrain
    | PDropRx _ => plain EDropRx
    | PPostStop _ =>
      if flag a 6 && negb (a_psopen a) then None else
      go (EPostStop (negb (flag a 3))) (fun st' =>
        let s1 := set_act s i (w_ast a st') in
        let s2 := if Nat.eqb (a_name a) 0 then s1 else rdo s1 (RRelease i) in
        if flag a 5 then s2 else
        match pc st' with
        | PGone (FExit XStopped) => notify s2 (a_sup a) i 2
        | _ => notify s2 (a_sup a) i 3
        end)
    end
  end.

Fixpoint first_progress (s : sys) (i n : nat) : option sys :=
  match n with
  | O => None
  | S k => match progress s i with Some s' => Some s' | None => first_progress s (S i) k end
  end.

Fixpoint quiesce (fuel : nat) (s : sys) : sys :=
  match fuel with
  | O => fail_sys s
  | S f =>
    match first_progress s 0 (length (acts s)) with
    | Some s' => if ok s' then quiesce f s' else s'
    | None => s
    end
  end.

Definition FUEL := 3000.

Definition sres_code (r : sres) : N := match r with SOk => 1 | SFull => 2 | SClosed => 3 end%N.

(* --- operations -------------------------------------------------------- *)

Definition op_spawn (s : sys) (name cp flags sup1 : nat) : sys * list N :=
  let i := length (acts s) in
  let absent r := mk_act (init cp) false name sup1 flags false r false false in
  let taken := if Nat.eqb name 0 then false
               else match tfind name (table (reg s)) with Some _ => true | None => false end in
  if taken then (rdo (w_acts (acts s ++ [absent 2]) s) (RReserve i name false), [2%N]) else
  let s0 := if Nat.eqb name 0 then s else rdo s (RReserve i name true) in
  let pre_ok := negb (Nat.testbit flags 0) in
  match step (init cp) (EPreStart pre_ok) with
  | None => (fail_sys s0, [])
  | Some st1 =>
    if pre_ok then
      let s1 := if Nat.eqb name 0 then s0 else rdo s0 (RActivate i) in
      let dropped := Nat.testbit flags 5 in
      match step st1 (EStartAck (negb dropped)) with
      | None => (fail_sys s1, [])
      | Some st2 =>
        let r := if dropped then 5 else 1 in
        (w_acts (acts s1 ++ [mk_act st2 true name sup1 flags false r false false]) s1, [NN r])
      end
    else
      let s1 := if Nat.eqb name 0 then s0 else rdo s0 (RRelease i) in
      let r := if Nat.testbit flags 5 then 5 else 3 in
      (w_acts (acts s1 ++ [mk_act st1 true name sup1 flags false r false false]) s1, [NN r])
  end.

(* spawn whose pre_start is gated by the harness: the name is reserved, the
   actor task sits in pre_start until op_spawn_finish *)
Definition op_spawn_begin (s : sys) (name cp flags sup1 : nat) : sys * list N :=
  let i := length (acts s) in
  let taken := if Nat.eqb name 0 then false
               else match tfind name (table (reg s)) with Some _ => true | None => false end in
  if taken then
    (rdo (w_acts (acts s ++ [mk_act (init cp) false name sup1 flags false 2 false false]) s)
         (RReserve i name false), [2%N])
  else
    let s0 := if Nat.eqb name 0 then s else rdo s (RReserve i name true) in
    (w_acts (acts s0 ++ [mk_act (init cp) true name sup1 flags false 0 true false]) s0, [1%N]).

Definition op_spawn_finish (s : sys) (i : nat) : sys * list N :=
  match nth_error (acts s) i with
  | Some a =>
    if a_pending a then
      let pre_ok := negb (flag a 0) in
      match step (a_st a) (EPreStart pre_ok) with
      | None => (fail_sys s, [])
      | Some st1 =>
        let named := negb (Nat.eqb (a_name a) 0) in
        let fin st r := mk_act st true (a_name a) (a_sup a) (a_flags a) false r false false in
        if pre_ok then
          let s1 := if named then rdo s (RActivate i) else s in
          match step st1 (EStartAck true) with
          | Some st2 => (set_act s1 i (fin st2 1), [1%N])
          | None => (fail_sys s1, [])
          end
        else
          let s1 := if named then rdo s (RRelease i) else s in
          (set_act s1 i (fin st1 3), [3%N])
      end
    else (s, [0%N])
  | None => (s, [0%N])
  end.

Definition op_send (s : sys) (i : nat) (m : msg) : sys * sres * bool :=
  match nth_error (acts s) i with
  | Some a =>
    if a_present a && Nat.eqb (a_res a) 1 then
      match send_atomic (a_st a) m with
      | Some (st', r) => (set_act s i (w_ast a st'), r, true)
      | None => (fail_sys s, SClosed, true)
      end
    else (s, SClosed, false)
  | None => (s, SClosed, false)
  end.

Definition member_out (s : sys) (ms : list (nat * nat)) (id : nat) : mres :=
  match find (fun p => Nat.eqb (fst p) id) ms with
  | Some (_, ai) =>
    match nth_error (acts s) ai with
    | Some a => peek_send (a_st a)
    | None => MClosed
    end
  | None => MClosed
  end.

Definition actor_of (ms : list (nat * nat)) (id : nat) : nat :=
  match find (fun p => Nat.eqb (fst p) id) ms with Some (_, ai) => ai | None => 0 end.

(* ProcessGroup::send: returns the status and the actor that got the message *)
Definition op_gsend (s : sys) (g : nat) (m : msg) : sys * nat * option nat :=
  match nth_error (grps s) g with
  | None => (s, 0, None)
  | Some gr =>
    let ms := g_members gr in
    let '(r, ids', cur', _) := gsend (member_out s ms) (map fst ms) (g_cursor gr) in
    let ms' := filter (fun p => existsb (Nat.eqb (fst p)) ids') ms in
    let s1 := w_grps (set_nth (grps s) g (mk_grp ms' cur' (g_next gr))) s in
    match r with
    | GDelivered id =>
      let ai := actor_of ms id in
      match op_send s1 ai m with
      | (s2, SOk, _) => (s2, 1, Some ai)
      | (s2, _, _) => (fail_sys s2, 1, Some ai)
      end
    | GBack full => (s1, if full then 2 else 3, None)
    end
  end.

(* result of a call: 1 reply, 2 full, 3 closed, 4 no reply, 9 never answered *)
Definition call_result (s : sys) (c : nat * msg * nat) : N :=
  let '(ai, m, st0) := c in
  if negb (Nat.eqb st0 1) then NN st0 else
  match nth_error (acts s) ai with
  | Some a =>
    let st := a_st a in
    if existsb (msg_eqb m) (released st) then
      (if existsb (msg_eqb m) (finished st) && match mbeh m with BOk => true | _ => false end
       then 1%N else 4%N)
    else 9%N
  | None => 9%N
  end.

Definition op (s : sys) (code a b c d : nat) : sys * list N :=
  match code with
  | 1 => op_spawn s a b c d
  | 2 => let '(s1, r, present) := op_send s a (mk b false c) in
         (s1, [if present then sres_code r else 0%N])
  | 3 => let m := mk b true c in
         let '(s1, r, present) := op_send s a m in
         if present then (w_calls (calls s1 ++ [(a, m, nn (sres_code r))]) s1, [sres_code r])
         else (s1, [0%N])
  | 4 => let '(s1, r) := stop_actor s a in
         match nth_error (acts s) a with
         | Some x => if a_present x && Nat.eqb (a_res x) 1 then (s1, [NN r]) else (s, [0%N])
         | None => (s, [0%N])
         end
  | 5 => match lookup (reg s) a with
         | Some i =>
           match nth_error (acts s) i with
           | Some x => (rdo s (RLookup a (Some i)),
                        [1%N; NN (cap (a_st x)); if closed (a_st x) then 1%N else 0%N])
           | None => (fail_sys s, [])
           end
         | None => (rdo s (RLookup a None), [0%N; 0%N; 0%N])
         end
  | 6 => match nth_error (acts s) a with
         | Some x => if a_gated x then (set_act s a (w_gated x false), [1%N]) else (s, [0%N])
         | None => (s, [0%N])
         end
  | 7 => (* group join: a = group, b = actor *)
         match nth_error (grps s) a, nth_error (acts s) b with
         | Some gr, Some x =>
           if a_present x && Nat.eqb (a_res x) 1 then
             (w_grps (set_nth (grps s) a
                        (mk_grp (g_members gr ++ [(g_next gr, b)]) (g_cursor gr) (S (g_next gr)))) s,
              [NN (g_next gr)])
           else (s, [99999%N])
         | _, _ => (s, [99999%N])
         end
  | 8 => (* group send *)
         let '(s1, r, _) := op_gsend s a (mk b false c) in (s1, [NN r])
  | 9 => (* group leave: a = group, b = member id *)
         match nth_error (grps s) a with
         | Some gr =>
           (w_grps (set_nth (grps s) a
                      (mk_grp (filter (fun p => negb (Nat.eqb (fst p) b)) (g_members gr))
                              (g_cursor gr) (g_next gr))) s, [])
         | None => (s, [])
         end
  | 10 => match nth_error (grps s) a with
          | Some gr => (s, [NN (length (g_members gr))])
          | None => (s, [0%N])
          end
  | 11 => (* group call *)
          let m := mk b true c in
          let '(s1, r, dest) := op_gsend s a m in
          (w_calls (calls s1 ++ [(match dest with Some ai => ai | None => 999 end, m, r)]) s1,
           [NN r])
  | 12 => op_spawn_begin s a b c d
  | 13 => op_spawn_finish s a
  | 14 => (* the caller of call number a has its answer; only then it lets post_stop of actor b go on *)
          let r := match nth_error (calls s) a with Some cl => call_result s cl | None => 0%N end in
          (match nth_error (acts s) b with
           | Some x => set_act s b (w_psopen x true)
           | None => s
           end, [r])
  | _ => (s, [99999%N])
  end.

Fixpoint run_ops (s : sys) (l : list N) (n : nat) (out : list N) : option (sys * list N) :=
  match n with
  | O => match l with [] => Some (s, out) | _ => None end
  | S k =>
    match l with
    | code :: a :: b :: c :: d :: r =>
      let '(s1, o) := op s (nn code) (nn a) (nn b) (nn c) (nn d) in
      let s2 := quiesce FUEL s1 in
      run_ops s2 r k (out ++ o)
    | _ => None
    end
  end.

(* graceful end: release every gate, then stop every live actor in index order *)
Fixpoint release_all (s : sys) (i n : nat) : sys :=
  match n with
  | O => s
  | S k =>
    let s1 := match nth_error (acts s) i with
              | Some x => if a_gated x then set_act s i (w_gated x false) else s
              | None => s
              end in
    release_all s1 (S i) k
  end.

(* graceful end, first: every pending spawn is let through, every post_stop may go on *)
Fixpoint finish_pending (s : sys) (i n : nat) : sys :=
  match n with
  | O => s
  | S k => finish_pending (quiesce FUEL (fst (op_spawn_finish s i))) (S i) k
  end.
Fixpoint open_all (s : sys) (i n : nat) : sys :=
  match n with
  | O => s
  | S k =>
    let s1 := match nth_error (acts s) i with
              | Some x => set_act s i (w_psopen x true)
              | None => s
              end in
    open_all s1 (S i) k
  end.

Fixpoint stop_all (s : sys) (i n : nat) : sys :=
  match n with
  | O => s
  | S k =>
    let s1 := match nth_error (acts s) i with
              | Some x => if a_present x && negb (is_gone (a_st x)) && Nat.eqb (a_res x) 1
                          then quiesce FUEL (fst (stop_actor s i)) else s
              | None => s
              end in
    stop_all s1 (S i) k
  end.

(* Cluster::join with live actors: every task is dropped where it is *)
Definition cancel_act (s : sys) (i : nat) : sys :=
  match nth_error (acts s) i with
  | Some x =>
    if a_present x && negb (is_gone (a_st x)) then
      match step (a_st x) ECancel with
      | Some st' =>
        let s1 := set_act s i (w_gated (w_ast x st') false) in
        if Nat.eqb (a_name x) 0 then s1 else rdo s1 (RRelease i)
      | None => s            (* between two synchronous steps: cannot happen when settled *)
      end
    else s
  | None => s
  end.
Fixpoint cancel_all (s : sys) (i n : nat) : sys :=
  match n with O => s | S k => cancel_all (cancel_act s i) (S i) k end.

Definition lev_code (e : lev) : N :=
  match e with
  | LPreStart b => if b then 11 else 10
  | LPostStart b => if b then 21 else 20
  | LHandle m => NN (100 + pub_id m)
  | LPreStop b => if b then 31 else 30
  | LPostStop b => if b then 41 else 40
  end%N.

Definition fin_code (a : act) : N :=
  if negb (a_present a) then 0%N else
  if Nat.testbit (a_flags a) 5 then 5%N else
  match pc (a_st a) with
  | PGone (FExit XStopped) => 1
  | PGone (FExit XFailed) => 2
  | PGone FStartFailed => 3
  | PGone FCancelled => 4
  | _ => 7
  end%N.

Definition act_trailer (a : act) : list N :=
  let t := tr (a_st a) in
  [NN (length t)] ++ map lev_code t ++ [fin_code a].

Definition run_kind1 (l : list N) : list N :=
  match l with
  | _w :: endmode :: n :: r =>
    let s0 := mk_sys [] rinit [mk_grp [] 0 0; mk_grp [] 0 0] [] true in
    match run_ops s0 r (nn n) [] with
    | None => BAD_CASE
    | Some (s1, out) =>
      let na := length (acts s1) in
      let s3 := if N.eqb endmode 0
                then stop_all (quiesce FUEL (open_all (release_all (finish_pending s1 0 na) 0 na) 0 na)) 0 na
                else quiesce FUEL (cancel_all s1 0 na) in
      if ok s3 then
        out ++ [NN na] ++ flat_map act_trailer (acts s3)
            ++ [NN (length (calls s3))] ++ map (call_result s3) (calls s3)
      else STUCK
    end
  | _ => BAD_CASE
  end.

(* ---------------------------------------------------------------------- *)
(* kind 2: acceptor of a concurrent log                                     *)

Record cfg := mk_cfg {
  c_st : ast;
  c_inv : list msg;             (* send invoked, is_closed() not yet evaluated *)
  c_done : list (msg * sres);   (* send finished, response not yet logged *)
  c_sinv : nat;                 (* stop() invoked, swap not yet done *)
  c_sdone : list bool           (* stop() finished, response not yet logged *)
}.

(* canonical encoding used to recognise equal configurations *)
Definition enc_beh (b : beh) : nat := match b with BOk => 0 | BFail => 1 | BNoReply => 2 end.
Definition enc_msg (m : msg) : list nat := [mid m; if mcall m then 1 else 0; enc_beh (mbeh m)].
Definition enc_msgs (l : list msg) : list nat := length l :: flat_map enc_msg l.
Definition enc_x (x : exitk) : nat := match x with XStopped => 0 | XFailed => 1 end.
Definition enc_fin (f : fin) : nat :=
  match f with FStartFailed => 0 | FExit x => 1 + enc_x x | FCancelled => 3 end.
Definition enc_cont (k : cont) : nat :=
  match k with CPostStop x => enc_x x | CFin f => 2 + enc_fin f end.
Definition enc_pc (p : apc) : list nat :=
  match p with
  | PPreStart => [0] | PStartAck => [1] | PPostStart => [2] | PSelStop => [3] | PSelMsg => [4]
  | PHandling m => 5 :: enc_msg m
  | PBeginStop x => [6; enc_x x] | PPreStop x => [7; enc_x x]
  | PDrain k => [8; enc_cont k] | PDropRx k => [9; enc_cont k]
  | PPostStop x => [10; enc_x x] | PGone f => [11; enc_fin f]
  end.
Definition b2n (b : bool) : nat := if b then 1 else 0.
Definition enc_sres (r : sres) : nat := match r with SOk => 1 | SFull => 2 | SClosed => 3 end.
(* the ghost lists accepted/handled/released/... are functions of the rest up
   to the order of concurrent pushes; accepted and late are included *)
Definition enc_cfg (c : cfg) : list nat :=
  let s := c_st c in
  enc_pc (pc s) ++ [b2n (slot s); b2n (stopping s); b2n (rx s); b2n (swapped s)]
  ++ enc_msgs (queue s) ++ enc_msgs (passed s) ++ enc_msgs (accepted s) ++ enc_msgs (released s)
  ++ enc_msgs (c_inv c) ++ [c_sinv c]
  ++ (length (c_done c) :: flat_map (fun p => enc_msg (fst p) ++ [enc_sres (snd p)]) (c_done c))
  ++ (length (c_sdone c) :: map b2n (c_sdone c)).

Fixpoint list_eqb (a b : list nat) : bool :=
  match a, b with
  | [], [] => true
  | x :: a', y :: b' => Nat.eqb x y && list_eqb a' b'
  | _, _ => false
  end.

Definition w_cst v c := mk_cfg v (c_inv c) (c_done c) (c_sinv c) (c_sdone c).

Fixpoint remove_first {A} (p : A -> bool) (l : list A) : option (A * list A) :=
  match l with
  | [] => None
  | x :: r => if p x then Some (x, r)
              else match remove_first p r with Some (y, r') => Some (y, x :: r') | None => None end
  end.

(* all configurations one silent step away *)
Definition taus (c : cfg) : list cfg :=
  let s := c_st c in
  let st_step (e : ev) (k : ast -> cfg) : list cfg :=
      match step s e with Some s' => [k s'] | None => [] end in
  (* sends that evaluate is_closed() now *)
  flat_map (fun m =>
    match remove1 m (c_inv c) with
    | None => []
    | Some rest =>
      if closed s
      then st_step (ESendClosed m) (fun s' => mk_cfg s' rest (c_done c ++ [(m, SClosed)]) (c_sinv c) (c_sdone c))
      else st_step (ESendPass m) (fun s' => mk_cfg s' rest (c_done c) (c_sinv c) (c_sdone c))
    end) (c_inv c)
  (* sends that push now *)
  ++ flat_map (fun m =>
       flat_map (fun r =>
         st_step (ESendPush m r) (fun s' => mk_cfg s' (c_inv c) (c_done c ++ [(m, r)]) (c_sinv c) (c_sdone c)))
         [SOk; SFull; SClosed]) (passed s)
  (* stop(): the swap *)
  ++ (match c_sinv c with
      | O => []
      | S k =>
        st_step EStopNoop (fun s' => mk_cfg s' (c_inv c) (c_done c) k (c_sdone c ++ [false]))
        ++ st_step EStopSwap (fun s' => mk_cfg s' (c_inv c) (c_done c) k (c_sdone c))
      end)
  (* stop(): the push on the stop channel *)
  ++ flat_map (fun r =>
       st_step (EStopPush r) (fun s' => mk_cfg s' (c_inv c) (c_done c) (c_sinv c) (c_sdone c ++ [r])))
       [true; false]
  (* silent steps of the actor task *)
  ++ flat_map (fun e => st_step e (fun s' => w_cst s' c))
       ([EStartAck true; ESelStop true; ESelStop false; ESelMsg None; EBeginStop; EDrain; EDropRx]
        ++ match queue s with m :: _ => [ESelMsg (Some m)] | [] => [] end).

Definition mem_cfg (k : list nat) (seen : list (list nat)) : bool := existsb (list_eqb k) seen.

(* closure under silent steps (worklist, duplicates removed by encoding) *)
Fixpoint closure (fuel : nat) (work : list cfg) (seen : list (list nat)) (acc : list cfg) : list cfg :=
  match fuel with
  | O => acc
  | S f =>
    match work with
    | [] => acc
    | c :: w =>
      let k := enc_cfg c in
      if mem_cfg k seen then closure f w seen acc
      else closure f (taus c ++ w) (k :: seen) (c :: acc)
    end
  end.

Definition CLOSE_FUEL := 400 * 400.   (* work items per closure; far above what 4 threads produce *)
Definition close (l : list cfg) : list cfg := closure CLOSE_FUEL l [] [].

(* visible events *)
Inductive vev :=
| VSendInv (m : msg) | VSendResp (id : nat) (r : sres)
| VStopInv | VStopResp (r : bool)
| VCallDone (id : nat) (res : nat)        (* 1 reply, 4 no reply *)
| VHook (h : nat) (okk : bool)            (* 1 pre_start, 2 post_start, 3 pre_stop, 4 post_stop *)
| VHStart (id : nat) | VHEnd (id : nat)
| VExit (k : nat)                         (* 1 stopped, 2 failed *)
| VBad.

Definition sres_eqb (a b : sres) : bool := Nat.eqb (enc_sres a) (enc_sres b).

Definition vstep (c : cfg) (e : vev) : list cfg :=
  let s := c_st c in
  let st_step (e : ev) : list cfg :=
      match step s e with Some s' => [w_cst s' c] | None => [] end in
  match e with
  | VSendInv m => [mk_cfg s (c_inv c ++ [m]) (c_done c) (c_sinv c) (c_sdone c)]
  | VSendResp id r =>
    match remove_first (fun p => Nat.eqb (pub_id (fst p)) id && sres_eqb (snd p) r) (c_done c) with
    | Some (_, rest) => [mk_cfg s (c_inv c) rest (c_sinv c) (c_sdone c)]
    | None => []
    end
  | VStopInv => [mk_cfg s (c_inv c) (c_done c) (S (c_sinv c)) (c_sdone c)]
  | VStopResp r =>
    match remove_first (Bool.eqb r) (c_sdone c) with
    | Some (_, rest) => [mk_cfg s (c_inv c) (c_done c) (c_sinv c) rest]
    | None => []
    end
  | VCallDone id res =>
    match find (fun m => Nat.eqb (pub_id m) id && mcall m) (released s) with
    | Some m =>
      let replied := existsb (msg_eqb m) (finished s)
                     && match mbeh m with BOk => true | _ => false end in
      if Nat.eqb res (if replied then 1 else 4) then [c] else []
    | None => []
    end
  | VHook 1 b => st_step (EPreStart b)
  | VHook 2 b => st_step (EPostStart b)
  | VHook 3 b => st_step (EPreStop b)
  | VHook 4 b => st_step (EPostStop b)
  | VHook _ _ => []
  | VHStart id => match pc s with PHandling m => if Nat.eqb (pub_id m) id then [c] else [] | _ => [] end
  | VHEnd id => match pc s with
                | PHandling m => if Nat.eqb (pub_id m) id then st_step (EHandled m) else []
                | _ => []
                end
  | VExit k =>
    match pc s with
    | PGone (FExit XStopped) => if Nat.eqb k 1 then [c] else []
    | PGone (FExit XFailed) => if Nat.eqb k 2 then [c] else []
    | _ => []
    end
  | VBad => []
  end.

(* returns the index of the first event no configuration can take *)
Fixpoint accept (front : list cfg) (es : list vev) (i : nat) : option nat :=
  match es with
  | [] => None
  | e :: r =>
    match close (flat_map (fun c => vstep c e) front) with
    | [] => Some i
    | front' => accept front' r (S i)
    end
  end.

Definition dec_vev (k a b : N) : vev :=
  match k with
  | 1%N => VSendInv (mk (nn a) (Nat.leb 10 (nn b)) (nn b mod 10))
  | 2%N => match b with 1%N => VSendResp (nn a) SOk | 2%N => VSendResp (nn a) SFull
                      | 3%N => VSendResp (nn a) SClosed | _ => VBad end
  | 3%N => VStopInv
  | 4%N => VStopResp (N.eqb b 1)
  | 5%N => VCallDone (nn a) (nn b)
  | 6%N => VHook (nn a) (N.eqb b 1)
  | 7%N => VHStart (nn a)
  | 8%N => VHEnd (nn a)
  | 9%N => VExit (nn a)
  | _ => VBad
  end.

Fixpoint dec_vevs (fuel : nat) (l : list N) : option (list vev) :=
  match fuel with
  | O => match l with [] => Some [] | _ => None end
  | S f =>
    match l with
    | [] => Some []
    | k :: a :: b :: r =>
      match dec_vevs f r with Some es => Some (dec_vev k a b :: es) | None => None end
    | _ => None
    end
  end.

Definition run_kind2 (l : list N) : list N :=
  match l with
  | cp :: r =>
    match dec_vevs (length r) r with
    | None => BAD_CASE
    | Some es =>
      match accept (close [mk_cfg (init (nn cp)) [] [] 0 []]) es 0 with
      | None => [1%N; NN (length es)]
      | Some i => [0%N; NN i; nth (3 * i) r 0%N]
      end
    end
  | [] => BAD_CASE
  end.

(* ---------------------------------------------------------------------- *)
(* kind 4: the forced schedules of the window between the receiver's drain and
   its disconnection (the real code is driven through the same schedule by the
   scheduling points of compio_actor::verif) *)
Definition k4_msg : msg := mk_msg 1 true BOk.
Definition k4_trace (which : N) : list ev :=
  match which with
  | 1%N =>   (* a call passes its closed-check, stop() is taken, the queue is drained, the call pushes *)
    [EPreStart true; EStartAck true; EPostStart true; ESelStop false;
     ESendPass k4_msg; EStopSwap; EStopPush true; ESelMsg None; ESelStop true;
     EBeginStop; EPreStop true; EDrain; ESendPush k4_msg SOk; EDropRx; EPostStop true]
  | _ =>     (* Cluster::join drops the task; a call arrives after the drain *)
    [EPreStart true; EStartAck true; EPostStart true; ESelStop false;
     ECancel; EDrain; ESendPass k4_msg; ESendPush k4_msg SOk; EDropRx]
  end.
Definition run_kind4 (l : list N) : list N :=
  match l with
  | [which] =>
    match steps (init 2) (k4_trace which) with
    | Some s =>
      [1%N;
       if existsb (msg_eqb k4_msg) (released s)
       then (if existsb (msg_eqb k4_msg) (finished s) then 1%N else 4%N) else 9%N;
       if is_gone s then 1%N else 0%N]
    | None => STUCK
    end
  | _ => BAD_CASE
  end.

Definition run_c19 (l : list N) : list N :=
  match l with
  | 1%N :: r => run_kind1 r
  | 2%N :: r => run_kind2 r
  | 3%N :: _ => [3%N]        (* concurrent process-group programs are judged by the oracle only *)
  | 4%N :: r => run_kind4 r
  | 5%N :: _ => [5%N]        (* post_stop waiting for concurrent callers: judged by the oracle only *)
  | _ => BAD_CASE
  end.
