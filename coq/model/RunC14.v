(* RunC14.v — interpreter of a C14 transcript over the reference transports.
   Input  = the case (program) followed by the transcript the harness printed
            (harness/rt/src/bin/c14.rs): "0 nev (tag a b c d e f)*".
   Output = the transcript as the reference predicts it: every operation of the
            transcript is replayed through SockSpec.run_event (stream mode) or the
            datagram / accept glue with the OBSERVED sizes; the model checks
            that this is a legal run of the reference, recomputes the buffer
            contents from the position-dependent pattern and prints the same
            encoding.  An illegal step gives "3 <event index> <reason>".       *)
From Compio.Model Require Import Base SockSpec.

Definition obind {A B} (o : option A) (f : A -> option B) : option B :=
  match o with Some a => f a | None => None end.
Notation "'let?' x ':=' o 'in' k" := (obind o (fun x => k))
  (at level 200, x binder, right associativity).

Open Scope N_scope.

(* ---- shared with the harness and the oracle ---------------------------- *)
Definition pat (seed i : N) : byte :=
  let v := i + seed in
  let t := v * v in
  N.land (N.shiftr t 3 + N.shiftr t 11 + N.shiftl v 3 + N.shiftl v 2 + v + N.shiftr v 7) 255.

Fixpoint pat_list (seed pos : N) (n : nat) : list byte :=
  match n with O => [] | S k => pat seed pos :: pat_list seed (pos + 1) k end.

Definition hash_step (h x : N) : N := N.land (N.shiftl h 5 + h + x + 1) 2147483647.
Definition hash_list (xs : list N) : N := fold_left hash_step xs 7.

Definition DRAIN_CAP : nat := 4096.

Fixpoint split_sizes_from (q r : nat) (i b : nat) : list nat :=
  match b with
  | O => []
  | S b' => (q + (if Nat.ltb i r then 1 else 0))%nat :: split_sizes_from q r (S i) b'
  end.
Definition split_sizes (a b : nat) : list nat :=
  let b := Nat.max b 1 in split_sizes_from (Nat.div a b) (Nat.modulo a b) 0 b.

Definition clampn (x lo hi : nat) : nat := Nat.max lo (Nat.min x hi).

(* state of a Vec as the harness prints it: [len; cap; every cell] *)
Definition ubuf_state (b : ubuf) : list N := NN (blen b) :: NN (bcap b) :: bcells b.
Definition managed_state (bs : list byte) : list N := NN (length bs) :: bs.

(* sender buffers: pattern bytes, canaries in the spare capacity.  The canary
   of cell i is 128 + i mod 100; the spare part starts at cell [len]. *)
Definition pat_buf (seed pos : N) (len extra : nat) : ubuf :=
  mkubuf (pat_list seed pos len ++ canaries_cyc (NN len mod 100) extra) len.

(* ---- decoding ------------------------------------------------------------ *)
Definition op3 := (N * N * N)%type.

Fixpoint dec_ops (n : nat) (l : list N) : option (list op3 * list N) :=
  match n with
  | O => Some ([], l)
  | S k =>
    match l with
    | a :: b :: c :: r => let? '(ops, r') := dec_ops k r in Some ((a, b, c) :: ops, r')
    | _ => None
    end
  end.

Definition dec_prog (maxk : N) (l : list N) : option (list op3 * list N) :=
  let? '(n, l) := take1 l in
  if 64 <? n then None else
  let? '(ops, l) := dec_ops (nn n) l in
  if forallb (fun '(k, a, b) => (1 <=? k) && (k <=? maxk) && (a <=? 400000) && (b <=? 400000)) ops
  then Some (ops, l) else None.

Definition ev7 := (N * N * N * N * N * N * N)%type.

Fixpoint dec_events (n : nat) (l : list N) : option (list ev7) :=
  match n with
  | O => match l with [] => Some [] | _ => None end
  | S k =>
    match l with
    | t :: a :: b :: c :: d :: e :: f :: r =>
      let? evs := dec_events k r in Some ((t, a, b, c, d, e, f) :: evs)
    | _ => None
    end
  end.

Definition dec_transcript (l : list N) : option (list ev7) :=
  match l with
  | 0 :: n :: r => dec_events (nn n) r
  | _ => None
  end.

Definition enc_ev (e : ev7) : list N :=
  let '(t, a, b, c, d, e', f) := e in [t; a; b; c; d; e'; f].
Definition enc_out (evs : list ev7) : list N :=
  0 :: NN (length evs) :: flat_map enc_ev evs.

Definition illegal (idx : nat) (why : N) : list N := [3; NN idx; why].

(* ====================================================================== *)
(* stream mode                                                             *)

Record dstate := mkd {
  d_s : stream;          (* the reference queue, holding the real bytes *)
  d_spos : N;            (* position of the next byte the sender offers  *)
  d_rpos : N;            (* position of the next byte the reader expects *)
  d_gap_ok : bool;       (* a multishot stream was dropped early          *)
  d_gaps : N;
  d_rcvd : N;
  d_eofs : N;
  d_items : N }.

Definition d0 : dstate := mkd stream0 0 0 false 0 0 0 0.

Record scase := mks {
  c_drv : N; c_plen : nat; c_seed : N;
  c_send1 : list op3; c_recv1 : list op3; c_send2 : list op3; c_recv2 : list op3 }.

Definition dir_seed (c : scase) (dir : N) : N := c_seed c + 1000 * dir.

Definition send_prog (c : scase) (dir : N) : list op3 := if dir =? 1 then c_send1 c else c_send2 c.
Definition recv_prog (c : scase) (dir : N) : list op3 := if dir =? 1 then c_recv1 c else c_recv2 c.

(* the operation a sender event stands for *)
Definition mk_sop (seed pos : N) (kind a b : N) (k : nat) : option sop :=
  let defer := 1024 <=? b in
  let b' := nn (b mod 1024) in
  match kind with
  | 1 | 6 => Some (SWrite (pat_buf seed pos (nn a) b') k)   (* 6: write_with_ancillary, empty control *)
  | 3 => Some (SWriteZc (pat_buf seed pos (nn a) b') k true)
  | 2 | 4 | 7 =>
    let sizes := split_sizes (nn a) (clampn b' 1 8) in
    let ms := (fix go (sizes : list nat) (i : nat) (p : N) : list ubuf :=
                 match sizes with
                 | [] => []
                 | s :: r => pat_buf seed p s (Nat.modulo (i * 3) 5) :: go r (S i) (p + NN s)
                 end) sizes O pos in
    Some (if kind =? 4 then SWriteZcV ms k true else SWriteV ms k)
  | _ => None
  end.

(* drop what a cancelled multishot swallowed, so that the reader is at [pos] *)
Definition apply_gap (d : dstate) (pos : N) : option dstate :=
  if pos <? d_rpos d then None else
  let g := pos - d_rpos d in
  if g =? 0 then Some d else
  if negb (d_gap_ok d) then None else
  match ref_step (d_s d) (LDrop (nn g)) with
  | Some (s1, _) =>
    Some (mkd s1 (d_spos d) pos true (d_gaps d + g) (d_rcvd d) (d_eofs d) (d_items d))
  | None => None
  end.

(* the receive operation an event stands for; drain reads beyond the program
   are plain reads with the harness' drain capacity *)
Definition mk_rop (c : scase) (dir : N) (idx : nat) (kind : N) (n : nat) : option (rop * nat) :=
  let prog := recv_prog c dir in
  let fb := c_drv c =? 1 in
  match nth_error prog idx with
  | Some (k, a, b) =>
    if negb (k =? kind) then None else
    match k with
    | 1 | 6 => let cap := nn a in Some (RPlain (Nat.min (nn b) cap) cap n, cap)   (* 6: read_with_ancillary *)
    | 2 => let caps := split_sizes (nn a) (clampn (nn b) 1 8) in
           Some (RVectored caps n, fold_right Nat.add O caps)
    | 3 | 7 => Some (RManaged (nn a) n, managed_cap (c_plen c) (nn a))       (* 7: read_managed_with_ancillary *)
    | 4 => Some (RMulti (nn a) fb [[(n, false)]] None, managed_cap (c_plen c) (nn a))
    | 8 => (* read_multi_with_ancillary(64): on io_uring the provided buffer also
              holds the recvmsg header, the name area and the control area *)
      let cap8 := if fb then c_plen c else mshot_payload_cap (c_plen c) 64 in
      Some (RMulti cap8 fb [[(n, false)]] None, managed_cap (c_plen c) cap8)
    | _ => None
    end
  | None =>
    if (kind =? 1) && Nat.leb (length prog) idx then Some (RPlain O DRAIN_CAP n, DRAIN_CAP) else None
  end.

Definition obs_hash (o : obs) : N :=
  match o with
  | ObsRead _ b => hash_list (ubuf_state b)
  | ObsReadV _ ms => hash_list (flat_map ubuf_state ms)
  | ObsManaged (Some bs) => hash_list (managed_state bs)
  | ObsManaged None => hash_list [0]
  | ObsItems [IBuf bs] _ => hash_list (managed_state bs)
  | _ => 0
  end.

Definition obs_count (o : obs) : N :=
  match o with
  | ObsRead n _ | ObsReadV n _ => NN n
  | ObsManaged (Some bs) => NN (length bs)
  | ObsItems [IBuf bs] _ => NN (length bs)
  | _ => 0
  end.

Definition set_dir (st : dstate * dstate) (dir : N) (d : dstate) : dstate * dstate :=
  if dir =? 1 then (d, snd st) else (fst st, d).
Definition get_dir (st : dstate * dstate) (dir : N) : dstate :=
  if dir =? 1 then fst st else snd st.

Definition step_stream (c : scase) (st : dstate * dstate) (e : ev7)
  : option (dstate * dstate * ev7) :=
  let '(t, a, b, c3, d4, e5, f6) := e in
  match t with
  | 1 => (* send: [1 dir idx offered accepted bufok kind] *)
    let dir := a in
    if negb ((dir =? 1) || (dir =? 2)) then None else
    let d := get_dir st dir in
    let? '(k, oa, ob) := nth_error (send_prog c dir) (nn b) in
    if negb ((k =? f6) && (oa =? c3)) then None else
    let? op := mk_sop (dir_seed c dir) (d_spos d) k oa ob (nn d4) in
    let? '(s1, o, _) := run_event (c_plen c) (d_s d) (ESend Direct op) in
    let '(n, same) := match o, op with
                      | ObsSent n _, _ => (NN n, 1)
                      | ObsSentV n _, _ => (NN n, 1)
                      | _, _ => (0, 0)
                      end in
    let d' := mkd s1 (d_spos d + n) (d_rpos d) (d_gap_ok d) (d_gaps d) (d_rcvd d) (d_eofs d) (d_items d) in
    Some (set_dir st dir d', (1, dir, b, oa, n, same, k))
  | 7 => (* a send the OS refused: nothing enters the queue *)
    if negb ((a =? 1) || (a =? 2)) then None else
    let? '(k, _, _) := nth_error (send_prog c a) (nn b) in
    if negb (k =? f6) then None else Some (st, e)
  | 2 => (* shutdown: [2 dir status 0 0 0 0] *)
    let dir := a in
    if negb ((dir =? 1) || (dir =? 2)) then None else
    let d := get_dir st dir in
    let? '(s1, _, _) := run_event (c_plen c) (d_s d) (EShutdown Direct) in
    let d' := mkd s1 (d_spos d) (d_rpos d) (d_gap_ok d) (d_gaps d) (d_rcvd d) (d_eofs d) (d_items d) in
    Some (set_dir st dir d', e)
  | 3 => (* receive: [3 dir idx n pos hash kind] *)
    let dir := a in
    if negb ((dir =? 1) || (dir =? 2)) then None else
    let? d := apply_gap (get_dir st dir) d4 in
    let? '(op, cap) := mk_rop c dir (nn b) f6 (nn c3) in
    if negb (rop_wf op) then None else
    let? '(s1, o, _) := run_event (c_plen c) (d_s d) (ERecv Direct op) in
    let n := obs_count o in
    let eof := (n =? 0) && negb (Nat.eqb cap O) in
    let d' := mkd s1 (d_spos d) (d_rpos d + n) (d_gap_ok d) (d_gaps d) (d_rcvd d + n)
                  (d_eofs d + (if eof then 1 else 0))
                  (d_items d + (if (f6 =? 4) || (f6 =? 8) then 1 else 0)) in
    Some (set_dir st dir d', (3, dir, b, n, d_rpos d, obs_hash o, f6))
  | 4 => (* end of a multishot session: [4 dir idx reason items pos 0] *)
    let dir := a in
    if negb ((dir =? 1) || (dir =? 2)) then None else
    let d0' := get_dir st dir in
    let? '(k, la0, _) := nth_error (recv_prog c dir) (nn b) in
    if negb ((k =? 4) || (k =? 8)) then None else
    let la := if k =? 8 then 0 else la0 in
    if c3 =? 0 then
      (* the stream ended by itself: this is an end-of-stream observation *)
      let? d := apply_gap d0' e5 in
      let cap := managed_cap (c_plen c) (nn la) in
      let? '(s1, _, _) := run_event (c_plen c) (d_s d) (ERecv Direct (RManaged (nn la) O)) in
      if Nat.eqb cap O then None else
      let d' := mkd s1 (d_spos d) (d_rpos d) (d_gap_ok d) (d_gaps d) (d_rcvd d) (d_eofs d + 1) 0 in
      Some (set_dir st dir d', (4, dir, b, 0, d_items d, d_rpos d, 0))
    else
      (* dropped early: from here on a cancelled operation may swallow data *)
      let d' := mkd (d_s d0') (d_spos d0') (d_rpos d0') true (d_gaps d0') (d_rcvd d0') (d_eofs d0') 0 in
      Some (set_dir st dir d', (4, dir, b, c3, d_items d0', d_rpos d0', 0))
  | 6 => (* a receive the OS / the pool refused: nothing consumed *)
    if negb ((a =? 1) || (a =? 2)) then None else Some (st, e)
  | 9 => (* summary: [9 dir sent rcvd match eofs gaps] *)
    let dir := a in
    if negb ((dir =? 1) || (dir =? 2)) then None else
    let d := get_dir st dir in
    (* everything that was sent has been read or swallowed, in order *)
    if negb (Nat.eqb (length (sq (d_s d))) O) then None else
    Some (st, (9, dir, d_spos d, d_rcvd d, (if d_gaps d =? 0 then 1 else 2), d_eofs d, d_gaps d))
  | _ => None
  end.

Fixpoint run_stream (c : scase) (st : dstate * dstate) (evs : list ev7) (i : nat) (acc : list ev7)
  : list N :=
  match evs with
  | [] => enc_out (rev acc)
  | e :: r =>
    match step_stream c st e with
    | None => illegal i (fst (fst (fst (fst (fst (fst e))))))
    | Some (st', e') => run_stream c st' r (S i) (e' :: acc)
    end
  end.

Definition stream_case (l : list N) : option (list N) :=
  match l with
  | drv :: tr :: split :: sbuf :: rbuf :: plen :: psize :: seed :: l =>
    if negb ((drv <=? 1) && (tr <=? 1) && (split <=? 2) && (sbuf <=? 4194304) && (rbuf <=? 4194304)
             && (1 <=? plen) && (plen <=? 65536) && (1 <=? psize) && (psize <=? 64) && (seed <=? 60000))
    then None else
    let? '(pa, l) := dec_prog 7 l in
    let? '(pb, l) := dec_prog 8 l in
    let? '(pc, l) := dec_prog 7 l in
    let? '(pd, l) := dec_prog 8 l in
    if (plen <? 256) && existsb (fun '(k, _, _) => k =? 8) (pb ++ pd) then None else
    match l with
    | [99999] => Some (illegal O 99999)   (* the model accepts the case, the harness rejected it *)
    | _ =>
      let c := mks drv (nn plen) seed pa pb pc pd in
      match dec_transcript l with
      | Some evs => Some (run_stream c (d0, d0) evs O [])
      | None => Some l    (* panic / hang codes are passed through *)
      end
    end
  | _ => None
  end.

(* ====================================================================== *)
(* datagram mode                                                           *)

Record dgspec := mkdgs { g_skind : N; g_size : N; g_sender : N; g_rkind : N; g_cap : N; g_len : N; g_flags : N }.

Fixpoint dec_dgs (n : nat) (l : list N) : option (list dgspec * list N) :=
  match n with
  | O => Some ([], l)
  | S k =>
    match l with
    | a :: b :: c :: d :: e :: f :: g :: r =>
      let? '(ds, r') := dec_dgs k r in Some (mkdgs a b c d e f g :: ds, r')
    | _ => None
    end
  end.

(* [gc_clen]: the control length the harness passes to recv_msg_multi, a function of the case
   (also values that are not a multiple of the cmsg alignment) *)
Record gcase := mkg { gc_drv : N; gc_tr : N; gc_plen : nat; gc_seed : N; gc_specs : list dgspec; gc_clen : nat }.
Definition msg_multi_clen (n mcount : N) : nat := nth (nn ((n + mcount) mod 5)%N) [64; 20; 33; 16; 7]%nat 64%nat.

Definition dg_payload (seed idx : N) (size : nat) : list byte := pat_list (seed + 131 * idx) 0 size.

Fixpoint assoc (k : N) (l : list (N * N)) : option N :=
  match l with [] => None | (a, b) :: r => if a =? k then Some b else assoc k r end.

Definition addr_n (o : option N) : N := match o with Some a => a | None => 0 end.

(* the transcript record the reference predicts for receiving datagram [d]
   with operation kind [rk]: (n, addr, flags, hash) *)
Definition dg_expect (c : gcase) (g : dgspec) (rk : N) (d : dgram) : option (N * N * N * N) :=
  let cap := nn (g_cap g) in
  let len := Nat.min (nn (g_len g)) cap in
  let members := clampn (nn (g_len g)) 1 4 in
  let fresh_ms := map (fresh 0) (split_sizes cap members) in
  let poll := gc_drv c =? 1 in
  let ask := g_flags g =? 1 in
  let L := gc_plen c in
  match rk with
  | 1 =>
    match glue_recv_from (fresh len cap) (dg_answer d cap ask) poll with
    | Ok (n, a, b) => Some (NN n, addr_n a, 0, hash_list (ubuf_state b))
    | Panic _ => None
    end
  | 2 =>
    let '(n, _, a, _, ms) := glue_recv_msg fresh_ms (dg_answer d cap ask) in
    Some (NN n, addr_n a, 0, hash_list (flat_map ubuf_state ms))
  | 3 =>
    let '(n, _, a, fl, ms) := glue_recv_msg [fresh len cap] (dg_answer d cap ask) in
    Some (NN n, addr_n a, N.land fl MSG_TRUNC, hash_list (flat_map ubuf_state ms))
  | 4 =>
    let '(n, _, a, fl, ms) := glue_recv_msg fresh_ms (dg_answer d cap ask) in
    Some (NN n, addr_n a, N.land fl MSG_TRUNC, hash_list (flat_map ubuf_state ms))
  | 5 | 6 =>
    let mc := managed_cap L cap in
    match glue_recv_from_managed mc (dg_answer d mc false) with
    | None => Some (0, 0, 0, hash_list [0])
    | Some (bs, a, fl) =>
      Some (NN (length bs), addr_n a, (if rk =? 6 then N.land fl MSG_TRUNC else 0),
            hash_list (managed_state bs))
    end
  | 7 =>
    let m := dg_answer d cap ask in
    match glue_recv (fresh len cap) (m_bytes m) (m_n m) with
    | Ok (n, b) => Some (NN n, 0, 0, hash_list (ubuf_state b))
    | Panic _ => None
    end
  | 8 =>
    let m := dg_answer d cap ask in
    let '(n, ms) := glue_recv_vectored fresh_ms (m_bytes m) (m_n m) in
    Some (NN n, 0, 0, hash_list (flat_map ubuf_state ms))
  | 9 =>
    let mc := managed_cap L cap in
    match glue_managed mc (m_bytes (dg_answer d mc false)) (m_n (dg_answer d mc false)) with
    | None => Some (0, 0, 0, hash_list [0])
    | Some bs => Some (NN (length bs), 0, 0, hash_list (managed_state bs))
    end
  | 11 =>
    match glue_managed L (m_bytes (dg_answer d L false)) (m_n (dg_answer d L false)) with
    | None => None
    | Some bs => Some (NN (length bs), 0, 0, hash_list (managed_state bs))
    end
  | 12 | 13 =>
    let clen := if rk =? 13 then gc_clen c else O in
    let pc := if poll then L else mshot_payload_cap L clen in
    let m := dg_answer d pc false in
    let bs := if poll then m_bytes m
              else mshot_data clen (mshot_layout (repeat 0 MSHOT_HDR) (repeat 0 MSHOT_NAME)
                                                  (repeat 0 clen) (m_bytes m)) in
    Some (NN (length bs), addr_n (map_addr m), (if rk =? 13 then N.land (m_flags m) MSG_TRUNC else 0),
          hash_list (managed_state bs))
  | _ => None
  end.

Record gstate := mkgs { gs_q : list (N * dgram); gs_addrs : list (N * N) }.

Definition step_dgram (c : gcase) (st : gstate) (e : ev7) : option (gstate * ev7) :=
  let '(t, a, b, c3, d4, e5, f6) := e in
  match t with
  | 10 => Some (mkgs (gs_q st) ((a, b) :: gs_addrs st), e)
  | 1 => (* [1 idx size accepted bufok skind sender] *)
    let? g := nth_error (gc_specs c) (nn a) in
    if negb ((b =? g_size g) && (e5 =? g_skind g) && (f6 =? g_sender g)) then None else
    let? src := assoc f6 (gs_addrs st) in
    let d := mkdg (dg_payload (gc_seed c) a (nn b)) src in
    (* a datagram is sent whole *)
    Some (mkgs (gs_q st ++ [(a, d)]) (gs_addrs st), (1, a, b, b, 1, g_skind g, g_sender g))
  | 7 => Some (st, e)
  | 5 => (* [5 idx n addr flags hash rkind] *)
    let? g := nth_error (gc_specs c) (nn a) in
    match gs_q st with
    | (i, d) :: q' =>
      if negb (i =? a) then None else
      if negb ((f6 =? g_rkind g) || (10 <? f6)) then None else
      let? '(n, ad, fl, h) := dg_expect c g f6 d in
      (* an address-returning kind must report the sender's address *)
      Some (mkgs q' (gs_addrs st), (5, a, n, ad, fl, h, f6))
    | [] => None
    end
  | 4 | 6 => Some (st, e)
  | _ => None
  end.

Fixpoint run_dgram (c : gcase) (st : gstate) (evs : list ev7) (i : nat) (acc : list ev7) : list N :=
  match evs with
  | [] => if Nat.eqb (length (gs_q st)) O then enc_out (rev acc) else illegal i 77
  | e :: r =>
    match step_dgram c st e with
    | None => illegal i (fst (fst (fst (fst (fst (fst e))))))
    | Some (st', e') => run_dgram c st' r (S i) (e' :: acc)
    end
  end.

Definition dgram_case (l : list N) : option (list N) :=
  match l with
  | drv :: tr :: plen :: psize :: seed :: nsend :: window :: mkind :: mcount :: n :: l =>
    if negb ((drv <=? 1) && (tr <=? 2) && (1 <=? plen) && (plen <=? 65536) && (1 <=? psize) && (psize <=? 64)
             && (seed <=? 60000) && (1 <=? nsend) && (nsend <=? 4) && (1 <=? window) && (window <=? 8)
             && (n <=? 64) && (mkind <=? 3) && (mcount <=? n)
             && (Bool.eqb (mkind =? 0) (mcount =? 0)) && ((mkind =? 0) || (tr =? 0))
             && ((mkind <=? 1) || (256 <=? plen)))
    then None else
    let? '(ds, l) := dec_dgs (nn n) l in
    if negb (forallb (fun g => (g_size g <=? 60000) && (g_cap g <=? 70000) && (g_sender g <? nsend)
                               && (g_flags g <=? 1) && (1 <=? g_skind g) && (g_skind g <=? 9)
                               && ((g_skind g <=? 5) || (tr =? 0))
                               && (1 <=? g_rkind g) && (g_rkind g <=? 9)
                               && negb ((g_flags g =? 1) && (tr =? 0))) ds)
    then None else
    match l with
    | [99999] => Some (illegal O 99999)   (* the model accepts the case, the harness rejected it *)
    | _ =>
      let c := mkg drv tr (nn plen) seed ds (msg_multi_clen n mcount) in
      match dec_transcript l with
      | Some evs => Some (run_dgram c (mkgs [] []) evs O [])
      | None => Some l
      end
    end
  | _ => None
  end.

(* ====================================================================== *)
(* accept mode                                                             *)

Fixpoint count_id (x : N) (l : list N) : nat :=
  match l with [] => O | y :: r => Nat.add (if x =? y then 1%nat else O) (count_id x r) end.

Definition accept_case (l : list N) : option (list N) :=
  match l with
  | drv :: tr :: k :: mode :: j :: l =>
    if negb ((drv <=? 1) && (tr <=? 1) && (1 <=? k) && (k <=? 24) && (1 <=? mode) && (mode <=? 3) && (j <=? k))
    then None else
    match l with
    | [99999] => Some (illegal O 99999)   (* the model accepts the case, the harness rejected it *)
    | _ =>
      match dec_transcript l with
      | None => Some l
      | Some evs =>
        (* every handed-out connection, in the order the listener produced them *)
        let ids := flat_map (fun '(t, a, _, _, _, _, _) => if t =? 12 then [a] else []) evs in
        let ports := flat_map (fun '(t, a, b, _, _, _, _) => if t =? 11 then [(a + 1, b)] else []) evs in
        let dropped := existsb (fun '(t, _, _, _, _, _, _) => t =? 4) evs in
        (* something never completed under the watchdog *)
        if existsb (fun '(t, _, _, _, _, _, _) => t =? 13) evs then Some (illegal O 13) else
        (* exactly once: the accepted ids are distinct pending connections *)
        if negb (forallb (fun x => (1 <=? x) && (x <=? k) && Nat.eqb (count_id x ids) 1) ids)
        then Some (illegal O 12) else
        let out := map (fun '(t, a, b, c3, d4, e5, f6) =>
                     match t with
                     | 11 => (* client a: served iff its connection was handed out *)
                       let served := Nat.eqb (count_id (a + 1) ids) 1 in
                       (11, a, b, (if c3 =? 3 then 3 else if served then 1 else 2), d4, e5, f6)
                     | 12 => (12, a, (if tr =? 0 then addr_n (assoc a ports) else 0), c3, d4, e5, f6)
                     | _ => (t, a, b, c3, d4, e5, f6)
                     end) evs in
        (* without an early drop of the incoming stream nothing may be lost *)
        if negb dropped && negb (Nat.eqb (length ids) (nn k)) then Some (illegal O 11)
        else Some (enc_out out)
      end
    end
  | _ => None
  end.

(* ====================================================================== *)
(* bulk mode (back-pressure): replayed on byte counts (SockSpec.cstep, a
   sound abstraction of the reference queue: C14_count_abstraction); the
   harness compares every received chunk with the pattern at its position     *)

Record bstate := mkb {
  b_s : cstream; b_spos : N; b_rpos : N;
  b_idx : N; b_done : N; b_aborted : bool; b_eofs : N }.

Definition step_bulk (ops : list op3) (rcap : N) (st : bstate) (e : ev7) : option (bstate * ev7) :=
  let '(t, a, b, c3, d4, e5, f6) := e in
  let cur_total := match nth_error ops (nn (b_idx st)) with Some (_, tot, _) => tot | None => 0 end in
  let cur_finished := (b_done st =? cur_total) || b_aborted st in
  match t with
  | 1 | 7 =>
    if negb (a =? 1) then None else
    let? '(k, total, chunk) := nth_error ops (nn b) in
    if negb (k =? f6) then None else
    (* the calls of one operation follow each other; the next operation starts
       when the previous one is through (or was refused by the OS) *)
    let? done0 := if b =? b_idx st then Some (b_done st)
                  else if (b =? b_idx st + 1) && cur_finished then Some 0 else None in
    if t =? 7 then Some (mkb (b_s st) (b_spos st) (b_rpos st) b done0 true (b_eofs st), e) else
    let whole := (k =? 3) || (k =? 4) in
    let offered := if whole then total else N.min chunk (total - done0) in
    if negb (offered =? c3) then None else
    if whole && negb (d4 =? offered) then None else
    let? s1 := cstep (b_s st) (CSend offered d4) in
    Some (mkb s1 (b_spos st + d4) (b_rpos st) b (done0 + d4) false (b_eofs st),
          (1, 1, b, offered, d4, 1, k))
  | 2 =>
    if negb ((a =? 1) && (b_idx st + 1 =? NN (length ops)) && cur_finished) then None else
    let? s1 := cstep (b_s st) CShutdown in
    Some (mkb s1 (b_spos st) (b_rpos st) (b_idx st) (b_done st) (b_aborted st) (b_eofs st), e)
  | 3 =>
    if negb ((a =? 1) && (d4 =? b_rpos st)) then None else
    let? s1 := cstep (b_s st) (CRecv rcap c3) in
    Some (mkb s1 (b_spos st) (b_rpos st + c3) (b_idx st) (b_done st) (b_aborted st)
              (b_eofs st + (if c3 =? 0 then 1 else 0)),
          (3, 1, b, c3, b_rpos st, 1, 1))
  | 9 =>
    if negb ((a =? 1) && (cq (b_s st) =? 0)) then None else
    Some (st, (9, 1, b_spos st, b_rpos st, 1, b_eofs st, f6))
  | _ => None      (* 13 / 19: something never completed; 6: a receive failed *)
  end.

Fixpoint run_bulk (ops : list op3) (rcap : N) (st : bstate) (evs : list ev7) (i : nat) (acc : list ev7)
  : list N :=
  match evs with
  | [] => enc_out (rev acc)
  | e :: r =>
    match step_bulk ops rcap st e with
    | None => illegal i (fst (fst (fst (fst (fst (fst e))))))
    | Some (st', e') => run_bulk ops rcap st' r (S i) (e' :: acc)
    end
  end.

Definition bulk_case (l : list N) : option (list N) :=
  match l with
  | drv :: tr :: split :: sbuf :: rbuf :: seed :: who :: delay :: pace :: rcap :: n :: l =>
    if negb ((drv <=? 1) && (tr <=? 1) && (split <=? 2) && (sbuf <=? 4194304) && (rbuf <=? 4194304)
             && (seed <=? 60000) && (who <=? 1) && (delay <=? 500) && (pace <=? 1000)
             && (1 <=? rcap) && (rcap <=? 1048576) && (1 <=? n) && (n <=? 8))
    then None else
    let? '(ops, l) := dec_ops (nn n) l in
    if negb (forallb (fun '(k, a, b) => (1 <=? k) && (k <=? 6) && (1 <=? a) && (a <=? 8388608)
                                         && (1 <=? b) && (b <=? 8388608)) ops
             && (fold_right (fun '(_, a, _) acc => a + acc) 0 ops <=? 16777216))
    then None else
    match l with
    | [99999] => Some (illegal O 99999)
    | _ =>
      match dec_transcript l with
      | Some evs => Some (run_bulk ops rcap (mkb (mkc 0 false) 0 0 0 0 false 0) evs O [])
      | None => Some l
      end
    end
  | _ => None
  end.

Definition run_c14 (l : list N) : list N :=
  match l with
  | 1 :: r => match stream_case r with Some o => o | None => BAD_CASE end
  | 2 :: r => match dgram_case r with Some o => o | None => BAD_CASE end
  | 3 :: r => match accept_case r with Some o => o | None => BAD_CASE end
  | 4 :: r => match bulk_case r with Some o => o | None => BAD_CASE end
  | _ => BAD_CASE
  end.
