(* Base.v — shared vocabulary of all models.
   No proofs here (models must still run when a proof breaks). *)
From Coq Require Export List Arith NArith ZArith Bool Lia.
Export ListNotations.

(* ---------------------------------------------------------------------- *)
(* Results: a panic of the real code is an explicit value, never a default *)

Inductive R (A : Type) : Type :=
| Ok (a : A)
| Panic (code : N).
Arguments Ok {A} a.
Arguments Panic {A} code.

Definition rbind {A B} (r : R A) (f : A -> R B) : R B :=
  match r with Ok a => f a | Panic c => Panic c end.
Notation "'let!' x ':=' r 'in' k" := (rbind r (fun x => k))
  (at level 200, x binder, right associativity).

(* panic codes (what the harness prints for a caught unwind) *)
Definition P_SUB_OVERFLOW : N := 1.   (* attempt to subtract with overflow        *)
Definition P_SLICE_INDEX  : N := 2.   (* slice index out of range / order         *)
Definition P_ASSERT       : N := 3.   (* assert!/debug_assert! failed             *)
Definition P_SET_LEN      : N := 4.   (* set_len beyond capacity (UB/abort)       *)
Definition P_ADD_OVERFLOW : N := 5.
Definition P_OTHER        : N := 9.

(* io::ErrorKind codes shared by harness and model *)
Definition E_UNEXPECTED_EOF : N := 1.
Definition E_WRITE_ZERO     : N := 2.
Definition E_INTERRUPTED    : N := 3.
Definition E_OTHER          : N := 4.  (* base of harness-chosen kinds: 4.. *)
Definition E_OUT_OF_MEMORY  : N := 20.
Definition E_WOULD_BLOCK    : N := 21.
Definition E_INVALID_DATA   : N := 22.

(* ---------------------------------------------------------------------- *)
(* bytes and small list helpers (nat indices: sizes in cases are small)    *)

Definition byte := N.

Definition nn (n : N) : nat := N.to_nat n.
Definition NN (n : nat) : N := N.of_nat n.

(* overwrite [bs] into [cells] at offset [off]; caller guarantees it fits *)
Definition write_at (cells : list byte) (off : nat) (bs : list byte) : list byte :=
  firstn off cells ++ bs ++ skipn (off + length bs) cells.

Definition sub_list (l : list byte) (off len : nat) : list byte :=
  firstn len (skipn off l).

Fixpoint repeat_b (b : byte) (n : nat) : list byte :=
  match n with O => [] | S k => b :: repeat_b b k end.

(* the canary pattern the harnesses pre-fill allocations with *)
Definition canary (i : nat) : byte := NN (128 + (i mod 100)).
Fixpoint canaries_from (i n : nat) : list byte :=
  match n with O => [] | S k => canary i :: canaries_from (S i) k end.

(* ---------------------------------------------------------------------- *)
(* integer-line case format: every case and every result is a list N       *)

Definition take1 (l : list N) : option (N * list N) :=
  match l with x :: r => Some (x, r) | [] => None end.

Definition takeN (n : nat) (l : list N) : option (list N * list N) :=
  if Nat.leb n (length l) then Some (firstn n l, skipn n l) else None.

Definition BAD_CASE : list N := [99999%N].

(* checked usize arithmetic of a debug build *)
Definition usub (a b : nat) : R nat :=
  if Nat.leb b a then Ok (a - b) else Panic P_SUB_OVERFLOW.
