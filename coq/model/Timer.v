(* Timer.v — executable model of compio-runtime's timers
   (compio-runtime/src/time/runtime.rs: TimerKey, TimerRuntime;
    time/future.rs: TimerFuture, Sleep, Timeout, Interval;
    lib.rs: Runtime::poll = poll_with(current_timeout()); wake()).
   No proofs in this file.

   Time is Z: nanoseconds since an arbitrary epoch (std::time::Instant).  The
   clock is an environment: every operation that reads Instant::now() in the
   real code takes the value read as an explicit argument [now].
   A Waker is its identity (an N); invoking it is an output event.            *)
From Compio.Model Require Import Base.

Local Open Scope Z_scope.

Definition U64_MAX : N := 18446744073709551615%N.
Definition TWO64 : Z := 18446744073709551616.

(* ---------------------------------------------------------------------- *)
(* TimerKey { deadline: Instant, generation: u64 } with the derived Ord
   (lexicographic, deadline first)                                         *)

Record key := mkkey { kdl : Z; kgen : N }.

Definition key_ltb (a b : key) : bool :=
  (kdl a <? kdl b) || ((kdl a =? kdl b) && (kgen a <? kgen b)%N).
Definition key_eqb (a b : key) : bool :=
  (kdl a =? kdl b) && (kgen a =? kgen b)%N.

(* BTreeMap<TimerKey, Option<Waker>> as an association list sorted by key.
   Every function below keeps it strictly sorted when it was (thm/TimerThm.v),
   so positions in the list are positions in the B-tree's iteration order.   *)
Definition waker := N.
Definition entry := (key * option waker)%type.

Record wheel := mkwheel { wgen : N; wmap : list entry }.

Definition wheel_new : wheel := mkwheel 0%N [].

(* BTreeMap::insert: replaces the value of an existing key *)
Fixpoint map_insert (k : key) (v : option waker) (m : list entry) : list entry :=
  match m with
  | [] => [(k, v)]
  | (k', v') :: r =>
    if key_ltb k k' then (k, v) :: m
    else if key_eqb k k' then (k, v) :: r
    else (k', v') :: map_insert k v r
  end.

Fixpoint map_remove (k : key) (m : list entry) : list entry :=
  match m with
  | [] => []
  | (k', v') :: r => if key_eqb k k' then r else (k', v') :: map_remove k r
  end.

Fixpoint map_mem (k : key) (m : list entry) : bool :=
  match m with
  | [] => false
  | (k', _) :: r => key_eqb k k' || map_mem k r
  end.

(* get_mut + assignment: only an existing key gets the value *)
Fixpoint map_set (k : key) (v : option waker) (m : list entry) : list entry :=
  match m with
  | [] => []
  | (k', v') :: r => if key_eqb k k' then (k', v) :: r else (k', v') :: map_set k v r
  end.

(* BTreeMap::split_off(&s): self keeps the keys < s, the result has the keys >= s *)
Fixpoint split_lt (s : key) (m : list entry) : list entry * list entry :=
  match m with
  | [] => ([], [])
  | (k, v) :: r =>
    if key_ltb k s then let '(a, b) := split_lt s r in ((k, v) :: a, b)
    else ([], m)
  end.

(* ---------------------------------------------------------------------- *)
(* TimerRuntime                                                            *)

Definition is_completed (k : key) (w : wheel) : bool := negb (map_mem k (wmap w)).

(* insert(deadline): None when the deadline is not in the future; the key is
   put into the map BEFORE the generation counter is advanced, and the advance
   is checked ("too many timers created").                                   *)
Definition insert (now d : Z) (w : wheel) : R (option key * wheel) :=
  if d <=? now then Ok (None, w)
  else
    let k := mkkey d (wgen w) in
    let m := map_insert k None (wmap w) in
    if (wgen w =? U64_MAX)%N then Panic P_OTHER
    else Ok (Some k, mkwheel (wgen w + 1)%N m).

(* update_waker: a completed (absent) timer is left alone; will_wake only
   avoids a clone, the stored waker is the given one either way *)
Definition update_waker (k : key) (wk : waker) (w : wheel) : wheel :=
  mkwheel (wgen w) (map_set k (Some wk) (wmap w)).

Definition cancel (k : key) (w : wheel) : wheel :=
  mkwheel (wgen w) (map_remove k (wmap w)).

(* first_key_value().map(|k| k.deadline.saturating_duration_since(now)) *)
Definition min_timeout (now : Z) (w : wheel) : option Z :=
  match wmap w with
  | [] => None
  | (k, _) :: _ => Some (Z.max 0 (kdl k - now))
  end.

Fixpoint wakers_of (m : list entry) : list waker :=
  match m with
  | [] => []
  | (_, Some wk) :: r => wk :: wakers_of r
  | (_, None) :: r => wakers_of r
  end.

(* wake(): split at (now, u64::MAX); the part below is dropped from the wheel
   and its wakers are invoked in key order *)
Definition wake (now : Z) (w : wheel) : list waker * wheel :=
  match wmap w with
  | [] => ([], w)
  | _ =>
    let '(expired, pending) := split_lt (mkkey now U64_MAX) (wmap w) in
    (wakers_of expired, mkwheel (wgen w) pending)
  end.

(* poll_timer: Ready iff completed, otherwise register the waker *)
Definition poll_timer (k : key) (wk : waker) (w : wheel) : bool * wheel :=
  if is_completed k w then (true, w) else (false, update_waker k wk w).

(* Runtime::poll: the driver is asked to sleep at most [min_timeout now1];
   when it returns the clock reads [now2] and the wheel is woken *)
Definition rt_poll (now1 now2 : Z) (w : wheel) : option Z * list waker * wheel :=
  let t := min_timeout now1 w in
  let '(ws, w') := wake now2 w in
  (t, ws, w').

(* Runtime::poll_with(timeout), with what driver.poll answered as an input of
   the environment: Ok(()) (some completion was found), Err(TimedOut),
   Err(Interrupted), or any other error.  The first three are swallowed and
   timer_runtime.wake() runs after every one of them; another error panics
   (`panic!("{e:?}")`) before the wheel is touched.                            *)
Inductive drv_answer := DOk | DTimedOut | DInterrupted | DError.

Definition poll_with (ans : drv_answer) (now : Z) (w : wheel) : R (list waker * wheel) :=
  match ans with
  | DError => Panic P_OTHER
  | _ => Ok (wake now w)
  end.

(* one turn of the block_on loop after the main future returned Pending:
   `if remaining_tasks { poll_with(Some(ZERO)) } else { poll() }`; the timeout
   handed to the driver is an output, [now1] is read by min_timeout, [now2] by
   wake when the driver has returned *)
Definition loop_iter (remaining : bool) (ans : drv_answer) (now1 now2 : Z) (w : wheel)
  : R (option Z * list waker * wheel) :=
  let t := if remaining then Some 0 else min_timeout now1 w in
  let! '(ws, w') := poll_with ans now2 w in
  Ok (t, ws, w').

(* any number of turns: per turn (remaining tasks?, driver answer, now1, now2) *)
Definition turn := (bool * drv_answer * Z * Z)%type.
Fixpoint loop_run (w : wheel) (ts : list turn) : R (list (list waker) * wheel) :=
  match ts with
  | [] => Ok ([], w)
  | (rem, ans, n1, n2) :: r =>
    let! '(_, ws, w1) := loop_iter rem ans n1 n2 w in
    let! '(wss, w2) := loop_run w1 r in
    Ok (ws :: wss, w2)
  end.

(* COUNTER-MODEL, used only by a refutation (prop/C09.v): a poll_with that wakes
   the wheel only when the driver timed out.  Not the code. *)
Definition poll_with_timeout_only (ans : drv_answer) (now : Z) (w : wheel)
  : R (list waker * wheel) :=
  match ans with
  | DError => Panic P_OTHER
  | DTimedOut => Ok (wake now w)
  | _ => Ok ([], w)
  end.

Fixpoint timeout_only_run (w : wheel) (ts : list (drv_answer * Z))
  : R (list (list waker) * wheel) :=
  match ts with
  | [] => Ok ([], w)
  | (ans, now) :: r =>
    let! '(ws, w1) := poll_with_timeout_only ans now w in
    let! '(wss, w2) := timeout_only_run w1 r in
    Ok (ws :: wss, w2)
  end.

(* ---------------------------------------------------------------------- *)
(* programs over the wheel (what futures holding keys can do to it)         *)

Inductive op :=
| OInsert (now d : Z)
| OSetWaker (k : key) (wk : waker)
| OCancel (k : key)
| OMinTimeout (now : Z)
| OWake (now : Z)
| OPoll (k : key) (wk : waker).

Inductive out :=
| UKey (k : option key)
| UUnit
| UTimeout (t : option Z)
| UWoken (ws : list waker)
| UReady (b : bool).

Definition step (w : wheel) (o : op) : R (out * wheel) :=
  match o with
  | OInsert now d => let! '(k, w') := insert now d w in Ok (UKey k, w')
  | OSetWaker k wk => Ok (UUnit, update_waker k wk w)
  | OCancel k => Ok (UUnit, cancel k w)
  | OMinTimeout now => Ok (UTimeout (min_timeout now w), w)
  | OWake now => let '(ws, w') := wake now w in Ok (UWoken ws, w')
  | OPoll k wk => let '(b, w') := poll_timer k wk w in Ok (UReady b, w')
  end.

Fixpoint run (w : wheel) (ops : list op) : R (list out * wheel) :=
  match ops with
  | [] => Ok ([], w)
  | o :: r =>
    let! '(u, w1) := step w o in
    let! '(us, w2) := run w1 r in
    Ok (u :: us, w2)
  end.

(* ---------------------------------------------------------------------- *)
(* Sleep(Option<TimerFuture>)                                              *)

Definition sleep := option key.

Definition sleep_new (now d : Z) (w : wheel) : R (sleep * wheel) := insert now d w.

Definition sleep_poll (s : sleep) (wk : waker) (w : wheel) : bool * wheel :=
  match s with
  | None => (true, w)
  | Some k => poll_timer k wk w
  end.

(* Drop for TimerFuture *)
Definition sleep_drop (s : sleep) (w : wheel) : wheel :=
  match s with
  | None => w
  | Some k => cancel k w
  end.

(* ---------------------------------------------------------------------- *)
(* Timeout { fut, sleep }: the inner future is polled first, then the sleep *)

Inductive tres := TOk | TElapsed | TPending.

Definition timeout_poll (inner_ready : bool) (s : sleep) (wk : waker) (w : wheel)
  : tres * wheel :=
  if inner_ready then (TOk, w)
  else match sleep_poll s wk w with
       | (true, w') => (TElapsed, w')
       | (false, w') => (TPending, w')
       end.

(* the environment of one Timeout: polls of it (with the answer its inner
   future gives at that poll) interleaved with arbitrary wheel operations of
   everything else; the Timeout is dropped when it has produced its result  *)
Inductive tev := TPoll (inner_ready : bool) (wk : waker) | TOp (o : op).

Fixpoint timeout_drive (s : sleep) (w : wheel) (evs : list tev) : R (tres * wheel) :=
  match evs with
  | [] => Ok (TPending, w)
  | TPoll rdy wk :: r =>
    match timeout_poll rdy s wk w with
    | (TPending, w') => timeout_drive s w' r
    | (res, w') => Ok (res, sleep_drop s w')
    end
  | TOp o :: r =>
    let! '(_, w') := step w o in timeout_drive s w' r
  end.

(* ---------------------------------------------------------------------- *)
(* Interval                                                                *)

Record interval := mkinterval { first_ticked : bool; istart : Z; iperiod : Z }.

(* interval_at: assert!(period > Duration::ZERO, "`period` must be non-zero.") *)
Definition interval_at (start period : Z) : R interval :=
  if period <=? 0 then Panic P_OTHER else Ok (mkinterval false start period).

(* Duration::new((n / 1_000_000_000) as u64, (n % 1_000_000_000) as u32) of a
   u128 nanosecond count n, the two casts explicit *)
Definition NANOS_PER_SEC : Z := 1000000000.
Definition TWO32 : Z := 4294967296.
Definition dur_of_u128 (n : Z) : Z :=
  ((n / NANOS_PER_SEC) mod TWO64) * NANOS_PER_SEC + ((n mod NANOS_PER_SEC) mod TWO32).

(* a Duration is u64 seconds + nanoseconds below one second *)
Definition DUR_LIMIT : Z := TWO64 * NANOS_PER_SEC.

(* now + period - Duration((now - start).as_nanos() % period.as_nanos());
   `Instant - Instant` saturates at zero *)
Definition interval_next (start period now : Z) : Z :=
  let elapsed := Z.max 0 (now - start) in
  now + period - dur_of_u128 (elapsed mod period).

(* tick(): the instant the tick sleeps until, which is also the value it
   returns; [now] is read by every tick but the first.  first_ticked is set
   when the first sleep is over (a tick dropped before that leaves it unset) *)
Definition tick_deadline (iv : interval) (now : Z) : Z :=
  if first_ticked iv then interval_next (istart iv) (iperiod iv) now else istart iv.
Definition tick_done (iv : interval) : interval :=
  mkinterval true (istart iv) (iperiod iv).

(* ---------------------------------------------------------------------- *)
(* specification vocabulary used by the theorems (computable, no proofs)    *)

(* the waker a still-pending timer [k] has registered after [ops]:
   update_waker and a pending poll both store the given waker *)
Fixpoint last_reg (k : key) (s : option waker) (ops : list op) : option waker :=
  match ops with
  | [] => s
  | OSetWaker k' wk :: r => last_reg k (if key_eqb k k' then Some wk else s) r
  | OPoll k' wk :: r => last_reg k (if key_eqb k k' then Some wk else s) r
  | _ :: r => last_reg k s r
  end.

Definition opt_list {A} (o : option A) : list A :=
  match o with Some a => [a] | None => [] end.

(* the operations of a program that do not name the key [k] *)
Definition names (k : key) (o : op) : bool :=
  match o with
  | OSetWaker k' _ | OCancel k' | OPoll k' _ => key_eqb k k'
  | _ => false
  end.
Definition erase (k : key) (ops : list op) : list op := filter (fun o => negb (names k o)) ops.

(* a wheel whose generation counter moved although nothing entered the map *)
Definition bump (w : wheel) : wheel := mkwheel (wgen w + 1)%N (wmap w).

(* the result of a Timeout stated without the wheel: [expired] = the deadline
   was reached by some wake (or had passed at creation); the inner future's
   answer is looked at first *)
Fixpoint timeout_spec (expired : bool) (d : Z) (evs : list tev) : tres :=
  match evs with
  | [] => TPending
  | TPoll rdy _ :: r =>
    if rdy then TOk else if expired then TElapsed else timeout_spec expired d r
  | TOp (OWake now) :: r => timeout_spec (expired || (d <=? now)) d r
  | TOp _ :: r => timeout_spec expired d r
  end.

(* an Interval under its environment: every tick() call reads the clock [now];
   [completed] = the call was awaited to its end (false: the future was dropped
   while its sleep was pending).  The list of the instants the calls sleep until. *)
Inductive ivev := IvTick (now : Z) (completed : bool).

Fixpoint iv_run (iv : interval) (evs : list ivev) : list Z :=
  match evs with
  | [] => []
  | IvTick now c :: r =>
    tick_deadline iv now :: iv_run (if c then tick_done iv else iv) r
  end.

(* what never-early gives about the clock: once a tick has completed, the clock
   has reached start *)
Fixpoint clocked (ticked : bool) (start : Z) (evs : list ivev) : Prop :=
  match evs with
  | [] => True
  | IvTick now c :: r => (ticked = true -> start <= now) /\ clocked (ticked || c) start r
  end.

Definition iv_completed (e : ivev) : bool := match e with IvTick _ c => c end.

(* the turns of a loop as wheel operations *)
Definition turn_ops (ts : list turn) : list op :=
  map (fun t : turn => OWake (snd t)) ts.
