(* DriverKeys.v — the driver's operation-storage bookkeeping as a replayable
   labelled transition system (compio-driver/src/key.rs, lib.rs,
   sys/driver/iour/mod.rs, sys/driver/poll/mod.rs).

   One event of a recorded history (hook events of compio_driver::verif plus
   the user actions the harness logs) is one label.  [step] mirrors what the
   code does to the reference count of the operation storage (ThinCell):

     rc k = user handles + leaked ref (io_uring in_flight / user_data)
            + frozen ref (blocking pool) + clones in the polling driver's
            fd queues + refs travelling in the completed channel

   The storage is freed exactly when rc reaches 0; the model PREDICTS every
   KEY_FREE event and rejects a history in which storage is freed at any
   other moment.  No proofs here. *)
From Compio.Model Require Import Base.

Record kst := mk_kst {
  rc : nat;            (* ThinCell strong count *)
  user : nat;          (* handles the user (harness) holds *)
  leaked : bool;       (* raw ref held through user_data / in_flight *)
  in_kernel : bool;    (* SQE submitted, final CQE not yet reaped *)
  frozen : bool;       (* FrozenKey held by a pool thread *)
  queued : nat;        (* clones in polling-driver fd queues *)
  chan : nat;          (* Entry refs waiting in the completed channel *)
  entry : bool;        (* an Entry for this key is being notified (holds one ref) *)
  results : nat;       (* number of set_result calls *)
  cancelled : bool;
  freed : bool;
  hold : bool          (* the user's handle is inside a Proactor::cancel call in progress *)
}.

Definition new_key : kst := mk_kst 1 1 false false false 0 0 false 0 false false false.

(* field updates *)
Definition w_rc n x := mk_kst n (user x) (leaked x) (in_kernel x) (frozen x) (queued x) (chan x) (entry x) (results x) (cancelled x) (freed x) (hold x).
Definition w_user n x := mk_kst (rc x) n (leaked x) (in_kernel x) (frozen x) (queued x) (chan x) (entry x) (results x) (cancelled x) (freed x) (hold x).
Definition w_leaked b x := mk_kst (rc x) (user x) b (in_kernel x) (frozen x) (queued x) (chan x) (entry x) (results x) (cancelled x) (freed x) (hold x).
Definition w_in_kernel b x := mk_kst (rc x) (user x) (leaked x) b (frozen x) (queued x) (chan x) (entry x) (results x) (cancelled x) (freed x) (hold x).
Definition w_frozen b x := mk_kst (rc x) (user x) (leaked x) (in_kernel x) b (queued x) (chan x) (entry x) (results x) (cancelled x) (freed x) (hold x).
Definition w_queued n x := mk_kst (rc x) (user x) (leaked x) (in_kernel x) (frozen x) n (chan x) (entry x) (results x) (cancelled x) (freed x) (hold x).
Definition w_chan n x := mk_kst (rc x) (user x) (leaked x) (in_kernel x) (frozen x) (queued x) n (entry x) (results x) (cancelled x) (freed x) (hold x).
Definition w_entry b x := mk_kst (rc x) (user x) (leaked x) (in_kernel x) (frozen x) (queued x) (chan x) b (results x) (cancelled x) (freed x) (hold x).
Definition w_results n x := mk_kst (rc x) (user x) (leaked x) (in_kernel x) (frozen x) (queued x) (chan x) (entry x) n (cancelled x) (freed x) (hold x).
Definition w_cancelled b x := mk_kst (rc x) (user x) (leaked x) (in_kernel x) (frozen x) (queued x) (chan x) (entry x) (results x) b (freed x) (hold x).
Definition w_freed b x := mk_kst (rc x) (user x) (leaked x) (in_kernel x) (frozen x) (queued x) (chan x) (entry x) (results x) (cancelled x) b (hold x).
Definition w_hold b x := mk_kst (rc x) (user x) (leaked x) (in_kernel x) (frozen x) (queued x) (chan x) (entry x) (results x) (cancelled x) (freed x) b.

Record st := mk_st {
  keys : list kst;
  ring_open : bool;
  dropping : bool;     (* Driver::drop has started *)
  uring : bool;        (* true = io_uring driver, false = polling driver *)
  gone : bool          (* the driver's fields (completed channel) are dropped *)
}.

Definition init (is_uring : bool) : st := mk_st [] true false is_uring false.

Definition upd (l : list kst) (k : nat) (f : kst -> kst) : list kst :=
  match nth_error l k with
  | Some x => firstn k l ++ f x :: skipn (S k) l
  | None => l
  end.

Definition set_keys (s : st) (l : list kst) : st :=
  mk_st l (ring_open s) (dropping s) (uring s) (gone s).

(* hook events (compio_driver::verif) and the user actions the harness logs *)
Inductive ev :=
| EKeyNew (k : nat)
| EKeyFree (k : nat)
| ESubmit (k : nat)
| ECqeMore (k : nat)
| ECqeFinal (k : nat)          (* Entry::notify starts: an Entry holding one ref exists *)
| ESetResult (k : nat)
| ERingClosed
| EDropBegin
| EDropDrain (k : nat)         (* Driver::drop releases an unreaped completion *)
| EDropEnd
| ECancelPush (k : nat) (ok : bool)
| EBlockingDispatch (k : nat)
| EBlockingStart (k : nat)
| EBlockingEnd (k : nat)
| EPollQueue (k : nat)
| EPollCancel (k : nat)
| EPollEvent (k : nat)          (* the poller delivered an event carrying this key: the driver reads the storage *)
| EPollArm (k : nat)            (* the poller is (re)armed with this key as user data *)
| EUserPop (k : nat) (ready : bool)   (* Proactor::pop; ready = it returned the result *)
| EUserDrop (k : nat)                 (* the user drops its handle *)
| EUserCancel (k : nat)               (* Proactor::cancel(key): consumes the handle *)
| EUserToken (k : nat)                (* register_cancel + cancel_token: keeps the handle *)
| EUserPushReady (k : nat)            (* push returned Ready: result taken at once *)
| EOther.                             (* events the key model ignores *)

(* a decrement of the count; reaching 0 must be followed by KEY_FREE *)
Definition dec (x : kst) : option kst :=
  match rc x with O => None | S n => Some (w_rc n x) end.

Definition live (x : kst) : bool := negb (freed x).
Definition needs_free (x : kst) : bool := Nat.eqb (rc x) 0 && negb (freed x).
Definition any_needs_free (s : st) : bool := existsb needs_free (keys s).

Definition with_key (s : st) (k : nat) (f : kst -> option kst) : option st :=
  match nth_error (keys s) k with
  | Some x =>
    match f x with
    | Some y => Some (set_keys s (upd (keys s) k (fun _ => y)))
    | None => None
    end
  | None => None
  end.

(* the storage is touched by the code at this event: it must be allocated *)
Definition touch (x : kst) : option kst := if live x then Some x else None.

(* polling driver / channel: releasing [n] refs at once, saturating *)
Definition release_n (n : nat) (x : kst) : kst := w_rc (rc x - n) x.

(* Proactor::cancel consumes the user's handle, but the handle stays alive until
   the call returns; completions reaped inside the call (a full submission queue
   is flushed) see it.  [settle] performs the deferred release. *)
Definition settle (x : kst) : kst :=
  if hold x && live x then w_hold false (release_n 1 x) else x.
Definition settle_all (s : st) : st := set_keys s (map settle (keys s)).

(* events that can only happen once an earlier user call has returned *)
Definition user_ev (e : ev) : bool :=
  match e with
  | EKeyNew _ | EUserPop _ _ | EUserDrop _ | EUserCancel _ | EUserToken _
  | EUserPushReady _ | EDropBegin => true
  | _ => false
  end.

Definition any_frozen (s : st) : bool := existsb (fun x => frozen x && live x) (keys s).
Definition release_chan (x : kst) : kst :=
  if live x then w_chan 0 (release_n (chan x) x) else x.

Definition blocked (s : st) : bool := any_needs_free s && negb (gone s).

Definition strict_ev (e : ev) : bool :=
  match e with
  | EKeyFree _ | EBlockingStart _ | EBlockingEnd _ | EOther => false
  | _ => true
  end.

Definition step (s0 : st) (e : ev) : option st :=
  let s := if user_ev e then settle_all s0 else s0 in
  (* every predicted free must have been observed before anything else happens
     on the driver thread (pool-thread events may interleave) *)
  (* once the driver is gone, the last ref of a thread-pool job is dropped by its
     pool thread some time after BLOCKING_END: the free may be observed late *)
  if strict_ev e && blocked s then None else
  match e with
  | EKeyNew k =>
    if Nat.eqb k (length (keys s)) then Some (set_keys s (keys s ++ [new_key])) else None
  | EKeyFree k =>
    with_key s k (fun x0 =>
      let x := settle x0 in
      if needs_free x
         (* C01: never free storage the kernel may still use *)
         && negb (in_kernel x && ring_open s)
         && negb (frozen x)
      then Some (w_freed true x)
      else None)
  | ESubmit k =>
    (* push clones the key and leaks the clone into user_data *)
    with_key s k (fun x =>
      if live x && negb (leaked x) && uring s && ring_open s
      then Some (w_in_kernel true (w_leaked true (w_rc (S (rc x)) x)))
      else None)
  | ECqeMore k =>
    with_key s k (fun x => if live x && in_kernel x && leaked x then Some x else None)
  | ECqeFinal k =>
    (* io_uring: from_raw takes the leaked ref over; blocking / cancelled: the
       Entry comes out of the channel; polling: the clone popped from the queue *)
    with_key s k (fun x =>
      if negb (live x) || entry x then None else
      if leaked x && in_kernel x then Some (w_entry true (w_in_kernel false (w_leaked false x)))
      else if Nat.ltb 0 (chan x) then Some (w_entry true (w_chan (chan x - 1) x))
      else if Nat.ltb 0 (queued x) then Some (w_entry true (w_queued (queued x - 1) x))
      else None)
  | ESetResult k =>
    with_key s k (fun x =>
      (* C02: a final result is stored at most once *)
      if negb (live x) || Nat.ltb 0 (results x) then None else
      if entry x
      then (* Entry::notify: after set_result the Entry (one ref) is dropped *)
           dec (w_entry false (w_results (S (results x)) x))
      else Some (w_results (S (results x)) x))
  | ERingClosed =>
    if dropping s && ring_open s && uring s then
      (* closing the ring quiesces every in-flight operation (environment);
         Driver::drop then releases every ref still leaked into in_flight *)
      Some (mk_st (map (fun x => if leaked x && live x
                                 then w_leaked false (w_in_kernel false (release_n 1 x))
                                 else w_in_kernel false x) (keys s))
                  false true (uring s) (gone s))
    else None
  | EDropBegin =>
    if dropping s then None else
    if uring s then Some (mk_st (keys s) (ring_open s) true true false)
    else (* polling driver: registry queues and the channel are dropped *)
      Some (mk_st (map (fun x => if live x
                                 then (if any_frozen s
                                       then w_queued 0 (release_n (queued x) x)
                                       else w_chan 0 (w_queued 0 (release_n (queued x + chan x) x)))
                                 else x) (keys s))
                  (ring_open s) true false true)
  | EDropDrain k =>
    (* a completion that was posted but never reaped: the leaked ref is dropped *)
    if negb (dropping s && ring_open s) then None else
    with_key s k (fun x =>
      if live x && leaked x
      then dec (w_in_kernel false (w_leaked false x))
      else None)
  | EDropEnd =>
    (* every leaked ref has been released by now; refs still travelling in the
       completed channel are dropped with the driver's fields *)
    if dropping s && negb (ring_open s)
       && negb (existsb (fun x => leaked x && negb (freed x)) (keys s))
    then Some (mk_st (if any_frozen s then keys s else map release_chan (keys s))
                     (ring_open s) (dropping s) (uring s) true)
    else None
  | ECancelPush k _ => with_key s k touch
  | EPollEvent k => with_key s k touch
  | EPollArm k => with_key s k touch
  | EBlockingDispatch k =>
    with_key s k (fun x =>
      if live x && negb (frozen x) then Some (w_frozen true (w_rc (S (rc x)) x)) else None)
  | EBlockingStart k => with_key s k (fun x => if live x && frozen x then Some x else None)
  | EBlockingEnd k =>
    (* the frozen key is sent back through the completed channel; when the
       driver is gone the send fails and the Entry is dropped on the spot *)
    if gone s then
      (* the Entry is dropped on the spot; the closure's sender was the last
         thing keeping earlier entries of the dead channel alive *)
      match with_key s k (fun x => if live x && frozen x then dec (w_frozen false x) else None) with
      | Some s' => Some (if any_frozen s' then s' else set_keys s' (map release_chan (keys s')))
      | None => None
      end
    else
    with_key s k (fun x =>
      if live x && frozen x then Some (w_chan (S (chan x)) (w_frozen false x)) else None)
  | EPollQueue k =>
    with_key s k (fun x =>
      if live x && negb (uring s) then Some (w_queued (S (queued x)) (w_rc (S (rc x)) x)) else None)
  | EPollCancel k =>
    (* cancel_one: the queue clone is removed, a cancelled Entry holding a
       fresh clone travels through the channel *)
    with_key s k (fun x =>
      if negb (live x) then None else
      if Nat.ltb 0 (queued x)
      then Some (w_chan (S (chan x)) (w_queued (queued x - 1) x))
      else Some (w_chan (S (chan x)) (w_rc (S (rc x)) x)))
  | EUserPop k ready =>
    with_key s k (fun x =>
      if negb (live x) || Nat.eqb (user x) 0 then None else
      if ready then
        (* take_result: requires uniqueness and a result; the storage is consumed *)
        if Nat.eqb (rc x) 1 && Nat.ltb 0 (results x)
        then Some (w_user 0 (w_rc 0 x))
        else None
      else if Nat.eqb (results x) 0 then Some x else None)
  | EUserDrop k =>
    with_key s k (fun x =>
      if live x && Nat.ltb 0 (user x) then dec (w_user (user x - 1) x) else None)
  | EUserCancel k =>
    (* the handle is given to the cancel call; released when the call returns *)
    with_key s k (fun x =>
      if live x && Nat.ltb 0 (user x)
      then Some (w_hold true (w_cancelled true (w_user (user x - 1) x))) else None)
  | EUserToken k =>
    with_key s k (fun x => if live x then Some (w_cancelled true x) else None)
  | EUserPushReady k =>
    (* Decision::Completed / immediate error: set_result, then take_result *)
    with_key s k (fun x =>
      if live x && Nat.ltb 0 (user x) && Nat.eqb (rc x) 1 && Nat.ltb 0 (results x)
      then Some (w_user 0 (w_rc 0 x))
      else None)
  | EOther => Some s
  end.

(* replay of a whole history; returns the index of the first rejected event *)
Fixpoint replay (s : st) (es : list ev) (i : nat) : st + nat :=
  match es with
  | [] => inl s
  | e :: r => match step s e with Some s' => replay s' r (S i) | None => inr i end
  end.

(* at the end of a program in which everything was dropped: no storage is
   left allocated *)
Definition quiescent (s : st) : bool :=
  forallb (fun x => freed x) (keys s).

(* ---------------------------------------------------------------------- *)
(* the submission queue with its overflow loop (push_raw): a bounded queue
   [sq] in front of the kernel's [submitted] list.                           *)

Record sqst := mk_sq { sq : list nat; submitted : list nat }.

Definition sq_push_raw (cap : nat) (q : sqst) (x : nat) : sqst :=
  if Nat.ltb (length (sq q)) cap
  then mk_sq (sq q ++ [x]) (submitted q)
  else (* full: submit everything queued, then push *)
       mk_sq [x] (submitted q ++ sq q).

Definition sq_flush (q : sqst) : sqst := mk_sq [] (submitted q ++ sq q).

(* the pre-fix Driver::cancel: a bare push that gives up on a full queue *)
Definition sq_push_bare (cap : nat) (q : sqst) (x : nat) : sqst * bool :=
  if Nat.ltb (length (sq q)) cap
  then (mk_sq (sq q ++ [x]) (submitted q), true)
  else (q, false).
