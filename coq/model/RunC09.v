(* RunC09.v — case interpreter for the C09 correspondence check (timers).
   A case is a list of N (one line of integers); so is the result.  The Rust
   harness harness/rt/src/bin/c09.rs decodes the same line.

   mode 1  [1; g0; n; steps..]   the timer wheel itself (exact differential).
           Time is counted in slots: a step at slot t reads the clock value
           2t+1, the deadline of slot d is 2d (the harness executes the step
           strictly inside the real-time slot t; deadlines are slot boundaries).
           g0 = 0: generation counter starts at 0; g0 = j >= 1: at u64::MAX-(j-1).
           steps:  1 t d       insert            -> 1 (key) | 0 (None)
                   2 t i wk    update_waker      -> 0
                   3 t i       cancel            -> 0
                   4 t         min_timeout       -> 0 | 2 (zero) | 1 d (deadline slot)
                   5 t         wake              -> n wk1..wkn
                   6 t i wk    Sleep::poll       -> 1 ready | 0 pending
                   7 t1 t2     Runtime::poll     -> min_timeout at t1, wake at t2
           i = index of the i-th insert; a None key behaves like Sleep(None).
           result: 0, step outputs, then generation-g0, n, (deadline slot,
           generation-g0, 0 | waker+1) for every entry in key order.
   mode 2  [2; drv; n; steps..]  a program on a real Runtime; the model runs it
           on a nominal clock (unit: 10 ms, deadline slot d = 4d, helper r =
           4r+2) and prints what the harness prints when its one-sided checks
           pass.
   mode 3  [3; off_s; off_ns; per_s; per_ns]  second tick of an Interval whose
           start lies `off` in the past.
   mode 4  [4; drv; n; steps..]  Runtime::poll_with / poll called by hand on a
           real Runtime (slot clock as in mode 1):
                   1 t d       sleep_until(d), polled once  -> 1 ready | 0 pending
                   2 t ans rem one turn: rem=1 poll_with(Some(ZERO)), rem=0 poll();
                               ans=1 an I/O completion is waiting for the driver,
                               ans=0 nothing is (TimedOut)   -> n wk1..wkn
                   3 t i       drop sleep i                 -> 0
           result: 0, step outputs, n, deadline slots left in the wheel.
   mode 6  [6; drv; traffic; extra; k; (d, kind) * k]  k timers (deadline slot d,
           kind 0 sleep_until / 1 timeout_at / 2 timeout / 3 sleep) next to a task
           that keeps completions flowing (traffic 0 pipe ping-pong, 1 socketpair
           ping-pong, 2 cross-thread wakes, 3 spawn_blocking results, 4 inline file
           ops) until well after the last deadline.  The model polls the driver
           once per 10 ms unit, every poll answers DOk; result: 0, per timer
           1 (fired at the first turn at/after its deadline) | 81, wheel length.
   mode 5  [5; lead_s; lead_ns; per_s; per_ns; c]  Interval starting `lead` in the
           future whose first tick is cancelled c times: the deadline of every
           one of those ticks, read back from the wheel, is start.            *)
From Compio.Model Require Import Base Timer.

Local Open Scope Z_scope.

Definition obind {A B} (o : option A) (f : A -> option B) : option B :=
  match o with Some a => f a | None => None end.
Notation "'let?' x ':=' o 'in' k" := (obind o (fun x => k))
  (at level 200, x binder, right associativity).

Definition zn (n : N) : Z := Z.of_N n.
Definition nz (z : Z) : N := Z.to_N z.
Definition bN (b : bool) : N := if b then 1%N else 0%N.
Definition enc_panic (c : N) : list N := [2%N; c].

(* ---------------------------------------------------------------------- *)
(* mode 1                                                                  *)

Inductive astep :=
| AInsert (t d : N)
| ASetWaker (t : N) (i : nat) (wk : N)
| ACancel (t : N) (i : nat)
| AMinTimeout (t : N)
| AWake (t : N)
| APoll (t : N) (i : nat) (wk : N)
| ALoop (t1 t2 : N).

Definition MAX_T : N := 63.
Definition MAX_D : N := 100000.
Definition N_WAKERS : N := 16.

Definition time_ok (last t : N) : bool := (last <=? t)%N && (t <=? MAX_T)%N.

(* decodes n steps; [ins] = number of inserts so far, [last] = last slot *)
Fixpoint dec_asteps (n : nat) (ins : nat) (last : N) (l : list N) : option (list astep * list N) :=
  match n with
  | O => Some ([], l)
  | S n' =>
    match l with
    | op :: t :: r =>
      if negb (time_ok last t) then None else
      let key (r : list N) : option (nat * list N) :=
        match r with
        | i :: r' => if Nat.ltb (nn i) ins then Some (nn i, r') else None
        | [] => None
        end in
      let wkr (r : list N) : option (N * list N) :=
        match r with
        | wk :: r' => if (wk <? N_WAKERS)%N then Some (wk, r') else None
        | [] => None
        end in
      match op with
      | 1%N =>
        match r with
        | d :: r' =>
          if (MAX_D <? d)%N then None else
          let? '(s, r'') := dec_asteps n' (S ins) t r' in Some (AInsert t d :: s, r'')
        | [] => None
        end
      | 2%N =>
        let? '(i, r1) := key r in
        let? '(wk, r2) := wkr r1 in
        let? '(s, r3) := dec_asteps n' ins t r2 in Some (ASetWaker t i wk :: s, r3)
      | 3%N =>
        let? '(i, r1) := key r in
        let? '(s, r2) := dec_asteps n' ins t r1 in Some (ACancel t i :: s, r2)
      | 4%N => let? '(s, r1) := dec_asteps n' ins t r in Some (AMinTimeout t :: s, r1)
      | 5%N => let? '(s, r1) := dec_asteps n' ins t r in Some (AWake t :: s, r1)
      | 6%N =>
        let? '(i, r1) := key r in
        let? '(wk, r2) := wkr r1 in
        let? '(s, r3) := dec_asteps n' ins t r2 in Some (APoll t i wk :: s, r3)
      | 7%N =>
        match r with
        | t2 :: r' =>
          if negb (time_ok t t2) then None else
          let? '(s, r'') := dec_asteps n' ins t2 r' in Some (ALoop t t2 :: s, r'')
        | [] => None
        end
      | _ => None
      end
    | _ => None
    end
  end.

Definition clk (t : N) : Z := 2 * zn t + 1.
Definition dln (d : N) : Z := 2 * zn d.

Definition enc_min_timeout (t : N) (mt : option Z) : list N :=
  match mt with
  | None => [0%N]
  | Some v => if v =? 0 then [2%N] else [1%N; nz ((v + clk t) / 2)]
  end.

Definition enc_woken (ws : list waker) : list N := NN (length ws) :: ws.

Definition key_at (keys : list sleep) (i : nat) : sleep := nth i keys None.

Definition enc_entry (gen0 : N) (e : entry) : list N :=
  [nz (kdl (fst e) / 2); (kgen (fst e) - gen0)%N;
   match snd e with None => 0%N | Some wk => (wk + 1)%N end].

Fixpoint run_asteps (gen0 : N) (steps : list astep) (w : wheel) (keys : list sleep)
  (acc : list N) : list N :=
  match steps with
  | [] =>
    acc ++ [(wgen w - gen0)%N; NN (length (wmap w))] ++ flat_map (enc_entry gen0) (wmap w)
  | st :: r =>
    match st with
    | AInsert t d =>
      match sleep_new (clk t) (dln d) w with
      | Panic c => enc_panic c
      | Ok (k, w') =>
        run_asteps gen0 r w' (keys ++ [k])
          (acc ++ [bN (match k with Some _ => true | None => false end)])
      end
    | ASetWaker _ i wk =>
      let w' := match key_at keys i with Some k => update_waker k wk w | None => w end in
      run_asteps gen0 r w' keys (acc ++ [0%N])
    | ACancel _ i =>
      run_asteps gen0 r (sleep_drop (key_at keys i) w) keys (acc ++ [0%N])
    | AMinTimeout t =>
      run_asteps gen0 r w keys (acc ++ enc_min_timeout t (min_timeout (clk t) w))
    | AWake t =>
      let '(ws, w') := wake (clk t) w in
      run_asteps gen0 r w' keys (acc ++ enc_woken ws)
    | APoll _ i wk =>
      let '(b, w') := sleep_poll (key_at keys i) wk w in
      run_asteps gen0 r w' keys (acc ++ [bN b])
    | ALoop t1 t2 =>
      let '(mt, ws, w') := rt_poll (clk t1) (clk t2) w in
      run_asteps gen0 r w' keys (acc ++ enc_min_timeout t1 mt ++ enc_woken ws)
    end
  end.

Definition run_a (l : list N) : option (list N) :=
  match l with
  | g0 :: n :: r =>
    if (1000 <? g0)%N then None else
    let? '(steps, rest) := dec_asteps (nn n) 0 0%N r in
    match rest with
    | [] =>
      let gen0 := if (g0 =? 0)%N then 0%N else (U64_MAX - (g0 - 1))%N in
      Some (run_asteps gen0 steps (mkwheel gen0 []) [] [0%N])
    | _ => None
    end
  | _ => None
  end.

(* ---------------------------------------------------------------------- *)
(* mode 2: nominal run of a runtime program                                 *)

Inductive bstep :=
| BSpawnSleep (d : N)
| BAwaitSleep (d : N)
| BCreatePollDrop (d : N)
| BTimeout (d r kind : N)
| BInterval (s p n g : N)
| BPipeIo (nb : N)
| BJoin (j : nat)
| BSelectDrop (a b : N)
| BYields (k : N)
| BBusy (d kind : N)
| BIntervalCancel (s p c n : N).

Definition MAX_SLOT : N := 12.
Definition slot_ok (x : N) : bool := (x <=? MAX_SLOT)%N.

Fixpoint set_nth {A} (i : nat) (a : A) (l : list A) : list A :=
  match l, i with
  | [], _ => []
  | _ :: r, O => a :: r
  | x :: r, S i' => x :: set_nth i' a r
  end.

(* [joined]: one flag per spawned sleeper *)
Fixpoint dec_bsteps (n : nat) (joined : list bool) (l : list N) : option (list bstep * list N) :=
  match n with
  | O => Some ([], l)
  | S n' =>
    match l with
    | 1%N :: d :: r =>
      if slot_ok d then
        let? '(s, r') := dec_bsteps n' (joined ++ [false]) r in Some (BSpawnSleep d :: s, r')
      else None
    | 2%N :: d :: r =>
      if slot_ok d then let? '(s, r') := dec_bsteps n' joined r in Some (BAwaitSleep d :: s, r')
      else None
    | 3%N :: d :: r =>
      if slot_ok d then let? '(s, r') := dec_bsteps n' joined r in Some (BCreatePollDrop d :: s, r')
      else None
    | 4%N :: d :: r0 :: k :: r =>
      if slot_ok d && slot_ok r0 && (k <=? 2)%N then
        let? '(s, r') := dec_bsteps n' joined r in Some (BTimeout d r0 k :: s, r')
      else None
    | 5%N :: s0 :: p :: m :: g :: r =>
      if slot_ok s0 && (p <=? 16)%N && (m <=? 6)%N && (g <=? 30)%N then
        let? '(s, r') := dec_bsteps n' joined r in Some (BInterval s0 p m g :: s, r')
      else None
    | 6%N :: nb :: r =>
      if (0 <? nb)%N && (nb <=? 4096)%N then
        let? '(s, r') := dec_bsteps n' joined r in Some (BPipeIo nb :: s, r')
      else None
    | 7%N :: j :: r =>
      match nth_error joined (nn j) with
      | Some false =>
        let? '(s, r') := dec_bsteps n' (set_nth (nn j) true joined) r in Some (BJoin (nn j) :: s, r')
      | _ => None
      end
    | 8%N :: a :: b :: r =>
      if slot_ok a && slot_ok b then
        let? '(s, r') := dec_bsteps n' joined r in Some (BSelectDrop a b :: s, r')
      else None
    | 9%N :: k :: r =>
      if (k <=? 50)%N then let? '(s, r') := dec_bsteps n' joined r in Some (BYields k :: s, r')
      else None
    | 10%N :: d :: k :: r =>
      if slot_ok d && (k <=? 3)%N then
        let? '(s, r') := dec_bsteps n' joined r in Some (BBusy d k :: s, r')
      else None
    | 11%N :: s0 :: p :: c :: m :: r =>
      if slot_ok s0 && (p <=? 16)%N && (c <=? 4)%N && (m <=? 5)%N then
        let? '(s, r') := dec_bsteps n' joined r in Some (BIntervalCancel s0 p c m :: s, r')
      else None
    | _ => None
    end
  end.

(* the block_on loop of an otherwise idle runtime, on a driver that sleeps
   exactly the timeout it is given: poll_with(min_timeout); wake — until [s]
   is complete *)
Fixpoint idle_until (fuel : nat) (s : sleep) (cur : Z) (w : wheel) : Z * wheel :=
  match fuel with
  | O => (cur, w)
  | S f =>
    if fst (sleep_poll s 0%N w) then (cur, w)
    else
      match min_timeout cur w with
      | None => (cur, w)
      | Some t =>
        let cur' := cur + t in
        let '(_, _, w') := rt_poll cur cur' w in
        idle_until f s cur' w'
      end
  end.

Definition await_sleep (s : sleep) (cur : Z) (w : wheel) : Z * wheel :=
  idle_until (S (length (wmap w))) s cur w.

(* never early, and complete *)
Definition judge (s : sleep) (dl cur : Z) (w : wheel) : N :=
  if negb (fst (sleep_poll s 0%N w)) then 72%N
  else if cur <? dl then 71%N else 1%N.

Definition qd (d : N) : Z := 4 * zn d.
Definition qr (r : N) : Z := 4 * zn r + 2.

Definition tres_code (t : tres) : N :=
  match t with TOk => 0%N | TElapsed => 1%N | TPending => 78%N end.

(* n ticks of an interval; every tick is awaited to its end *)
Fixpoint run_ticks (n : nat) (iv : interval) (prev : option Z) (cur : Z) (w : wheel)
  (acc : list N) : R (list N * Z * wheel) :=
  match n with
  | O => Ok (acc, cur, w)
  | S n' =>
    let dl := tick_deadline iv cur in
    let! '(s, w1) := sleep_new cur dl w in
    let '(cur', w2) := await_sleep s cur w1 in
    let aligned := (istart iv <=? dl) && ((dl - istart iv) mod iperiod iv =? 0) in
    let code := if negb aligned then 75%N
                else if match prev with Some p => dl <=? p | None => false end then 76%N
                else judge s dl cur' w2 in
    run_ticks n' (tick_done iv) (Some dl) cur' (sleep_drop s w2) (acc ++ [code])
  end.

(* a Timeout with deadline [dl] around an inner future that is ready from [ri]
   on ([inner_sleep]: the inner future is itself a sleep of the wheel): first
   poll now, then the wake at the earlier of the two instants and the poll it
   causes *)
Definition nominal_timeout (cur dl ri : Z) (inner_sleep : bool) (w : wheel)
  : R (tres * Z * wheel) :=
  let! '(si, w1) := (if inner_sleep then sleep_new cur ri w else Ok (None, w)) in
  let! '(st, w2) := sleep_new cur dl w1 in
  let c' := Z.min ri dl in
  let evs := [TPoll (ri <=? cur) 0%N; TOp (OWake c'); TPoll (ri <=? c') 0%N] in
  let! '(res, w3) := timeout_drive st w2 evs in
  let cur' := if (ri <=? cur) || (dl <=? cur) then cur else c' in
  Ok (res, cur', sleep_drop si w3).

(* the block_on loop while another task keeps the driver busy: every turn finds
   a completion (DOk), tasks remain, the driver is polled with a zero timeout *)
Fixpoint busy_until (fuel : nat) (s : sleep) (cur : Z) (w : wheel) : Z * wheel :=
  match fuel with
  | O => (cur, w)
  | S f =>
    if fst (sleep_poll s 0%N w) then (cur, w)
    else
      match loop_iter true DOk cur (cur + 1) w with
      | Ok (_, _, w') => busy_until f s (cur + 1) w'
      | Panic _ => (cur, w)
      end
  end.

(* first ticks cancelled by a timeout one unit ahead *)
Fixpoint run_cancels (n : nat) (iv : interval) (cur : Z) (w : wheel) (acc : list N)
  : R (interval * list N * Z * wheel) :=
  match n with
  | O => Ok (iv, acc, cur, w)
  | S n' =>
    let! '(res, cur', w') := nominal_timeout cur (cur + 1) (tick_deadline iv cur) true w in
    let iv' := match res with TOk => tick_done iv | _ => iv end in
    run_cancels n' iv' cur' w' (acc ++ [tres_code res])
  end.

Fixpoint run_bsteps (steps : list bstep) (cur : Z) (w : wheel)
  (sleepers : list (Z * option sleep)) (acc : list N) : list N :=
  match steps with
  | [] =>
    (* join what is left, then the wheel must be empty *)
    let fix finish (sl : list (Z * option sleep)) (cur : Z) (w : wheel) (acc : list N) : list N :=
      match sl with
      | [] => acc ++ [NN (length (wmap w))]
      | (_, None) :: r => finish r cur w acc
      | (dl, Some s) :: r =>
        let '(cur', w') := await_sleep s cur w in
        finish r cur' (sleep_drop s w') (acc ++ [judge s dl cur' w'])
      end in
    finish sleepers cur w acc
  | st :: r =>
    match st with
    | BSpawnSleep d =>
      match sleep_new cur (qd d) w with
      | Panic c => enc_panic c
      | Ok (s, w') => run_bsteps r cur w' (sleepers ++ [(qd d, Some s)]) (acc ++ [1%N])
      end
    | BAwaitSleep d =>
      match sleep_new cur (qd d) w with
      | Panic c => enc_panic c
      | Ok (s, w1) =>
        let '(cur', w2) := await_sleep s cur w1 in
        run_bsteps r cur' (sleep_drop s w2) sleepers (acc ++ [judge s (qd d) cur' w2])
      end
    | BCreatePollDrop d =>
      match sleep_new cur (qd d) w with
      | Panic c => enc_panic c
      | Ok (s, w1) =>
        let '(_, w2) := sleep_poll s 0%N w1 in
        let w3 := sleep_drop s w2 in
        run_bsteps r cur w3 sleepers
          (acc ++ [if Nat.eqb (length (wmap w3)) (length (wmap w)) then 1%N else 73%N])
      end
    | BTimeout d r0 kind =>
      match nominal_timeout cur (qd d) (qr r0) (kind =? 0)%N w with
      | Panic c => enc_panic c
      | Ok (res, cur', w') => run_bsteps r cur' w' sleepers (acc ++ [tres_code res])
      end
    | BInterval s0 p m _ =>
      match interval_at (qd s0) (zn p) with
      | Panic c => enc_panic c
      | Ok iv =>
        match run_ticks (nn m) iv None cur w acc with
        | Panic c => enc_panic c
        | Ok (acc', cur', w') => run_bsteps r cur' w' sleepers acc'
        end
      end
    | BPipeIo _ => run_bsteps r cur w sleepers (acc ++ [1%N])
    | BJoin j =>
      match nth_error sleepers j with
      | Some (dl, Some s) =>
        let '(cur', w') := await_sleep s cur w in
        run_bsteps r cur' (sleep_drop s w') (set_nth j (dl, None) sleepers)
          (acc ++ [judge s dl cur' w'])
      | _ => BAD_CASE
      end
    | BSelectDrop a b =>
      match sleep_new cur (qd a) w with
      | Panic c => enc_panic c
      | Ok (sa, w1) =>
        match sleep_new cur (qd b) w1 with
        | Panic c => enc_panic c
        | Ok (sb, w2) =>
          let first := if (a <=? b)%N then sa else sb in
          let '(cur', w3) := await_sleep first cur w2 in
          run_bsteps r cur' (sleep_drop sb (sleep_drop sa w3)) sleepers
            (acc ++ [judge first (Z.min (qd a) (qd b)) cur' w3])
        end
      end
    | BYields _ => run_bsteps r cur w sleepers (acc ++ [1%N])
    | BBusy d kind =>
      match sleep_new cur (qd d) w with
      | Panic c => enc_panic c
      | Ok (s, w1) =>
        let '(cur', w2) := busy_until (S (Z.to_nat (qd d - cur))) s cur w1 in
        if (kind <=? 1)%N then
          (* a Timeout around the busy loop: its inner future is never ready *)
          let '(res, w3) := timeout_poll false s 0%N w2 in
          run_bsteps r cur' (sleep_drop s w3) sleepers (acc ++ [tres_code res])
        else
          run_bsteps r cur' (sleep_drop s w2) sleepers (acc ++ [judge s (qd d) cur' w2])
      end
    | BIntervalCancel s0 p c m =>
      match interval_at (qd s0) (zn p) with
      | Panic c => enc_panic c
      | Ok iv =>
        match run_cancels (nn c) iv cur w acc with
        | Panic c => enc_panic c
        | Ok (iv', acc', cur', w') =>
          match run_ticks (nn m) iv' None cur' w' acc' with
          | Panic c => enc_panic c
          | Ok (acc'', cur'', w'') => run_bsteps r cur'' w'' sleepers acc''
          end
        end
      end
    end
  end.

Definition run_b (l : list N) : option (list N) :=
  match l with
  | drv :: n :: r =>
    if (1 <? drv)%N then None else
    let? '(steps, rest) := dec_bsteps (nn n) [] r in
    match rest with
    | [] => Some (run_bsteps steps 0 wheel_new [] [0%N])
    | _ => None
    end
  | _ => None
  end.

(* ---------------------------------------------------------------------- *)
(* mode 3                                                                  *)

Definition run_i (l : list N) : option (list N) :=
  match l with
  | [off_s; off_ns; per_s; per_ns] =>
    if (off_ns <? 1000000000)%N && (per_ns <? 1000000000)%N
       && (off_s <=? 50000000000)%N && (per_s <=? 50000000000)%N then
      let now := zn off_s * NANOS_PER_SEC + zn off_ns in
      let period := zn per_s * NANOS_PER_SEC + zn per_ns in
      match interval_at 0 period with
      | Panic c => Some (enc_panic c)
      | Ok iv =>
        let first := tick_deadline iv now in
        let next := tick_deadline (tick_done iv) now in
        let aligned := (first =? 0) && (0 <=? next) && (next mod period =? 0) in
        Some [0%N; bN aligned; bN (now <? next); bN (next <=? now + period); 1%N]
      end
    else None
  | _ => None
  end.

(* ---------------------------------------------------------------------- *)
(* mode 4: the loop turn on a real Runtime                                  *)

Inductive lstep :=
| LSleep (t d : N)
| LTurn (t : N) (ans rem : bool)
| LDrop (t : N) (i : nat).

Fixpoint dec_lsteps (n : nat) (made : nat) (last : N) (l : list N) : option (list lstep * list N) :=
  match n with
  | O => Some ([], l)
  | S n' =>
    match l with
    | op :: t :: r =>
      if negb (time_ok last t) then None else
      match op, r with
      | 1%N, d :: r' =>
        if (MAX_D <? d)%N || Nat.leb 16 made then None else
        let? '(s, r'') := dec_lsteps n' (S made) t r' in Some (LSleep t d :: s, r'')
      | 2%N, ans :: rem :: r' =>
        if (1 <? ans)%N || (1 <? rem)%N || ((rem =? 0)%N && (ans =? 0)%N) then None else
        let? '(s, r'') := dec_lsteps n' made t r' in
        Some (LTurn t (ans =? 1)%N (rem =? 1)%N :: s, r'')
      | 3%N, i :: r' =>
        if Nat.ltb (nn i) made then
          let? '(s, r'') := dec_lsteps n' made t r' in Some (LDrop t (nn i) :: s, r'')
        else None
      | _, _ => None
      end
    | _ => None
    end
  end.

Fixpoint run_lsteps (steps : list lstep) (w : wheel) (sleeps : list sleep) (acc : list N) : list N :=
  match steps with
  | [] => acc ++ [NN (length (wmap w))] ++ map (fun e : entry => nz (kdl (fst e) / 2)) (wmap w)
  | st :: r =>
    match st with
    | LSleep t d =>
      match sleep_new (clk t) (dln d) w with
      | Panic c => enc_panic c
      | Ok (s, w1) =>
        let '(b, w2) := sleep_poll s (NN (length sleeps)) w1 in
        run_lsteps r w2 (sleeps ++ [s]) (acc ++ [bN b])
      end
    | LTurn t ans rem =>
      match loop_iter rem (if ans then DOk else DTimedOut) (clk t) (clk t) w with
      | Panic c => enc_panic c
      | Ok (_, ws, w') => run_lsteps r w' sleeps (acc ++ enc_woken ws)
      end
    | LDrop _ i => run_lsteps r (sleep_drop (key_at sleeps i) w) sleeps (acc ++ [0%N])
    end
  end.

Definition run_l (l : list N) : option (list N) :=
  match l with
  | drv :: n :: r =>
    if (1 <? drv)%N then None else
    let? '(steps, rest) := dec_lsteps (nn n) 0 0%N r in
    match rest with
    | [] => Some (run_lsteps steps wheel_new [] [0%N])
    | _ => None
    end
  | _ => None
  end.

(* ---------------------------------------------------------------------- *)
(* mode 5: first tick of an Interval cancelled c times                      *)

Fixpoint cancelled_firsts (n : nat) (iv : interval) (now : Z) : list N :=
  match n with
  | O => []
  | S n' => bN (tick_deadline iv now =? istart iv) :: cancelled_firsts n' iv now
  end.

Definition run_f (l : list N) : option (list N) :=
  match l with
  | [lead_s; lead_ns; per_s; per_ns; c] =>
    if (lead_ns <? 1000000000)%N && (per_ns <? 1000000000)%N
       && (1 <=? lead_s)%N && (lead_s <=? 50000000000)%N && (per_s <=? 50000000000)%N
       && (c <=? 5)%N then
      let start := zn lead_s * NANOS_PER_SEC + zn lead_ns in
      let period := zn per_s * NANOS_PER_SEC + zn per_ns in
      match interval_at start period with
      | Panic c => Some (enc_panic c)
      | Ok iv => Some ([0%N] ++ cancelled_firsts (nn c) iv 0 ++ [1%N])
      end
    else None
  | _ => None
  end.

(* ---------------------------------------------------------------------- *)
(* mode 6: timers while other tasks keep the driver busy                    *)

Fixpoint dec_timers (n : nat) (l : list N) : option (list (N * N) * list N) :=
  match n with
  | O => Some ([], l)
  | S n' =>
    match l with
    | d :: kind :: r =>
      if (d <=? 5)%N && (kind <=? 3)%N then
        let? '(s, r') := dec_timers n' r in Some ((d, kind) :: s, r')
      else None
    | _ => None
    end
  end.

(* the wheel after every turn of a loop whose polls all find a completion *)
Fixpoint traffic_states (w : wheel) (ts : list Z) : R (list (Z * wheel)) :=
  match ts with
  | [] => Ok []
  | t :: r =>
    let! '(_, _, w1) := loop_iter true DOk t t w in
    let! rest := traffic_states w1 r in
    Ok ((t, w1) :: rest)
  end.

Fixpoint new_sleeps (ds : list (N * N)) (w : wheel) : R (list (Z * sleep) * wheel) :=
  match ds with
  | [] => Ok ([], w)
  | (d, _) :: r =>
    let! '(s, w1) := sleep_new 0 (qd d) w in
    let! '(ss, w2) := new_sleeps r w1 in
    Ok ((qd d, s) :: ss, w2)
  end.

(* complete after a turn exactly when the turn's clock has reached the deadline *)
Definition traffic_code (states : list (Z * wheel)) (ds : Z * sleep) : N :=
  let '(dl, s) := ds in
  if forallb (fun st : Z * wheel => Bool.eqb (fst (sleep_poll s 0%N (snd st))) (dl <=? fst st)) states
  then 1%N else 81%N.

Definition run_t (l : list N) : option (list N) :=
  match l with
  | drv :: tk :: extra :: k :: r =>
    if (1 <? drv)%N || (4 <? tk)%N || (20 <? extra)%N || (k =? 0)%N || (4 <? k)%N then None else
    let? '(ds, rest) := dec_timers (nn k) r in
    match rest with
    | [] =>
      let maxd := fold_right (fun x m => N.max (fst x) m) 0%N ds in
      let turns := map Z.of_nat (seq 1 (nn (4 * maxd + 30 + extra))) in
      match new_sleeps ds wheel_new with
      | Panic c => Some (enc_panic c)
      | Ok (ss, w) =>
        match traffic_states w turns with
        | Panic c => Some (enc_panic c)
        | Ok states =>
          let final := match rev states with (_, wf) :: _ => wf | [] => w end in
          Some ([0%N] ++ map (traffic_code states) ss ++ [NN (length (wmap final))])
        end
      end
    | _ => None
    end
  | _ => None
  end.

(* ---------------------------------------------------------------------- *)

Definition run_c09 (l : list N) : list N :=
  match l with
  | 1%N :: r => match run_a r with Some o => o | None => BAD_CASE end
  | 2%N :: r => match run_b r with Some o => o | None => BAD_CASE end
  | 3%N :: r => match run_i r with Some o => o | None => BAD_CASE end
  | 4%N :: r => match run_l r with Some o => o | None => BAD_CASE end
  | 5%N :: r => match run_f r with Some o => o | None => BAD_CASE end
  | 6%N :: r => match run_t r with Some o => o | None => BAD_CASE end
  | _ => BAD_CASE
  end.
