(* Compat.v — executable model of compio-io's compatibility adapters
   (compio-io/src/compat/{sync_stream,async_stream,waker_array}.rs and
   Buffer::compact_to of buffer.rs).  No proofs in this file.

   SyncStream  = two Buffers (IoHelpers.buffer) + eof flag + base_capacity +
                 max_buffer_size; std::io::{Read,BufRead,Write} on the buffers,
                 async fill_read_buf / flush_write_buf against the inner stream.
   AsyncStream = SyncStream halves + boxed in-flight futures + three waker
                 slots per half; poll_* entry points are transitions.

   The inner stream is an environment: a schedule of answers.  An answer
   [CPending] means: the inner operation returns Poll::Pending on this poll and
   stays blocked until the next "wake" step of the program; the poll after the
   wake takes the next answer.  Inner write, flush and shutdown calls share the
   writer's schedule (one answer per call).  An exhausted schedule answers
   read -> Ok(0), write -> Ok(0), flush/shutdown -> Ok(()).

   Loops of the poll adapter (`loop { match io { WouldBlock => ready!(fut)? } }`)
   carry an explicit iteration budget POLL_FUEL; running out of it is the
   result [Panic P_HANG] (the call does not return).  The harness has the same
   budget in its scripted stream. *)
From Compio.Model Require Import Base IoHelpers.

Definition P_HANG : N := 8.
Definition POLL_FUEL : nat := 8.

(* ---------------------------------------------------------------------- *)
(* Vec<u8> operations used here (std, trusted base)                         *)

(* compio_buf <Vec<u8> as IoBufMut>::reserve_exact(add): no-op when the spare
   capacity suffices, otherwise Vec::try_reserve_exact: capacity = len + add *)
Definition vreserve_exact (v : vec) (add : nat) : vec :=
  if Nat.leb add (vcap v - vlen v) then v
  else mkvec (vinit v ++ repeat UNINIT add) (vlen v).

(* Vec::shrink_to(min_capacity) *)
Definition vshrink_to (v : vec) (mincap : nat) : vec :=
  if Nat.ltb mincap (vcap v)
  then mkvec (firstn (Nat.max (vlen v) mincap) (cells v)) (vlen v)
  else v.

(* ---------------------------------------------------------------------- *)
(* Buffer::compact_to(capacity, max_capacity)                               *)

Definition buf_compact_to (b : buffer) (capacity max_capacity : nat) : buffer :=
  let v := bvec b in
  let pos := bbegin b in
  if Nat.ltb 0 pos && Nat.ltb pos (vlen v) then
    (* copy_within(pos..len, 0); set_len(len - pos) *)
    let remaining := vlen v - pos in
    mkbuf (mkvec (write_at (cells v) 0 (sub_list (cells v) pos remaining)) remaining) 0
  else if Nat.leb (vlen v) pos then
    (* everything consumed: clear, shrink an oversized allocation *)
    let v0 := vclear v in
    mkbuf (if Nat.ltb max_capacity (vcap v0) then vshrink_to v0 capacity else v0) 0
  else mkbuf v 0.

(* ---------------------------------------------------------------------- *)
(* environment                                                              *)

Inductive cans := CA (a : answer) | CPending.

(* one inner read call.  [block] = Pending is visible to the caller (poll
   adapter); otherwise the awaiting future is simply resumed (sync adapter).
   None = the call is blocked. *)
Fixpoint inner_read (block : bool) (sched : list cans) (capacity : nat) (src : list byte)
  : option (rres * list byte * list byte) * list cans :=
  match sched with
  | [] => (Some (RN 0, [], src), [])
  | CPending :: s' => if block then (None, s') else inner_read block s' capacity src
  | CA a :: s' => (Some (reader_step a capacity src), s')
  end.

(* one inner flush / shutdown call: Some None = Ok(()), Some (Some e) = Err e *)
Fixpoint inner_ctl (block : bool) (ws : list cans) : option (option N) * list cans :=
  match ws with
  | [] => (Some None, [])
  | CPending :: ws' => if block then (None, ws') else inner_ctl block ws'
  | CA (AErr e) :: ws' => (Some (Some e), ws')
  | CA _ :: ws' => (Some None, ws')
  end.

Inductive fut := FNone | FBlocked | FWoken.
Definition is_fnone (f : fut) : bool := match f with FNone => true | _ => false end.
Definition is_fblocked (f : fut) : bool := match f with FBlocked => true | _ => false end.

Inductive pollr (A : Type) := PReady (a : A) | PPending.
Arguments PReady {A} a.
Arguments PPending {A}.

(* waker slots: entry point index -> Option<Waker>, a waker is its id *)
Fixpoint upd {A} (i : nat) (x : A) (l : list A) : list A :=
  match l, i with
  | [], _ => []
  | _ :: t, O => x :: t
  | y :: t, S j => y :: upd j x t
  end.
Definition slot (e : nat) (l : list (option nat)) : option nat := nth e l None.
Definition NO_WAKERS : list (option nat) := [None; None; None].

(* ---------------------------------------------------------------------- *)
(* read half: SyncReadBuf + AsyncReadStream fields + the inner reader        *)

Record rhalf := mkrh {
  rb : buffer;              (* SyncReadBuf::buf (while lent to the future: as lent) *)
  reof : bool;
  rbase : nat;              (* base_capacity *)
  rmax : nat;               (* max_buffer_size *)
  rfut : fut;               (* read_future: none / blocked in the inner read / woken *)
  rslots : list (option nat); (* read_waker, read_uninit_waker, read_buf_waker *)
  rreg : list (option nat);   (* waker set the blocked inner read was last polled with *)
  rsched : list cans;
  rsrc : list byte          (* bytes the inner reader has not delivered yet *)
}.

Definition set_rb h b := mkrh b (reof h) (rbase h) (rmax h) (rfut h) (rslots h) (rreg h) (rsched h) (rsrc h).
Definition set_reof h x := mkrh (rb h) x (rbase h) (rmax h) (rfut h) (rslots h) (rreg h) (rsched h) (rsrc h).
Definition set_rfut h x := mkrh (rb h) (reof h) (rbase h) (rmax h) x (rslots h) (rreg h) (rsched h) (rsrc h).
Definition set_rslots h x := mkrh (rb h) (reof h) (rbase h) (rmax h) (rfut h) x (rreg h) (rsched h) (rsrc h).
Definition set_rreg h x := mkrh (rb h) (reof h) (rbase h) (rmax h) (rfut h) (rslots h) x (rsched h) (rsrc h).
Definition set_renv h s src := mkrh (rb h) (reof h) (rbase h) (rmax h) (rfut h) (rslots h) (rreg h) s src.

(* SyncStream::with_limits(base, max, ..): start capacity = base capacity *)
Definition rh_new (base mx : nat) (sched : list cans) (src : list byte) : rhalf :=
  mkrh (buf_with_capacity base) false base mx FNone NO_WAKERS NO_WAKERS sched src.

(* the buffer is lent to the in-flight future (Buffer(None)) *)
Definition rtaken (h : rhalf) : bool := negb (is_fnone (rfut h)).

Inductive sres := SOk (bs : list byte) | SErr (kind : N).

(* SyncReadBuf::consume *)
Definition rd_consume (h : rhalf) (amt : nat) : R rhalf :=
  if rtaken h then Panic P_OTHER (* MISSING_BUF expect *) else
  let! b' := buf_advance (rb h) amt in
  Ok (set_rb h (if buf_all_done b' then buf_compact_to b' (rbase h) (rmax h) else b')).

(* SyncReadBuf::fill_buf (= BufRead::fill_buf) *)
Definition rd_fill_buf (h : rhalf) : sres :=
  if rtaken h then SErr E_WOULD_BLOCK else
  let av := buf_pending (rb h) in
  match av with
  | [] => if reof h then SOk [] else SErr E_WOULD_BLOCK
  | _ => SOk av
  end.

(* SyncReadBuf::read (= Read::read) and read_buf_uninit, destination of n bytes *)
Definition rd_read (h : rhalf) (n : nat) : R (sres * rhalf) :=
  match rd_fill_buf h with
  | SErr e => Ok (SErr e, h)
  | SOk av =>
    let bs := firstn n av in
    let! h' := rd_consume h (length bs) in
    Ok (SOk bs, h')
  end.

Definition rd_fill_buf_op (h : rhalf) : R (sres * rhalf) := Ok (rd_fill_buf h, h).

(* SyncReadBuf::fill_read_buf up to the inner read call.
   Some o = it returns o without reading. *)
Definition rd_fill_prepare (h : rhalf) : option outcome * rhalf :=
  if reof h then (Some (OOk 0), h) else
  let b := buf_compact_to (rb h) (rbase h) (rmax h) in
  let v := bvec b in
  if Nat.leb (rmax h) (vlen v) then (Some (OErr E_OUT_OF_MEMORY), set_rb h b) else
  let avail := vcap v - vlen v in
  let v' := if Nat.ltb avail (rbase h)
            then vreserve_exact v ((vlen v + rbase h) - vcap v) else v in
  (None, set_rb h (mkbuf v' 0)).

(* the inner read returned: record the bytes, latch eof on 0 *)
Definition rd_fill_complete (h : rhalf) (r : rres) (bs : list byte) : outcome * rhalf :=
  match r with
  | RN k =>
    let v := bvec (rb h) in
    let h1 := if Nat.eqb k 0 then h else set_rb h (mkbuf (slice_fill v (vlen v) bs) 0) in
    (OOk k, if Nat.eqb k 0 then set_reof h1 true else h1)
  | RE e => (OErr e, h)
  end.

(* the inner read call on the prepared buffer: slice(len..) has capacity cap - len *)
Definition rd_fill_inner (block : bool) (h : rhalf) : pollr outcome * rhalf :=
  let v := bvec (rb h) in
  match inner_read block (rsched h) (vcap v - vlen v) (rsrc h) with
  | (None, s') => (PPending, set_rfut (set_renv h s' (rsrc h)) FBlocked)
  | (Some (r, bs, src'), s') =>
    let '(o, h') := rd_fill_complete (set_rfut (set_renv h s' src') FNone) r bs in
    (PReady o, h')
  end.

Definition rd_fill_start (block : bool) (h : rhalf) : pollr outcome * rhalf :=
  match rd_fill_prepare h with
  | (Some o, h') => (PReady o, h')
  | (None, h') => rd_fill_inner block h'
  end.

(* SyncStream::fill_read_buf().await: a Pending inner read only suspends it *)
Definition sync_fill_read_buf (h : rhalf) : R (outcome * rhalf) :=
  match rd_fill_start false h with
  | (PReady o, h') => Ok (o, h')
  | (PPending, _) => Panic P_OTHER   (* not reachable with block = false *)
  end.

(* AsyncReadStream::poll_read_impl: poll (create) read_future with the waker
   array made of the three slots *)
Definition poll_read_impl (h : rhalf) : pollr outcome * rhalf :=
  let '(r, h') :=
    match rfut h with
    | FNone => rd_fill_start true h
    | FBlocked => (PPending, h)
    | FWoken => rd_fill_inner true h
    end in
  match r with
  | PPending => (PPending, set_rreg h' (rslots h'))
  | _ => (r, h')
  end.

Inductive pres :=
| PRBytes (bs : list byte)     (* Ready(Ok): bytes handed out / window *)
| PRCount (n : nat)            (* Ready(Ok(n)), Ready(Ok(())) as 0 *)
| PRErr (kind : N)
| PRPending.

(* poll_read / poll_read_uninit / poll_fill_buf: replace_waker, then
   loop { poll_future_would_block!(cx, slot, io, poll_read_impl) } *)
Fixpoint pr_loop (fuel : nat) (op : rhalf -> R (sres * rhalf)) (e : nat) (h : rhalf)
  : R (pres * rhalf) :=
  match fuel with
  | O => Panic P_HANG
  | S f =>
    let! '(r, h1) := op h in
    match r with
    | SOk bs => Ok (PRBytes bs, set_rslots h1 (upd e None (rslots h1)))
    | SErr k =>
      if N.eqb k E_WOULD_BLOCK then
        match poll_read_impl h1 with
        | (PPending, h2) => Ok (PRPending, h2)
        | (PReady (OErr k'), h2) => Ok (PRErr k', h2)
        | (PReady (OOk _), h2) => pr_loop f op e h2
        end
      else Ok (PRErr k, set_rslots h1 (upd e None (rslots h1)))
    end
  end.

Definition E_READ : nat := 0.
Definition E_READ_UNINIT : nat := 1.
Definition E_FILL_BUF : nat := 2.

Definition poll_read_fuel (fuel : nat) (e w : nat) (h : rhalf) (n : nat) :=
  pr_loop fuel (fun h => rd_read h n) e (set_rslots h (upd e (Some w) (rslots h))).
Definition poll_fill_buf_fuel (fuel : nat) (w : nat) (h : rhalf) :=
  pr_loop fuel rd_fill_buf_op E_FILL_BUF (set_rslots h (upd E_FILL_BUF (Some w) (rslots h))).

Definition poll_read (e w : nat) (h : rhalf) (n : nat) := poll_read_fuel POLL_FUEL e w h n.
Definition poll_fill_buf (w : nat) (h : rhalf) := poll_fill_buf_fuel POLL_FUEL w h.

(* the harness' wake step: complete the blocked inner read, wake what it registered *)
Definition rd_wake (h : rhalf) : list (option nat) * rhalf :=
  match rfut h with
  | FBlocked => (rreg h, set_rfut h FWoken)
  | _ => ([], h)
  end.

(* ---------------------------------------------------------------------- *)
(* write half: SyncWriteBuf + AsyncWriteStream fields + the inner writer     *)

Inductive wphase := WfWrite | WfFlush.

Record whalf := mkwh {
  wb : buffer;
  wbase : nat;
  wmax : nat;
  wfut : fut;               (* write_future (flush_write_buf) *)
  wph : wphase;             (* where it is blocked: inner write / inner flush *)
  sfut : fut;               (* shutdown_future *)
  wclosed : bool;
  wslots : list (option nat); (* write_waker, flush_waker, close_waker *)
  wreg : list (option nat);
  wsched : list cans;
  wlog : list wev           (* what the inner writer saw *)
}.

Definition set_wb h x := mkwh x (wbase h) (wmax h) (wfut h) (wph h) (sfut h) (wclosed h) (wslots h) (wreg h) (wsched h) (wlog h).
Definition set_wfut h x p := mkwh (wb h) (wbase h) (wmax h) x p (sfut h) (wclosed h) (wslots h) (wreg h) (wsched h) (wlog h).
Definition set_sfut h x := mkwh (wb h) (wbase h) (wmax h) (wfut h) (wph h) x (wclosed h) (wslots h) (wreg h) (wsched h) (wlog h).
Definition set_wclosed h x := mkwh (wb h) (wbase h) (wmax h) (wfut h) (wph h) (sfut h) x (wslots h) (wreg h) (wsched h) (wlog h).
Definition set_wslots h x := mkwh (wb h) (wbase h) (wmax h) (wfut h) (wph h) (sfut h) (wclosed h) x (wreg h) (wsched h) (wlog h).
Definition set_wreg h x := mkwh (wb h) (wbase h) (wmax h) (wfut h) (wph h) (sfut h) (wclosed h) (wslots h) x (wsched h) (wlog h).
Definition set_wenv h s l := mkwh (wb h) (wbase h) (wmax h) (wfut h) (wph h) (sfut h) (wclosed h) (wslots h) (wreg h) s l.

Definition wh_new (base mx : nat) (sched : list cans) : whalf :=
  mkwh (buf_with_capacity base) base mx FNone WfWrite FNone false NO_WAKERS NO_WAKERS sched [].

(* the buffer is lent only while the future sits in an inner write *)
Definition wtaken (h : whalf) : bool :=
  match wfut h, wph h with
  | FNone, _ => false
  | _, WfWrite => true
  | _, WfFlush => false
  end.

(* SyncWriteBuf::write (= Write::write) *)
Definition wr_write (h : whalf) (data : list byte) : R (outcome * whalf) :=
  if wtaken h then Ok (OErr E_WOULD_BLOCK, h) else
  let b := wb h in
  let v := bvec b in
  if buf_need_flush b && negb (Nat.eqb (vlen v) 0) then Ok (OErr E_WOULD_BLOCK, h) else
  let pend := vlen v - bbegin b in                        (* inner.buf_len() *)
  if Nat.ltb (wmax h) (pend + length data) then
    let! space := usub (wmax h) pend in
    if Nat.eqb space 0 then Ok (OErr E_WOULD_BLOCK, h)
    else Ok (OOk space, set_wb h (mkbuf (vextend v (firstn space data)) (bbegin b)))
  else Ok (OOk (length data), set_wb h (mkbuf (vextend v data) (bbegin b))).

(* SyncWriteBuf::has_pending_write *)
Definition wr_has_pending (h : whalf) : bool := negb (Nat.eqb (vlen (bvec (wb h))) 0).

(* the loop of Buffer::flush_to; None = blocked in an inner write *)
Fixpoint wr_flush_loop (block : bool) (ws : list cans) (b : buffer) (log : list wev) (total : nat)
  : R (option outcome * buffer * list wev * list cans) :=
  match ws with
  | [] => Ok (Some (OErr E_WRITE_ZERO), b, log, [])
  | CPending :: ws' =>
    if block then Ok (None, b, log, ws') else wr_flush_loop block ws' b log total
  | CA a :: ws' =>
    match writer_step a (buf_pending b) with
    | (RN O, _) => Ok (Some (OErr E_WRITE_ZERO), b, log, ws')
    | (RN k, bs) =>
      let! b' := buf_advance b k in
      if buf_all_done b' then Ok (Some (OOk (total + k)), buf_reset b', log ++ [WBytes bs], ws')
      else wr_flush_loop block ws' b' (log ++ [WBytes bs]) (total + k)
    | (RE e, _) => Ok (Some (OErr e), b, log, ws')
    end
  end.

(* flush_write_buf after flush_to: stream.flush() *)
Definition wr_inner_flush (block : bool) (h : whalf) (total : nat) : pollr outcome * whalf :=
  match inner_ctl block (wsched h) with
  | (None, ws') => (PPending, set_wfut (set_wenv h ws' (wlog h)) FBlocked WfFlush)
  | (Some None, ws') =>
      (PReady (OOk total), set_wfut (set_wenv h ws' (wlog h ++ [WFlush])) FNone WfWrite)
  | (Some (Some e), ws') => (PReady (OErr e), set_wfut (set_wenv h ws' (wlog h)) FNone WfWrite)
  end.

(* ... compact_to, then stream.flush() *)
Definition wr_after_flush_to (block : bool) (h : whalf) (total : nat) : pollr outcome * whalf :=
  wr_inner_flush block (set_wb h (buf_compact_to (wb h) (wbase h) (wmax h))) total.

(* the flush_to loop from a point where the next thing is an inner write *)
Definition wr_flush_to (block : bool) (h : whalf) : R (pollr outcome * whalf) :=
  let! '(o, b, log, ws') := wr_flush_loop block (wsched h) (wb h) (wlog h) 0 in
  let h1 := set_wb (set_wenv h ws' log) b in
  match o with
  | None => Ok (PPending, set_wfut h1 FBlocked WfWrite)
  | Some (OOk t) => Ok (wr_after_flush_to block (set_wfut h1 FNone WfWrite) t)
  | Some (OErr e) => Ok (PReady (OErr e), set_wfut h1 FNone WfWrite)
  end.

(* SyncWriteBuf::flush_write_buf from the start *)
Definition wr_flush_start (block : bool) (h : whalf) : R (pollr outcome * whalf) :=
  if buf_all_done (wb h) then Ok (wr_after_flush_to block h 0) else wr_flush_to block h.

Definition sync_flush_write_buf (h : whalf) : R (outcome * whalf) :=
  let! '(r, h') := wr_flush_start false h in
  match r with
  | PReady o => Ok (o, h')
  | PPending => Panic P_OTHER   (* not reachable with block = false *)
  end.

(* AsyncWriteStream::poll_flush_impl *)
Definition poll_flush_impl (h : whalf) : R (pollr outcome * whalf) :=
  let! '(r, h') :=
    match wfut h, wph h with
    | FNone, _ => wr_flush_start true h
    | FBlocked, _ => Ok (PPending, h)
    | FWoken, WfWrite => wr_flush_to true h
    | FWoken, WfFlush => Ok (wr_inner_flush true h 0)
    end in
  match r with
  | PPending => Ok (PPending, set_wreg h' (wslots h'))
  | _ => Ok (r, h')
  end.

(* AsyncWriteStream::poll_close_impl *)
Definition poll_close_impl (h : whalf) : pollr outcome * whalf :=
  if wclosed h then (PReady (OOk 0), h) else
  match sfut h with
  | FBlocked => (PPending, set_wreg h (wslots h))
  | _ =>
    match inner_ctl true (wsched h) with
    | (None, ws') =>
        let h1 := set_sfut (set_wenv h ws' (wlog h)) FBlocked in
        (PPending, set_wreg h1 (wslots h1))
    | (Some None, ws') =>
        (PReady (OOk 0), set_wclosed (set_sfut (set_wenv h ws' (wlog h ++ [WShutdown])) FNone) true)
    | (Some (Some e), ws') => (PReady (OErr e), set_sfut (set_wenv h ws' (wlog h)) FNone)
    end
  end.

(* `if self.shutdown_future.is_some() { debug_assert!(write_future.is_none());
    ready!(poll_close_impl())?; }` — Some r = return r now *)
Definition shutdown_gate (h : whalf) : R (option pres * whalf) :=
  match sfut h with
  | FNone => Ok (None, h)
  | _ =>
    if is_fnone (wfut h) then
      match poll_close_impl h with
      | (PPending, h') => Ok (Some PRPending, h')
      | (PReady (OErr e), h') => Ok (Some (PRErr e), h')
      | (PReady (OOk _), h') => Ok (None, h')
      end
    else Panic P_ASSERT
  end.

Definition E_WRITE : nat := 0.
Definition E_FLUSH : nat := 1.
Definition E_CLOSE : nat := 2.

Fixpoint pw_loop (fuel : nat) (h : whalf) (data : list byte) : R (pres * whalf) :=
  match fuel with
  | O => Panic P_HANG
  | S f =>
    let! '(o, h1) := wr_write h data in
    match o with
    | OOk k => Ok (PRCount k, set_wslots h1 (upd E_WRITE None (wslots h1)))
    | OErr e =>
      if N.eqb e E_WOULD_BLOCK then
        let! '(r, h2) := poll_flush_impl h1 in
        match r with
        | PPending => Ok (PRPending, h2)
        | PReady (OErr e') => Ok (PRErr e', h2)
        | PReady (OOk _) => pw_loop f h2 data
        end
      else Ok (PRErr e, set_wslots h1 (upd E_WRITE None (wslots h1)))
    end
  end.

(* `if self.write_future.is_some() { ready!(poll_flush_impl())?; }`: a flush in
   flight is finished before more bytes are buffered *)
Definition flush_gate (h : whalf) : R (option pres * whalf) :=
  if is_fnone (wfut h) then Ok (None, h) else
  let! '(r, h') := poll_flush_impl h in
  match r with
  | PPending => Ok (Some PRPending, h')
  | PReady (OErr e) => Ok (Some (PRErr e), h')
  | PReady (OOk _) => Ok (None, h')
  end.

Definition poll_write_fuel (fuel : nat) (w : nat) (h : whalf) (data : list byte) : R (pres * whalf) :=
  let h := set_wslots h (upd E_WRITE (Some w) (wslots h)) in
  let! '(g, h) := shutdown_gate h in
  match g with
  | Some r => Ok (r, h)
  | None =>
    let! '(g, h) := flush_gate h in
    match g with
    | Some r => Ok (r, h)
    | None => pw_loop fuel h data
    end
  end.
Definition poll_write (w : nat) (h : whalf) (data : list byte) := poll_write_fuel POLL_FUEL w h data.

Definition poll_flush (w : nat) (h : whalf) : R (pres * whalf) :=
  let h := set_wslots h (upd E_FLUSH (Some w) (wslots h)) in
  let! '(g, h) := shutdown_gate h in
  match g with
  | Some r => Ok (r, h)
  | None =>
    let! '(r, h) := poll_flush_impl h in
    match r with
    | PPending => Ok (PRPending, h)
    | PReady o =>
      let h := set_wslots h (upd E_FLUSH None (wslots h)) in
      Ok (match o with OOk _ => PRCount 0 | OErr e => PRErr e end, h)
    end
  end.

Definition poll_close (w : nat) (h : whalf) : R (pres * whalf) :=
  let h := set_wslots h (upd E_CLOSE (Some w) (wslots h)) in
  let! '(g, h) :=
    (* write_future.is_some() || inner.has_pending_write() *)
    if negb (is_fnone (wfut h)) || wr_has_pending h then
      if is_fnone (sfut h) then
        let! '(r, h) := poll_flush_impl h in
        match r with
        | PPending => Ok (Some PRPending, h)
        | PReady (OErr e) => Ok (Some (PRErr e), h)
        | PReady (OOk _) => Ok (None, h)
        end
      else Panic P_ASSERT
    else Ok (None, h) in
  match g with
  | Some r => Ok (r, h)
  | None =>
    match poll_close_impl h with
    | (PPending, h) => Ok (PRPending, h)
    | (PReady o, h) =>
      let h := set_wslots h (upd E_CLOSE None (wslots h)) in
      Ok (match o with OOk _ => PRCount 0 | OErr e => PRErr e end, h)
    end
  end.

(* wake step on the write side: one inner operation can be blocked at a time *)
Definition wr_wake (h : whalf) : list (option nat) * whalf :=
  match wfut h, sfut h with
  | FBlocked, _ => (wreg h, set_wfut h FWoken (wph h))
  | _, FBlocked => (wreg h, set_sfut h FWoken)
  | _, _ => ([], h)
  end.

(* ---------------------------------------------------------------------- *)
(* programs: sequences of calls on one adapter                              *)

Record stream := mkst { rh : rhalf; wh : whalf }.

Definition st_new (base mx : nat) (rs : list cans) (src : list byte) (ws : list cans) : stream :=
  mkst (rh_new base mx rs src) (wh_new base mx ws).

Inductive out :=
| ORd (r : pres)                      (* read-like: PRBytes = bytes handed to the caller *)
| OWin (r : pres)                     (* fill_buf: PRBytes = window shown, nothing consumed *)
| OConsumed (bs : list byte)          (* consume(n): the n bytes dropped from the window *)
| OWr (data : list byte) (r : pres)   (* write of data: PRCount k = first k bytes accepted *)
| OCtl (r : pres)                     (* flush / close *)
| OFill (o : outcome)                 (* SyncStream::fill_read_buf *)
| OFlushed (o : outcome)              (* SyncStream::flush_write_buf *)
| OWoken (l : list (option nat))      (* wake step: the waker set that was woken *)
| ONoop.                              (* SyncStream's Write::flush: Ok(()) by design, flushes nothing *)

Definition pres_of_sres (r : sres) : pres :=
  match r with SOk bs => PRBytes bs | SErr e => PRErr e end.
Definition pres_of_outcome (o : outcome) : pres :=
  match o with OOk k => PRCount k | OErr e => PRErr e end.

(* std::io::{Read, BufRead, Write} + fill_read_buf / flush_write_buf on SyncStream *)
Inductive sop :=
| SRead (n : nat) | SFillBuf | SConsume (n : nat) | SWrite (d : list byte) | SFlush
| SFillRead | SFlushWrite.

Definition sync_step (op : sop) (s : stream) : R (out * stream) :=
  match op with
  | SRead n => let! '(r, h) := rd_read (rh s) n in Ok (ORd (pres_of_sres r), mkst h (wh s))
  | SFillBuf => Ok (OWin (pres_of_sres (rd_fill_buf (rh s))), s)
  | SConsume n =>
      let! h := rd_consume (rh s) n in
      Ok (OConsumed (firstn n (buf_pending (rb (rh s)))), mkst h (wh s))
  | SWrite d => let! '(o, h) := wr_write (wh s) d in Ok (OWr d (pres_of_outcome o), mkst (rh s) h)
  | SFlush => Ok (ONoop, s)
  | SFillRead => let! '(o, h) := sync_fill_read_buf (rh s) in Ok (OFill o, mkst h (wh s))
  | SFlushWrite => let! '(o, h) := sync_flush_write_buf (wh s) in Ok (OFlushed o, mkst (rh s) h)
  end.

(* futures_util::io::{AsyncRead, AsyncBufRead, AsyncWrite} on AsyncStream + wake steps *)
Inductive pop :=
| PRead (e w n : nat)                 (* e = E_READ (poll_read) or E_READ_UNINIT *)
| PFillBuf (w : nat) | PConsume (n : nat)
| PWrite (w : nat) (d : list byte) | PFlush (w : nat) | PClose (w : nat)
| PWakeR | PWakeW.

Definition poll_step_fuel (fuel : nat) (op : pop) (s : stream) : R (out * stream) :=
  match op with
  | PRead e w n => let! '(r, h) := poll_read_fuel fuel e w (rh s) n in Ok (ORd r, mkst h (wh s))
  | PFillBuf w => let! '(r, h) := poll_fill_buf_fuel fuel w (rh s) in Ok (OWin r, mkst h (wh s))
  | PConsume n =>
      let! h := rd_consume (rh s) n in
      Ok (OConsumed (firstn n (buf_pending (rb (rh s)))), mkst h (wh s))
  | PWrite w d => let! '(r, h) := poll_write_fuel fuel w (wh s) d in Ok (OWr d r, mkst (rh s) h)
  | PFlush w => let! '(r, h) := poll_flush w (wh s) in Ok (OCtl r, mkst (rh s) h)
  | PClose w => let! '(r, h) := poll_close w (wh s) in Ok (OCtl r, mkst (rh s) h)
  | PWakeR => let '(l, h) := rd_wake (rh s) in Ok (OWoken l, mkst h (wh s))
  | PWakeW => let '(l, h) := wr_wake (wh s) in Ok (OWoken l, mkst (rh s) h)
  end.
Definition poll_step := poll_step_fuel POLL_FUEL.

Fixpoint run {Op : Type} (step : Op -> stream -> R (out * stream)) (ops : list Op) (s : stream)
  : R (list out * stream) :=
  match ops with
  | [] => Ok ([], s)
  | op :: ops' =>
    let! '(o, s1) := step op s in
    let! '(os, s2) := run step ops' s1 in
    Ok (o :: os, s2)
  end.

(* what the caller received / what the adapter accepted, from the outputs *)
Definition handed_of (o : out) : list byte :=
  match o with
  | ORd (PRBytes bs) => bs
  | OConsumed bs => bs
  | _ => []
  end.
Definition accepted_of (o : out) : list byte :=
  match o with
  | OWr d (PRCount k) => firstn k d
  | _ => []
  end.
Definition handed (os : list out) : list byte := flat_map handed_of os.
Definition accepted (os : list out) : list byte := flat_map accepted_of os.
