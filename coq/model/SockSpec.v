(* SockSpec.v — C14: reference semantics of the socket transports and the model
   of compio's own glue on top of them.  No proofs in this file.

   Part 1 is the REFERENCE (the operating system's side, an environment, not a
   model of the kernel): a stream socket is a FIFO byte queue with partial
   sends, partial receives and half-close; a datagram socket is a queue of
   (payload, source address); a listener is a queue of pending connections.

   Part 2 is compio's GLUE (compio-net/src/socket/mod.rs, split.rs,
   incoming/unix.rs; compio-driver/src/sys/op/{ext.rs,socket/*,managed/*,
   multishot/*,zerocopy/*}; compio-runtime/src/future/stream.rs): what the user
   of compio-net sees for a given answer of the OS — the receive result
   mapping (advance_to / advance_vec_to / managed buffer / map_addr / flags),
   the multishot loop (SubmitMulti, SubmitMultiManaged, SubmitMultiStream,
   Incoming), the zero-copy two-phase result, vectored operations, halves. *)
From Compio.Model Require Import Base.

(* ====================================================================== *)
(* 1. reference stream socket                                             *)

Record stream := mkstream { sq : list byte; sclosed : bool }.
Definition stream0 : stream := mkstream [] false.

Inductive label :=
| LSend (data : list byte) (k : nat)   (* the OS accepted the first k bytes of what was offered *)
| LShutdown                            (* shutdown(write) of the sending side                  *)
| LRecv (cap k : nat)                  (* the OS delivered k bytes into a buffer of capacity cap *)
| LDrop (k : nat).                     (* k bytes taken by an operation whose result nobody reads *)

Inductive outp :=
| ONone
| OBytes (bs : list byte)              (* handed to the reader *)
| ODropped (bs : list byte).           (* consumed from the socket, thrown away *)

(* a send accepts any prefix >= 1 of what is offered (0 only of nothing) *)
Definition send_ok (data : list byte) (k : nat) : bool :=
  (k <=? length data) && ((1 <=? k) || (length data =? 0)).

(* a receive completes with any prefix >= 1 of what is queued, up to the
   capacity; with 0 only for a zero capacity or at end-of-stream (queue empty
   and the peer has shut down).  Empty queue, peer open: it does not complete. *)
Definition recv_ok (s : stream) (cap k : nat) : bool :=
  (k <=? cap) && (k <=? length (sq s)) &&
  ((1 <=? k) || (cap =? 0) || ((length (sq s) =? 0) && sclosed s)).

Definition ref_step (s : stream) (l : label) : option (stream * outp) :=
  match l with
  | LSend data k =>
      if negb (sclosed s) && send_ok data k
      then Some (mkstream (sq s ++ firstn k data) false, ONone) else None
  | LShutdown => Some (mkstream (sq s) true, ONone)
  | LRecv cap k =>
      if recv_ok s cap k
      then Some (mkstream (skipn k (sq s)) (sclosed s), OBytes (firstn k (sq s))) else None
  | LDrop k =>
      if k <=? length (sq s)
      then Some (mkstream (skipn k (sq s)) (sclosed s), ODropped (firstn k (sq s))) else None
  end.

Fixpoint ref_run (s : stream) (ls : list label) : option (stream * list outp) :=
  match ls with
  | [] => Some (s, [])
  | l :: r =>
    match ref_step s l with
    | None => None
    | Some (s1, o) =>
      match ref_run s1 r with
      | None => None
      | Some (s2, os) => Some (s2, o :: os)
      end
    end
  end.

(* ghost views of a run *)
Fixpoint sent_of (ls : list label) : list byte :=
  match ls with
  | [] => []
  | LSend data k :: r => firstn k data ++ sent_of r
  | _ :: r => sent_of r
  end.

Definition out_delivered (o : outp) : list byte :=
  match o with OBytes bs => bs | _ => [] end.
Definition out_consumed (o : outp) : list byte :=
  match o with OBytes bs => bs | ODropped bs => bs | ONone => [] end.
Definition delivered (os : list outp) : list byte := flat_map out_delivered os.
Definition consumed (os : list outp) : list byte := flat_map out_consumed os.

Definition is_drop (l : label) : bool := match l with LDrop _ => true | _ => false end.
Definition is_eof_label (l : label) : bool :=
  match l with LRecv cap 0 => negb (cap =? 0) | _ => false end.

(* ====================================================================== *)
(* 2. user buffers and the receive result mapping                         *)

(* Vec<u8>: an allocation of [length bcells] bytes, the first [blen] initialised *)
Record ubuf := mkubuf { bcells : list byte; blen : nat }.
Definition bcap (b : ubuf) : nat := length (bcells b).
Definition binit (b : ubuf) : list byte := firstn (blen b) (bcells b).

(* the canary pattern of the harness, generated with an N counter (the
   extracted interpreter must not do unary arithmetic on positions) *)
Fixpoint canaries_cyc (c : N) (n : nat) : list byte :=
  match n with
  | O => []
  | S k => (128 + c)%N :: canaries_cyc (if (c + 1 =? 100)%N then 0%N else (c + 1)%N) k
  end.
Definition fresh (len cap : nat) : ubuf := mkubuf (canaries_cyc 0 cap) len.

(* the OS writes at the start of the writable region (offset 0 of a Vec: the
   whole capacity is offered, whatever the current length) *)
Definition os_fill (b : ubuf) (bs : list byte) : ubuf :=
  mkubuf (write_at (bcells b) 0 bs) (blen b).

(* SetLenExt::advance_to on a Vec: only grows; beyond the capacity = UB/abort *)
Definition advance_to (b : ubuf) (n : nat) : R ubuf :=
  if blen b <? n
  then (if n <=? bcap b then Ok (mkubuf (bcells b) n) else Panic P_SET_LEN)
  else Ok b.

(* Socket::recv / recv_from: BufResult(n, buf).map_advanced() *)
Definition glue_recv (b : ubuf) (bs : list byte) (n : nat) : R (nat * ubuf) :=
  let! b' := advance_to (os_fill b bs) n in Ok (n, b').

(* what the caller reads out of the result: the first n bytes of the buffer *)
Definition visible (r : nat * ubuf) : list byte := firstn (fst r) (bcells (snd r)).

(* ---- vectored: the OS fills the members in order (iovec) ---------------- *)
Fixpoint scatter (ms : list ubuf) (bs : list byte) : list ubuf :=
  match ms with
  | [] => []
  | m :: r =>
    let k := Nat.min (bcap m) (length bs) in
    os_fill m (firstn k bs) :: scatter r (skipn k bs)
  end.

Definition total_cap (ms : list ubuf) : nat := fold_right (fun m a => bcap m + a) 0 ms.
Definition total_len (ms : list ubuf) : nat := fold_right (fun m a => blen m + a) 0 ms.

(* compio-buf default_set_len for Vec<Vec<u8>>: spread by capacity, set exactly *)
Fixpoint vec_set_len (ms : list ubuf) (len : nat) : list ubuf :=
  match ms with
  | [] => []
  | m :: r =>
    if len =? 0 then ms else
    let sub := Nat.min (bcap m) len in
    mkubuf (bcells m) sub :: vec_set_len r (len - sub)
  end.

(* SetLenExt::advance_vec_to *)
Definition advance_vec_to (ms : list ubuf) (n : nat) : list ubuf :=
  if total_len ms <? n then vec_set_len ms n else ms.

(* Socket::recv_vectored: the driver clamps the count to the total capacity,
   then map_vec_advanced *)
Definition glue_recv_vectored (ms : list ubuf) (bs : list byte) (n : nat) : nat * list ubuf :=
  let n' := Nat.min n (total_cap ms) in
  (n', advance_vec_to (scatter ms bs) n').

Definition visible_v (r : nat * list ubuf) : list byte := flat_map binit (snd r).

(* ---- managed buffers (buffer pool of buffers of length L) --------------- *)
(* capacity offered for read_managed(len): len = 0 means the whole buffer *)
Definition managed_cap (L len : nat) : nat := if len =? 0 then L else Nat.min len L.

(* ResultTakeBuffer::take_buffer: 0 => None (end of stream); else the buffer
   with advance_to(n); BufferRef::set_len clamps to the buffer's capacity *)
Definition glue_managed (cap : nat) (bs : list byte) (n : nat) : option (list byte) :=
  if n =? 0 then None else Some (firstn (Nat.min n cap) bs).

(* ====================================================================== *)
(* 3. the multishot loop                                                   *)

(* one completion-queue entry of a receive submission, as the driver presents
   it to SubmitMulti: data CQEs carry F_MORE or not; res = 0 and errors are
   final.  [with_buf]: the fallback pool pops the buffer before the operation,
   so an end-of-stream result still carries an (empty) buffer. *)
Inductive cqe :=
| CData (bs : list byte) (more : bool)
| CEof (with_buf : bool)
| CErr (e : N).

Definition cqe_final (c : cqe) : bool :=
  match c with CData _ more => negb more | _ => true end.

(* items of SubmitMultiStream *)
Inductive item := IBuf (bs : list byte) | IErr (e : N).

(* SubmitMulti + SubmitMultiManaged over the CQEs of ONE submission:
   the items it yields (None = Ok(None)), in order, up to and including the
   final CQE; CQEs behind a final one do not exist for the stream *)
Fixpoint session_items (cs : list cqe) : list (option item) :=
  match cs with
  | [] => []
  | c :: r =>
    let it := match c with
              | CData bs _ => Some (IBuf bs)
              | CEof true => Some (IBuf [])
              | CEof false => None
              | CErr e => Some (IErr e)
              end in
    if cqe_final c then [it] else it :: session_items r
  end.

(* SubmitMultiStream: yields buffers; an empty buffer or Ok(None) ends the
   stream; when a submission is exhausted it submits again (next session).
   Result: the items the consumer gets, whether the stream ended, and the
   sessions never started. *)
Fixpoint stream_session (its : list (option item)) : list item * bool :=
  match its with
  | [] => ([], false)
  | None :: _ => ([], true)
  | Some (IBuf []) :: _ => ([], true)
  | Some it :: r => let '(l, e) := stream_session r in (it :: l, e)
  end.

Fixpoint multishot_stream (ss : list (list cqe)) : list item * bool :=
  match ss with
  | [] => ([], false)
  | s :: r =>
    let '(l, e) := stream_session (session_items s) in
    if e then (l, true) else let '(l2, e2) := multishot_stream r in (l ++ l2, e2)
  end.

(* the data the kernel took out of the socket for these submissions *)
Definition cqe_bytes (c : cqe) : list byte := match c with CData bs _ => bs | _ => [] end.
Definition session_bytes (cs : list cqe) : list byte := flat_map cqe_bytes cs.

Definition item_bytes (i : item) : list byte := match i with IBuf bs => bs | IErr _ => [] end.
Definition items_bytes (l : list item) : list byte := flat_map item_bytes l.

(* kernel CQE discipline for one submission: every CQE but the last carries
   F_MORE, the last one is final; data CQEs are non-empty *)
Fixpoint session_wf (cs : list cqe) : bool :=
  match cs with
  | [] => false
  | [c] => cqe_final c && match c with CData [] _ => false | _ => true end
  | c :: r => negb (cqe_final c) && match c with CData [] _ => false | _ => true end && session_wf r
  end.

(* the consumer takes the first j items and drops the stream: what it saw and
   what was already produced but is thrown away with the operation *)
Definition take_items (j : nat) (l : list item) : list item * list item :=
  (firstn j l, skipn j l).

(* ====================================================================== *)
(* 4. zero-copy send: two-phase result                                    *)

Inductive zres := ZOk (n : nat) | ZErr (e : N).
Inductive zcqe := ZC (r : zres) (more : bool).

(* submit_zerocopy: the first item of the SubmitMulti stream is the result;
   the Zerocopy future polls the stream once more and then takes the op back
   (try_take), which succeeds only when the stream has finished.
   None = the future is pending for ever (no such CQE arrives).
   Ok (r, buf, seen): result, the buffer, and how many CQEs had been consumed
   when the buffer was handed back. *)
Definition zc_send {B : Type} (buf : B) (cs : list zcqe) : option (R (zres * B * nat)) :=
  match cs with
  | [] => None
  | ZC r more :: rest =>
    if negb more then Some (Ok (r, buf, 1))          (* already finished: poll_next = None *)
    else match rest with
         | [] => None
         | ZC _ more2 :: _ =>
           if more2 then Some (Panic P_OTHER)          (* "Cannot retrieve buffer" *)
           else Some (Ok (r, buf, 2))
         end
  end.

(* kernel contract of SEND_ZC: a result CQE with F_MORE followed by exactly
   one notification, or a single final CQE (failure / copy fallback) *)
Definition zc_wf (cs : list zcqe) : bool :=
  match cs with
  | [ZC _ false] => true
  | [ZC _ true; ZC _ false] => true
  | _ => false
  end.

(* ====================================================================== *)
(* 5. operations of the two peers over the reference stream                *)

(* which handle the operation is issued through: the socket, a borrowed half
   (split.rs: ReadHalf(&T) / WriteHalf(&T) forward to &T), an owned half
   (into_split: a clone of the socket = the same descriptor) *)
Inductive via := Direct | Borrowed | Owned.

Inductive sop :=
| SWrite (buf : ubuf) (k : nat)                       (* write: offers the initialised part *)
| SWriteV (ms : list ubuf) (k : nat)                  (* write_vectored: offers the members in order *)
| SWriteZc (buf : ubuf) (k : nat) (notif : bool)      (* write_zerocopy: result CQE (+ notification) *)
| SWriteZcV (ms : list ubuf) (k : nat) (notif : bool).

Inductive rop :=
| RPlain (len cap : nat) (k : nat)
| RVectored (caps : list nat) (k : nat)
| RManaged (len : nat) (k : nat)
| RMulti (len : nat) (fallback : bool) (ks : list (list (nat * bool))) (take : option nat).
   (* ks: for every submission the sizes the kernel delivers, each with its
      F_MORE flag; 0 = end-of-stream result; take = Some j: the consumer drops
      the stream after j items *)

Inductive event :=
| ESend (v : via) (op : sop)
| EShutdown (v : via)
| ERecv (v : via) (op : rop).

(* what the user of compio-net observes *)
Inductive obs :=
| ObsSent (n : nat) (returned : ubuf)           (* bytes accepted; the buffer comes back unchanged *)
| ObsSentV (n : nat) (returned : list ubuf)
| ObsShutdown
| ObsRead (n : nat) (b : ubuf)                  (* read: count and buffer *)
| ObsReadV (n : nat) (ms : list ubuf)
| ObsManaged (b : option (list byte))           (* read_managed: None = end of stream *)
| ObsItems (l : list item) (ended : bool).      (* what came out of a multishot stream *)

Definition obs_bytes (o : obs) : list byte :=
  match o with
  | ObsRead n b => visible (n, b)
  | ObsReadV n ms => visible_v (n, ms)
  | ObsManaged (Some bs) => bs
  | ObsItems l _ => items_bytes l
  | _ => []
  end.

(* the kernel takes the CQE sizes of one submission out of the queue *)
Fixpoint take_session (s : stream) (cap : nat) (fallback : bool) (ks : list (nat * bool))
  : option (stream * list cqe * list (label * outp)) :=
  match ks with
  | [] => Some (s, [], [])
  | (k, more) :: r =>
    match ref_step s (LRecv cap k) with
    | None => None
    | Some (s1, o) =>
      let c := if k =? 0 then CEof fallback else CData (out_delivered o) more in
      match take_session s1 cap fallback r with
      | None => None
      | Some (s2, cs, tr) => Some (s2, c :: cs, (LRecv cap k, o) :: tr)
      end
    end
  end.

Fixpoint take_sessions (s : stream) (cap : nat) (fallback : bool) (kss : list (list (nat * bool)))
  : option (stream * list (list cqe) * list (label * outp)) :=
  match kss with
  | [] => Some (s, [], [])
  | ks :: r =>
    match take_session s cap fallback ks with
    | None => None
    | Some (s1, cs, tr1) =>
      match take_sessions s1 cap fallback r with
      | None => None
      | Some (s2, css, tr2) => Some (s2, cs :: css, tr1 ++ tr2)
      end
    end
  end.

(* after an early drop, the chunks behind the j-th item were consumed from the
   socket but are not delivered: relabel them *)
Fixpoint relabel_drops (j : nat) (tr : list (label * outp)) : list (label * outp) :=
  match tr with
  | [] => []
  | (LRecv cap k, OBytes bs) :: r =>
    if k =? 0 then (LRecv cap k, OBytes bs) :: relabel_drops j r
    else match j with
         | O => (LDrop k, ODropped bs) :: relabel_drops O r
         | S j' => (LRecv cap k, OBytes bs) :: relabel_drops j' r
         end
  | x :: r => x :: relabel_drops j r
  end.

(* the CQEs the kernel posts for a zero-copy send that accepted k bytes *)
Definition zc_cqes (k : nat) (notif : bool) : list zcqe :=
  if notif then [ZC (ZOk k) true; ZC (ZOk 0) false] else [ZC (ZOk k) false].

(* what a send offers to the OS: the INITIALISED part of the buffer(s) *)
Definition sop_offer (op : sop) : list byte :=
  match op with
  | SWrite b _ | SWriteZc b _ _ => binit b
  | SWriteV ms _ | SWriteZcV ms _ _ => flat_map binit ms
  end.
Definition sop_k (op : sop) : nat :=
  match op with SWrite _ k | SWriteV _ k | SWriteZc _ k _ | SWriteZcV _ k _ => k end.

Definition sop_obs (op : sop) : option obs :=
  match op with
  | SWrite b k => Some (ObsSent k b)
  | SWriteV ms k => Some (ObsSentV k ms)
  | SWriteZc b k notif =>
    match zc_send b (zc_cqes k notif) with
    | Some (Ok (ZOk n, b', _)) => Some (ObsSent n b')
    | _ => None
    end
  | SWriteZcV ms k notif =>
    match zc_send ms (zc_cqes k notif) with
    | Some (Ok (ZOk n, ms', _)) => Some (ObsSentV n ms')
    | _ => None
    end
  end.

Definition run_sop (s : stream) (op : sop) : option (stream * obs * list (label * outp)) :=
  match ref_step s (LSend (sop_offer op) (sop_k op)), sop_obs op with
  | Some (s1, o), Some ob => Some (s1, ob, [(LSend (sop_offer op) (sop_k op), o)])
  | _, _ => None
  end.

Definition run_rop (L : nat) (s : stream) (op : rop) : option (stream * obs * list (label * outp)) :=
  match op with
  | RPlain len cap k =>
    match ref_step s (LRecv cap k) with
    | Some (s1, o) =>
      match glue_recv (fresh len cap) (out_delivered o) k with
      | Ok (n, b) => Some (s1, ObsRead n b, [(LRecv cap k, o)])
      | Panic _ => None
      end
    | None => None
    end
  | RVectored caps k =>
    let ms := map (fresh 0) caps in
    match ref_step s (LRecv (total_cap ms) k) with
    | Some (s1, o) =>
      let '(n, ms') := glue_recv_vectored ms (out_delivered o) k in
      Some (s1, ObsReadV n ms', [(LRecv (total_cap ms) k, o)])
    | None => None
    end
  | RManaged len k =>
    let cap := managed_cap L len in
    match ref_step s (LRecv cap k) with
    | Some (s1, o) => Some (s1, ObsManaged (glue_managed cap (out_delivered o) k), [(LRecv cap k, o)])
    | None => None
    end
  | RMulti len fallback kss take =>
    let cap := managed_cap L len in
    match take_sessions s cap fallback kss with
    | None => None
    | Some (s1, css, tr) =>
      let '(l, ended) := multishot_stream css in
      match take with
      | None => Some (s1, ObsItems l ended, tr)
      | Some j => Some (s1, ObsItems (firstn j l) (ended && (length l <=? j)), relabel_drops j tr)
      end
    end
  end.

Definition run_event (L : nat) (s : stream) (e : event) : option (stream * obs * list (label * outp)) :=
  match e with
  | ESend _ op => run_sop s op
  | EShutdown _ => match ref_step s LShutdown with
                   | Some (s1, o) => Some (s1, ObsShutdown, [(LShutdown, o)])
                   | None => None
                   end
  | ERecv _ op => run_rop L s op
  end.

Fixpoint run_events (L : nat) (s : stream) (es : list event)
  : option (stream * list obs * list (label * outp)) :=
  match es with
  | [] => Some (s, [], [])
  | e :: r =>
    match run_event L s e with
    | None => None
    | Some (s1, o, tr1) =>
      match run_events L s1 r with
      | None => None
      | Some (s2, os, tr2) => Some (s2, o :: os, tr1 ++ tr2)
      end
    end
  end.

(* kernel CQE discipline for the sizes of one receive submission: every entry
   but the last carries F_MORE and data; the last one is final (no F_MORE, or
   the end-of-stream result 0) *)
Fixpoint shape_ok (ks : list (nat * bool)) : bool :=
  match ks with
  | [] => false
  | (k, more) :: r =>
    match r with
    | [] => (k =? 0) || negb more
    | _ :: _ => more && (1 <=? k) && shape_ok r
    end
  end.

(* ... and nothing is submitted again after the end-of-stream result *)
Fixpoint shapes_ok (kss : list (list (nat * bool))) : bool :=
  match kss with
  | [] => true
  | ks :: r =>
    match r with
    | [] => shape_ok ks
    | _ :: _ => shape_ok ks && forallb (fun x => 1 <=? fst x) ks && shapes_ok r
    end
  end.

(* well-formed operations: a Vec's length is within its capacity; multishot
   schedules obey the CQE discipline *)
Definition rop_wf (op : rop) : bool :=
  match op with
  | RPlain len cap _ => len <=? cap
  | RMulti _ _ kss _ => shapes_ok kss
  | _ => true
  end.
Definition event_wf (e : event) : bool :=
  match e with ERecv _ op => rop_wf op | _ => true end.

(* the bytes the writers' operations were acknowledged for, in program order *)
Definition event_sent (e : event) : list byte :=
  match e with ESend _ op => firstn (sop_k op) (sop_offer op) | _ => [] end.
Definition events_sent (es : list event) : list byte := flat_map event_sent es.

Definition retag (v : via) (e : event) : event :=
  match e with
  | ESend _ op => ESend v op
  | EShutdown _ => EShutdown v
  | ERecv _ op => ERecv v op
  end.

Definition early_drop (e : event) : bool :=
  match e with ERecv _ (RMulti _ _ _ (Some _)) => true | _ => false end.

(* ====================================================================== *)
(* 6. datagram sockets                                                     *)

Record dgram := mkdg { dpay : list byte; dsrc : N }.

Definition MSG_TRUNC : N := 32.

(* what the OS writes back for one recvmsg / recvfrom *)
Record os_msg := mkmsg {
  m_n : nat;                (* return value                                  *)
  m_bytes : list byte;      (* bytes placed in the iovec                      *)
  m_namelen : nat;          (* msg_namelen out (0 = no address)               *)
  m_name : N;               (* the address stored in msg_name                 *)
  m_controllen : nat;       (* msg_controllen out                             *)
  m_flags : N }.            (* msg_flags out                                  *)

(* reference: a receive takes ONE datagram, cut to the capacity; MSG_TRUNC iff cut.
   [ask_len]: the caller passed MSG_TRUNC as an input flag (the return value is
   then the real length) — compio-net never does. *)
Definition dg_answer (d : dgram) (cap : nat) (ask_len : bool) : os_msg :=
  mkmsg (if ask_len then length (dpay d) else Nat.min (length (dpay d)) cap)
        (firstn cap (dpay d)) 16 (dsrc d) 0
        (if cap <? length (dpay d) then MSG_TRUNC else 0%N).

Definition dg_recv (q : list dgram) (cap : nat) (ask_len : bool) : option (os_msg * list dgram) :=
  match q with [] => None | d :: r => Some (dg_answer d cap ask_len, r) end.

(* RecvFromHeader::into_addr + RecvResultExt::map_addr *)
Definition map_addr (m : os_msg) : option N :=
  if m_namelen m =? 0 then None else Some (m_name m).

(* recv_from: (n, addr) and the buffer; [clamp]: the polling path applies
   len.min(buf_capacity) *)
Definition glue_recv_from (b : ubuf) (m : os_msg) (clamp : bool)
  : R (nat * option N * ubuf) :=
  let n := if clamp then Nat.min (m_n m) (bcap b) else m_n m in
  let! r := glue_recv b (m_bytes m) n in Ok (fst r, map_addr m, snd r).

(* recv_msg / recv_msg_vectored: (n, control_len, addr, flags), buffers by
   map_vec_advanced (no clamp on the count) *)
Definition glue_recv_msg (ms : list ubuf) (m : os_msg)
  : nat * nat * option N * N * list ubuf :=
  (m_n m, m_controllen m, map_addr m, m_flags m, advance_vec_to (scatter ms (m_bytes m)) (m_n m)).

(* recv_from_managed / recv_msg_managed: 0 => None *)
Definition glue_recv_from_managed (cap : nat) (m : os_msg) : option (list byte * option N * N) :=
  match glue_managed cap (m_bytes m) (m_n m) with
  | None => None
  | Some bs => Some (bs, map_addr m, m_flags m)
  end.

(* io_uring multishot recvmsg: one provided buffer holds
   io_uring_recvmsg_out (16 bytes) ++ name area (128) ++ control area (clen) ++ payload;
   RecvMsgMultiResult::data() = as_init()[16 + 128 + clen ..] *)
Definition MSHOT_HDR : nat := 16.
Definition MSHOT_NAME : nat := 128.
Definition mshot_layout (hdr name ctrl payload : list byte) : list byte :=
  hdr ++ name ++ ctrl ++ payload.
Definition mshot_data (clen : nat) (buf : list byte) : list byte :=
  skipn (MSHOT_HDR + MSHOT_NAME + clen) buf.
Definition mshot_payload_cap (L clen : nat) : nat := L - (MSHOT_HDR + MSHOT_NAME + clen).

(* ====================================================================== *)
(* 7. accept                                                               *)

(* a completion of an accept submission: a new connection or an error *)
Inductive acqe := AConn (c : N) (more : bool) | AFail (e : N).
Definition acqe_final (a : acqe) : bool := match a with AConn _ more => negb more | AFail _ => true end.
Inductive aitem := AOk (c : N) | AErr (e : N).

(* Incoming::poll_next over the CQEs of one AcceptMulti submission: every
   connection CQE becomes exactly one socket (a non-final one through
   from_raw_fd of the popped result, the final one through into_inner) *)
Fixpoint incoming_session (cs : list acqe) : list aitem :=
  match cs with
  | [] => []
  | a :: r =>
    let it := match a with AConn c _ => AOk c | AFail e => AErr e end in
    if acqe_final a then [it] else it :: incoming_session r
  end.

(* the stream never ends: when a submission is over it submits again *)
Definition incoming_stream (ss : list (list acqe)) : list aitem := flat_map incoming_session ss.

Definition aitem_conn (a : aitem) : list N := match a with AOk c => [c] | AErr _ => [] end.
Definition accepted (l : list aitem) : list N := flat_map aitem_conn l.

Definition acqe_conn (a : acqe) : list N := match a with AConn c _ => [c] | AFail _ => [] end.
Definition session_conns (cs : list acqe) : list N := flat_map acqe_conn cs.

Fixpoint asession_wf (cs : list acqe) : bool :=
  match cs with
  | [] => false
  | [a] => acqe_final a
  | a :: r => negb (acqe_final a) && asession_wf r
  end.

(* reference listener: pending connections are handed out in order, each
   once; the kernel serves the submissions from the head of the queue.
   [shape]: for every submission, the F_MORE flags of its connection CQEs. *)
Fixpoint serve_one (pending : list N) (s : list bool) {struct s} : option (list acqe * list N) :=
  match s with
  | [] => Some ([], pending)
  | more :: s' =>
    match pending with
    | [] => None
    | c :: p' =>
      match serve_one p' s' with
      | None => None
      | Some (cs, p2) => Some (AConn c more :: cs, p2)
      end
    end
  end.

Fixpoint serve_accepts (pending : list N) (shape : list (list bool))
  : option (list (list acqe) * list N) :=
  match shape with
  | [] => Some ([], pending)
  | s :: r =>
    match serve_one pending s with
    | None => None
    | Some (cs, p1) =>
      match serve_accepts p1 r with
      | None => None
      | Some (css, p2) => Some (cs :: css, p2)
      end
    end
  end.

(* CQE discipline of an accept submission: F_MORE on all but the last *)
Fixpoint ashape_ok (s : list bool) : bool :=
  match s with
  | [] => false
  | m :: r => match r with [] => negb m | _ :: _ => m && ashape_ok r end
  end.

(* ====================================================================== *)
(* 8. readiness: a blocked operation of the polling driver                  *)

(* A socket's send buffer has a capacity: a send is accepted only while there
   is room.  The polling driver first tries the system call (pre_submit); on
   "would block" it registers the descriptor with an INTEREST and retries the
   call (operate) when the poller reports an event for that interest.
   compio-driver/src/sys/op/socket/poll.rs: decide(fd, Writable, ..) for every
   send flavour, decide(fd, Readable, ..) for every receive flavour.           *)
Inductive interest := IReadable | IWritable.
Definition interest_eqb (a b : interest) : bool :=
  match a, b with IReadable, IReadable | IWritable, IWritable => true | _, _ => false end.

Definition send_interest : interest := IWritable.
Definition recv_interest : interest := IReadable.

(* the events the poller reports for a descriptor whose outgoing queue is
   [q_out] (capacity C) and whose incoming queue is [q_in] *)
Definition fd_events (C : nat) (q_out q_in : list byte) (in_closed : bool) : list interest :=
  (if length q_out <? C then [IWritable] else []) ++
  (if (1 <=? length q_in) || in_closed then [IReadable] else []).

Inductive opst := OpBlocked (i : interest) | OpDone (n : nat).

(* how many bytes the OS takes when it is asked for [want] and offers [room] *)
Definition os_take (k_os room want : nat) : nat := Nat.max 1 (Nat.min k_os (Nat.min room want)).

(* pre_submit of a send of [data]: tried at once; blocked when there is no room *)
Definition send_submit (i : interest) (C : nat) (q_out data : list byte) (k_os : nat)
  : opst * list byte :=
  let room := C - length q_out in
  if (room =? 0) && negb (length data =? 0) then (OpBlocked i, q_out)
  else let n := if length data =? 0 then 0 else os_take k_os room (length data) in
       (OpDone n, q_out ++ firstn n data).

(* a poller wake-up for a blocked send: the call is retried only if the event
   set contains the operation's interest *)
Definition send_retry (i : interest) (C : nat) (q_out q_in : list byte) (in_closed : bool)
  (data : list byte) (k_os : nat) : opst * list byte :=
  if existsb (interest_eqb i) (fd_events C q_out q_in in_closed)
  then send_submit i C q_out data k_os
  else (OpBlocked i, q_out).

(* the same for a receive with capacity [cap] on the incoming queue *)
Definition recv_submit (i : interest) (q_in : list byte) (in_closed : bool) (cap k_os : nat)
  : opst * list byte * list byte :=
  if (length q_in =? 0) && negb in_closed && negb (cap =? 0) then (OpBlocked i, [], q_in)
  else let n := if (cap =? 0) || (length q_in =? 0) then 0 else os_take k_os (length q_in) cap in
       (OpDone n, firstn n q_in, skipn n q_in).

Definition recv_retry (i : interest) (C : nat) (q_out q_in : list byte) (in_closed : bool)
  (cap k_os : nat) : opst * list byte * list byte :=
  if existsb (interest_eqb i) (fd_events C q_out q_in in_closed)
  then recv_submit i q_in in_closed cap k_os
  else (OpBlocked i, [], q_in).

(* a writer pushing [rem] through a send buffer of capacity C while the peer
   ONLY reads (never sends): every element of [ks] is one read of the peer;
   after it the poller may wake the blocked send.  Result: what the peer got,
   what is still queued, what the writer still holds. *)
Fixpoint bp_run (i : interest) (C : nat) (q rem : list byte) (ks : list nat)
  : list byte * list byte * list byte :=
  match ks with
  | [] => ([], q, rem)
  | k :: r =>
    let n := Nat.min k (length q) in
    let got := firstn n q in
    let q1 := skipn n q in
    let '(q2, rem2) :=
      match rem with
      | [] => (q1, rem)
      | _ => match send_retry i C q1 [] false rem (length rem) with
             | (OpDone m, q') => (q', skipn m rem)
             | (OpBlocked _, q') => (q', rem)
             end
      end in
    let '(g, qf, rf) := bp_run i C q2 rem2 r in (got ++ g, qf, rf)
  end.

(* ---- counts only: the abstraction the bulk-transfer transcripts are
   replayed on (payloads of several MiB are not materialised) --------------- *)
Record cstream := mkc { cq : N; cclosed : bool }.

Inductive clabel :=
| CSend (offered k : N)
| CShutdown
| CRecv (cap k : N)
| CDrop (k : N).

Definition clabel_of (l : label) : clabel :=
  match l with
  | LSend data k => CSend (N.of_nat (length data)) (N.of_nat k)
  | LShutdown => CShutdown
  | LRecv cap k => CRecv (N.of_nat cap) (N.of_nat k)
  | LDrop k => CDrop (N.of_nat k)
  end.

Definition cstep (s : cstream) (l : clabel) : option cstream :=
  match l with
  | CSend offered k =>
      if negb (cclosed s) && (k <=? offered)%N && ((1 <=? k)%N || (offered =? 0)%N)
      then Some (mkc (cq s + k) false) else None
  | CShutdown => Some (mkc (cq s) true)
  | CRecv cap k =>
      if (k <=? cap)%N && (k <=? cq s)%N &&
         ((1 <=? k)%N || (cap =? 0)%N || ((cq s =? 0)%N && cclosed s))
      then Some (mkc (cq s - k) (cclosed s)) else None
  | CDrop k => if (k <=? cq s)%N then Some (mkc (cq s - k) (cclosed s)) else None
  end.

Definition cabs (s : stream) : cstream := mkc (N.of_nat (length (sq s))) (sclosed s).
