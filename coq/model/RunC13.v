(* RunC13.v — case interpreter for the C13 correspondence check.
   A case is a list of N (one line of integers); so is the result.  The Rust
   harness (harness/pure/src/bin/c13.rs) decodes the same line and runs
   compio-io's framers, Framed sink/stream and ancillary builder/iterator. *)
From Compio.Model Require Import Base Frame Cmsg.
From Compio.Gen Require Consts.

Definition obind {A B} (o : option A) (f : A -> option B) : option B :=
  match o with Some a => f a | None => None end.
Notation "'let?' x ':=' o 'in' k" := (obind o (fun x => k))
  (at level 200, x binder, right associativity).

Definition is_bytes (l : list N) : bool := forallb (fun b => (b <? 256)%N) l.

(* [n; x1..xn], every x a byte *)
Definition dec_bytes (l : list N) : option (list N * list N) :=
  let? '(n, r) := take1 l in
  let? '(bs, r') := takeN (nn n) r in
  if is_bytes bs then Some (bs, r') else None.

Fixpoint dec_list {A} (n : nat) (f : list N -> option (A * list N)) (l : list N)
  : option (list A * list N) :=
  match n with
  | O => Some ([], l)
  | S k => let? '(a, r) := f l in let? '(s, r') := dec_list k f r in Some (a :: s, r')
  end.

(* the four instantiations of CharDelimited<C> the harness has *)
Definition char_of (id : N) : option N :=
  match id with
  | 0%N => Some 10%N            (* '\n' *)
  | 1%N => Some 233%N           (* U+00E9 *)
  | 2%N => Some 8477%N          (* U+211D *)
  | 3%N => Some 128512%N        (* U+1F600 *)
  | 4%N => Some 8364%N          (* U+20AC *)
  | _ => None
  end.

Definition ctor_of (n : N) : option ctor :=
  match n with
  | 0%N => Some CNew | 1%N => Some CDefault | 2%N => Some CCloneNew | 3%N => Some CCloneDefault
  | _ => None
  end.

(* framer: kind + 10 * construction path; AnyDelimited has no Default *)
Definition dec_framer (l : list N) : option (framer * list N) :=
  let? '(k, r) := take1 l in
  let? ct := ctor_of (k / 10) in
  match (k mod 10)%N, r with
  | 1%N, lfl :: be :: r =>
    if ((1 <=? lfl) && (lfl <=? Consts.MAX_LFL) && (be <=? 1))%N
    then Some (framer_via ct (FLen (nn lfl) (N.eqb be 1)), r) else None
  | 2%N, r =>
    match ct with
    | CDefault | CCloneDefault => None
    | _ =>
      let? '(d, r') := dec_bytes r in
      match d with [] => None | _ => Some (framer_via ct (FAny d), r') end
    end
  | 3%N, id :: r => let? c := char_of id in Some (framer_via ct (FChar c), r)
  | 4%N, r => Some (framer_via ct FNoop, r)
  | _, _ => None
  end.

Definition dec_frames (l : list N) : option (list (list N) * list N) :=
  let? '(n, r) := take1 l in dec_list (nn n) dec_bytes r.

Definition dec_rd (l : list N) : option (rd * list N) :=
  match l with
  | 0%N :: n :: r => Some (RdChunk (nn n), r)
  | 1%N :: k :: r => Some (RdErr k, r)
  | _ => None
  end.

Definition dec_sched (l : list N) : option (list rd * list N) :=
  let? '(n, r) := take1 l in dec_list (nn n) dec_rd r.

Definition dec_msg (l : list N) : option (msg * list N) :=
  match l with
  | level :: ty :: kind :: r =>
    let? '(d, r') := dec_bytes r in
    let ok := match kind with
              | 0%N => Nat.leb (length d) 40
              | 1%N => Nat.eqb (length d) 4
              | 2%N => Nat.eqb (length d) 12
              | 3%N => Nat.eqb (length d) 20
              | _ => false
              end in
    if (ok && (level <? 4294967296) && (ty <? 4294967296))%N
    then Some (mkmsg level ty d, r') else None
  | _ => None
  end.

Definition dec_msgs (l : list N) : option (list msg * list N) :=
  let? '(n, r) := take1 l in dec_list (nn n) dec_msg r.

(* item of the failing codec: [fail; k; n; bytes] *)
Definition dec_sitem (l : list N) : option (sitem * list N) :=
  match l with
  | fail :: k :: r =>
    let? '(bs, r') := dec_bytes r in
    match fail with
    | 0%N => Some (mksitem bs None, r')
    | 1%N => Some (mksitem bs (Some (nn k)), r')
    | _ => None
    end
  | _ => None
  end.

Definition dec_sop (l : list N) : option (sop * list N) :=
  match l with
  | 1%N :: r => let? '(it, r') := dec_sitem r in Some (SFeed it, r')
  | 2%N :: r => let? '(it, r') := dec_sitem r in Some (SSend it, r')
  | 3%N :: r => Some (SFlush, r)
  | 4%N :: r => Some (SClose, r)
  | _ => None
  end.

Definition dec_wans (l : list N) : option (wans * list N) :=
  match l with
  | 0%N :: n :: r => Some (WAns (IoHelpers.AChunk (nn n)), r)
  | 1%N :: k :: r => Some (WAns (IoHelpers.AErr k), r)
  | 2%N :: _ :: r => Some (WPending, r)
  | _ => None
  end.

Definition enc_sres (r : sres) : list N :=
  match r with
  | SOk => [0; 0]%N
  | SCodecErr => [1%N; E_INVALID_DATA]
  | SIoErr k => [1%N; k]
  end.

Definition enc_wev (e : IoHelpers.wev) : list N :=
  match e with
  | IoHelpers.WBytes bs => 1%N :: NN (length bs) :: bs
  | IoHelpers.WFlush => [2%N]
  | IoHelpers.WShutdown => [3%N]
  end.

Definition enc_panic (c : N) : list N := [2%N; c].

Definition enc_lp (bs : list N) : list N := NN (length bs) :: bs.

Definition enc_item (i : item) : list N :=
  match i with
  | IOk p => 0%N :: enc_lp p
  | IErr k => [1%N; k]
  end.

Definition enc_decoded (r : list item * nat * list byte) : list N :=
  let '(its, reads, rest) := r in
  NN (length its) :: flat_map enc_item its ++ [NN reads; NN (length rest)].

Definition lo_hi (x : N) : list N := [x mod 4294967296; x / 4294967296]%N.

Definition enc_citem (it : citem) : list N :=
  [ci_level it; ci_type it] ++ lo_hi (ci_len it) ++ [NN (ci_off it)] ++ lo_hi (ci_slen it)
  ++ match ci_typed it with
     | DOk bs => 0%N :: enc_lp bs
     | DTooSmall => [1%N]
     | DSkipped => [2%N]
     end.

Definition enc_citems (its : list citem) : list N :=
  NN (length its) :: flat_map enc_citem its.

Definition run_opt (l : list N) : option (list N) :=
  let? '(op, l) := take1 l in
  match op with
  | 1%N => (* encode: framer, wchunk, frames *)
    let? '(fr, l) := dec_framer l in
    let? '(_, l) := take1 l in
    let? '(frames, l) := dec_frames l in
    Some (0%N :: enc_lp (encode_stream fr frames))
  | 2%N => (* decode: framer, schedule, stream bytes *)
    let? '(fr, l) := dec_framer l in
    let? '(sched, l) := dec_sched l in
    if negb (is_bytes l) then None else
    Some match decode_stream fr sched l with
         | Panic c => enc_panic c
         | Ok r => 0%N :: enc_decoded r
         end
  | 3%N => (* round trip: framer, wchunk, frames, schedule *)
    let? '(fr, l) := dec_framer l in
    let? '(_, l) := take1 l in
    let? '(frames, l) := dec_frames l in
    let? '(sched, l) := dec_sched l in
    let s := encode_stream fr frames in
    Some match decode_stream fr sched s with
         | Panic c => enc_panic c
         | Ok r => 0%N :: enc_lp s ++ enc_decoded r
         end
  | 4%N => (* extract on given bytes: framer, begin, bytes *)
    let? '(fr, l) := dec_framer l in
    let? '(b, l) := take1 l in
    if negb (is_bytes l) || Nat.ltb (length l) (nn b) then None else
    let w := skipn (nn b) l in
    Some match extract fr w with
         | Panic c => enc_panic c
         | Ok None => [0; 0; 0]%N
         | Ok (Some f) =>
           match frame_slice f w with
           | Panic c => enc_panic c
           | Ok p => [0%N; 0%N; 1%N; NN (f_prefix f); NN (f_payload f); NN (f_suffix f);
                      NN (frame_len f)] ++ enc_lp p
           end
         end
  | 5%N => (* cmsg build: capacity, messages *)
    let? '(n, l) := take1 l in
    if (4096 <? n)%N then None else
    let? '(ms, l) := dec_msgs l in
    Some match build (nn n) ms with
         | Panic c => enc_panic c
         | Ok (st, bytes) => 0%N :: st ++ enc_lp bytes
         end
  | 6%N => (* cmsg build, then iterate over the filled part *)
    let? '(n, l) := take1 l in
    if (4096 <? n)%N then None else
    let? '(ms, l) := dec_msgs l in
    Some match build (nn n) ms with
         | Panic c => enc_panic c
         | Ok (st, bytes) =>
           match iterate bytes (map (fun m => length (m_data m)) (accepted st ms)) 0 with
           | Panic c => enc_panic c
           | Ok its => 0%N :: st ++ [NN (length bytes)] ++ enc_citems its
           end
         end
  | 7%N => (* cmsg iterate over given bytes: wanted size, bytes *)
    let? '(want, l) := take1 l in
    if (40 <? want)%N || negb (is_bytes l) then None else
    Some match iterate l [] (nn want) with
         | Panic c => enc_panic c
         | Ok its => 0%N :: enc_citems its
         end
  | 8%N => (* sink program with the failing codec: framer, ops, writer script *)
    let? '(fr, l) := dec_framer l in
    let? '(n, l) := take1 l in
    let? '(ops, l) := dec_list (nn n) dec_sop l in
    let? '(n, l) := take1 l in
    let? '(ws, l) := dec_list (nn n) dec_wans l in
    let '(rs, _, log) := sink_run fr ops sink_init (strip_pending ws) [] in
    Some (0%N :: flat_map enc_sres rs ++ NN (length log) :: flat_map enc_wev log)
  | 9%N => (* decode with the failing decoder: framer, schedule, stream bytes *)
    let? '(fr, l) := dec_framer l in
    let? '(sched, l) := dec_sched l in
    if negb (is_bytes l) then None else
    Some match decode_stream_probe fr sched l with
         | Panic c => enc_panic c
         | Ok r => 0%N :: enc_decoded r
         end
  | _ => None
  end.

Definition run_c13 (l : list N) : list N :=
  match run_opt l with Some r => r | None => BAD_CASE end.
