(* FileSpec.v — reference semantics of files, open-file descriptions, a small
   POSIX name space, and compio's GLUE between a user's buffer and the OS
   (compio-driver/src/sys/op/{general,fs}/, sys_slice.rs, op/ext.rs,
   compio-fs/src/{file.rs,open_options/unix.rs,utils}).  No proofs in this file.

   The OS itself is an environment: what it answers is compared with this
   reference by the differential run (harness/rt/src/bin/c08.rs), not proved.
   What is proved (thm/FileSpecThm.v) is that the reference is self-consistent
   and that the glue maps any OS answer to exactly what the reference predicts. *)
From Compio.Model Require Import Base Buf PipeSpec.

(* ====================================================================== *)
(* 1. the reference file: a list of bytes                                  *)

Definition file := list byte.
Definition zeros (n : nat) : list byte := repeat_b 0%N n.

(* pread(2): up to [len] bytes at [off]; nothing at or beyond end of file *)
Definition pread (f : file) (off len : nat) : list byte := sub_list f off len.

Definition pad_to (f : file) (n : nat) : file := f ++ zeros (n - length f).

(* pwrite(2): a write beyond end of file zero-fills the hole; a zero-length
   write changes nothing (it does not extend the file) *)
Definition pwrite (f : file) (off : nat) (d : list byte) : file :=
  match d with
  | [] => f
  | _ => write_at (pad_to f off) off d
  end.

(* ftruncate(2): shrink, or extend with zeros *)
Definition ftruncate (f : file) (n : nat) : file := firstn n f ++ zeros (n - length f).

(* sequential forms: the open-file description carries the cursor; O_APPEND
   moves it to the end before every write (positional writes through an
   O_APPEND descriptor append too, Linux) *)
Definition seq_read (f : file) (pos len : nat) : list byte * nat :=
  let d := pread f pos len in (d, pos + length d).

Definition write_pos (f : file) (pos : nat) (app : bool) : nat :=
  if app then length f else pos.

(* a zero-length write returns at once: it neither extends the file nor moves
   the cursor (not even to the end of an O_APPEND file) *)
Definition seq_write (f : file) (pos : nat) (app : bool) (d : list byte) : file * nat :=
  match d with
  | [] => (f, pos)
  | _ => let p := write_pos f pos app in (pwrite f p d, p + length d)
  end.

(* vectored forms, DEFINED as sequential composition of the single-buffer
   operations, member by member *)
Fixpoint preadv (f : file) (off : nat) (caps : list nat) : list (list byte) :=
  match caps with
  | [] => []
  | c :: r => let d := pread f off c in d :: preadv f (off + length d) r
  end.

Fixpoint pwritev (f : file) (off : nat) (ds : list (list byte)) : file :=
  match ds with
  | [] => f
  | d :: r => pwritev (pwrite f off d) (off + length d) r
  end.

Definition sum_nat (l : list nat) : nat := fold_right Nat.add 0 l.

(* ====================================================================== *)
(* 2. the glue: which range of the user's buffer is offered to the OS, and
      how the OS byte count becomes the buffer's new length                 *)

(* WriteAt / Write: `self.buffer.as_init()` (sys_slice: the initialised part) *)
Definition offer_write (v : view) (r : root) : R (nat * nat) := r_as_init v r.

(* ReadAt / Read: `self.buffer.sys_slice_mut()` = as_uninit: the whole writable
   window of the view, from its start, whatever is already initialised *)
Definition offer_read (v : view) (r : root) : R (nat * nat) := r_as_uninit v r.

(* io_uring: `slice.len().try_into().unwrap_or(u32::MAX)`; the syscalls of the
   polling driver / the pool take the full usize *)
Definition U32_MAX : N := 4294967295.
Definition clamp_u32 (n : N) : N := if (n <=? U32_MAX)%N then n else U32_MAX.

Inductive driver := DIoUring | DPoll | DPool.
Definition sqe_len (d : driver) (n : N) : N :=
  match d with DIoUring => clamp_u32 n | DPoll | DPool => n end.

(* the bytes a write hands to the OS *)
Definition write_payload (v : view) (r : root) : R (list byte) :=
  let! rg := offer_write v r in Ok (sub_list (rcells r) (fst rg) (snd rg)).

(* a read: the OS (an arbitrary function of the offered length, constrained
   only by the theorems' hypotheses) answers with some bytes; they land at the
   start of the offered window and `map_advanced` = advance_to(n) records them
   (Buf.r_fill is exactly that pair of steps) *)
Definition glue_read (v : view) (r : root) (os : nat -> list byte) : R (nat * root) :=
  let! rg := offer_read v r in
  let bs := os (snd rg) in
  let! r' := r_fill v bs r in
  Ok (length bs, r').

(* vectored: ReadVectoredAt offers every member's whole capacity
   (sys_slices_mut = iter_uninit_slice), `map_vec_advanced` = advance_vec_to(n);
   WriteVectoredAt offers every member's initialised part (iter_slice) *)
Definition voffer_read (ms : list root) : list nat := map rcap ms.
Definition voffer_write (ms : list root) : list (list byte) :=
  map (fun m => firstn (rlen m) (rcells m)) ms.

Definition glue_readv (ms : list root) (os : list nat -> list byte) : R (nat * list root) :=
  let bs := os (voffer_read ms) in
  let! ms' := vfill CList WBase bs ms in
  Ok (length bs, ms').

(* the same mapping whichever driver produced the answer: the driver only
   decides WHO calls the OS (kernel ring, readiness + syscall, pool thread) *)
Definition driver_read (d : driver) (v : view) (r : root) (os : nat -> list byte)
  : R (nat * root) :=
  match d with
  | DIoUring => glue_read v r os
  | DPoll => glue_read v r os
  | DPool => glue_read v r os
  end.

(* ====================================================================== *)
(* 3. open options (compio-fs/src/open_options/unix.rs)                    *)

Definition O_RDONLY : N := 0.
Definition O_WRONLY : N := 1.
Definition O_RDWR : N := 2.
Definition O_CREAT : N := 64.
Definition O_EXCL : N := 128.
Definition O_TRUNC : N := 512.
Definition O_APPEND : N := 1024.
Definition O_CLOEXEC : N := 524288.
Definition O_ACCMODE : N := 3.

Definition E_NOT_FOUND : N := 30.
Definition E_ALREADY_EXISTS : N := 31.
Definition E_INVALID_INPUT : N := 32.
Definition E_IS_DIR : N := 33.
Definition E_NOT_DIR : N := 34.
Definition E_NOT_EMPTY : N := 35.
Definition E_PERMISSION : N := 7.
Definition E_BADF : N := 1009.
Definition E_LOOP : N := 1040.

Inductive res (A : Type) := Rok (a : A) | Rerr (e : N).
Arguments Rok {A} a.
Arguments Rerr {A} e.

Record oopts := mkopts {
  oo_read : bool; oo_write : bool; oo_truncate : bool;
  oo_create : bool; oo_create_new : bool;
  oo_custom : N          (* custom_flags, access-mode bits already removed *)
}.

Definition get_access_mode (o : oopts) : res N :=
  match oo_read o, oo_write o with
  | true, false => Rok O_RDONLY
  | false, true => Rok O_WRONLY
  | true, true => Rok O_RDWR
  | false, false => Rerr E_INVALID_INPUT
  end.

Definition get_creation_mode (o : oopts) : res N :=
  if negb (oo_write o) && (oo_truncate o || oo_create o || oo_create_new o)
  then Rerr E_INVALID_INPUT
  else Rok (match oo_create o, oo_truncate o, oo_create_new o with
            | false, false, false => 0
            | true, false, false => O_CREAT
            | false, true, false => O_TRUNC
            | true, true, false => N.lor O_CREAT O_TRUNC
            | _, _, true => N.lor O_CREAT O_EXCL
            end)%N.

Definition strip_accmode (c : N) : N := N.ldiff c O_ACCMODE.

Definition open_flags (o : oopts) : res N :=
  match get_access_mode o with
  | Rerr e => Rerr e
  | Rok a =>
    match get_creation_mode o with
    | Rerr e => Rerr e
    | Rok c => Rok (N.lor (N.lor (N.lor O_CLOEXEC a) c) (oo_custom o))
    end
  end.

(* std::fs::OpenOptions (library/std/src/sys/fs/unix.rs), transcribed, with its
   extra `append` field; compio has no `append` (O_APPEND goes through
   custom_flags) *)
Definition std_access_mode (r w a : bool) : res N :=
  match r, w, a with
  | true, false, false => Rok O_RDONLY
  | false, true, false => Rok O_WRONLY
  | true, true, false => Rok O_RDWR
  | false, _, true => Rok (N.lor O_WRONLY O_APPEND)
  | true, _, true => Rok (N.lor O_RDWR O_APPEND)
  | false, false, false => Rerr E_INVALID_INPUT
  end.

Definition std_creation_mode (w a t c cn : bool) : res N :=
  let bad :=
    match w, a with
    | true, false => false
    | false, false => t || c || cn
    | _, true => t && negb cn
    end in
  if bad then Rerr E_INVALID_INPUT else
  Rok (match c, t, cn with
       | false, false, false => 0
       | true, false, false => O_CREAT
       | false, true, false => O_TRUNC
       | true, true, false => N.lor O_CREAT O_TRUNC
       | _, _, true => N.lor O_CREAT O_EXCL
       end)%N.

Definition std_open_flags (r w a t c cn : bool) (custom : N) : res N :=
  match std_access_mode r w a with
  | Rerr e => Rerr e
  | Rok am =>
    match std_creation_mode w a t c cn with
    | Rerr e => Rerr e
    | Rok cm => Rok (N.lor (N.lor (N.lor O_CLOEXEC am) cm) (strip_accmode custom))
    end
  end.

Definition has_flag (flags f : N) : bool := negb (N.land flags f =? 0)%N.

(* ====================================================================== *)
(* 4. a small POSIX name space under one root directory                    *)

Definition path := list nat.

Fixpoint path_eqb (a b : path) : bool :=
  match a, b with
  | [], [] => true
  | x :: a', y :: b' => (x =? y) && path_eqb a' b'
  | _, _ => false
  end.

(* lexicographic, a prefix first: the order of a sorted depth-first walk *)
Fixpoint path_ltb (a b : path) : bool :=
  match a, b with
  | [], [] => false
  | [], _ => true
  | _, [] => false
  | x :: a', y :: b' => if x <? y then true else if y <? x then false else path_ltb a' b'
  end.

(* a is a prefix of b (not necessarily strict) *)
Fixpoint is_prefix (a b : path) : bool :=
  match a, b with
  | [], _ => true
  | x :: a', y :: b' => (x =? y) && is_prefix a' b'
  | _, [] => false
  end.

Inductive node :=
| NDir
| NFile (ino : nat)
| NLink (target : path).

(* permission bits (st_mode & 0o7777); the runs set umask 0o022 *)
Definition UMASK : N := 18.              (* 0o022 *)
Definition DIR_MODE : N := 493.          (* 0o755 = 0o777 & ~umask: create_dir, the root *)
Definition DEFAULT_MODE : N := 438.      (* 0o666: OpenOptions::new() *)
Definition WRITE_BITS : N := 146.        (* 0o222 *)
Definition created_mode (m : N) : N := N.ldiff (N.land m 4095) UMASK.

Record inode := mkino { idata : file; imode : N }.
(* Permissions::readonly(): no write bit at all *)
Definition iro (i : inode) : bool := (N.land (imode i) WRITE_BITS =? 0)%N.
(* Permissions::set_readonly *)
Definition chmod_ro (m : N) (ro : bool) : N :=
  if ro then N.ldiff m WRITE_BITS else N.lor m WRITE_BITS.

Record fsys := mkfs { nodes : list (path * node); inodes : list inode }.

Definition fs_empty : fsys := mkfs [] [].

Fixpoint lookup (ns : list (path * node)) (p : path) : option node :=
  match ns with
  | [] => None
  | (q, n) :: r => if path_eqb q p then Some n else lookup r p
  end.

Fixpoint insert (ns : list (path * node)) (p : path) (n : node) : list (path * node) :=
  match ns with
  | [] => [(p, n)]
  | (q, m) :: r =>
    if path_eqb q p then (p, n) :: r
    else if path_ltb p q then (p, n) :: (q, m) :: r
    else (q, m) :: insert r p n
  end.

Definition remove (ns : list (path * node)) (p : path) : list (path * node) :=
  filter (fun x => negb (path_eqb (fst x) p)) ns.

Definition has_children (ns : list (path * node)) (p : path) : bool :=
  existsb (fun x => is_prefix p (fst x) && negb (path_eqb (fst x) p)) ns.

Inductive pkind := KNone | KDir | KFile | KLink.

Definition kind_at (fs : fsys) (p : path) : pkind :=
  match p with
  | [] => KDir
  | _ => match lookup (nodes fs) p with
         | None => KNone
         | Some NDir => KDir
         | Some (NFile _) => KFile
         | Some (NLink _) => KLink
         end
  end.

(* path walk: returns the canonical path of the last component (which may not
   exist), every intermediate component being an existing directory *)
Fixpoint walk (fuel : nat) (fs : fsys) (cur rest : path) (follow : bool) : res path :=
  match fuel with
  | O => Rerr E_LOOP
  | S fuel' =>
    match rest with
    | [] => Rok cur
    | c :: rest' =>
      match kind_at fs cur with
      | KNone => Rerr E_NOT_FOUND
      | KFile => Rerr E_NOT_DIR
      | KLink => Rerr E_LOOP
      | KDir =>
        let p := cur ++ [c] in
        match lookup (nodes fs) p with
        | Some (NLink t) =>
          match rest', follow with
          | [], false => Rok p
          | _, _ => walk fuel' fs [] (t ++ rest') follow
          end
        | _ => walk fuel' fs p rest' follow
        end
      end
    end
  end.

Definition WALK_FUEL : nat := 48.
Definition resolve (fs : fsys) (p : path) (follow : bool) : res path :=
  walk WALK_FUEL fs [] p follow.

Definition get_inode (fs : fsys) (i : nat) : inode := nth i (inodes fs) (mkino [] 0%N).

Fixpoint set_nth {A} (l : list A) (i : nat) (x : A) : list A :=
  match l, i with
  | [], _ => []
  | _ :: r, O => x :: r
  | y :: r, S k => y :: set_nth r k x
  end.

Definition set_inode (fs : fsys) (i : nat) (x : inode) : fsys :=
  mkfs (nodes fs) (set_nth (inodes fs) i x).
Definition set_data (fs : fsys) (i : nat) (d : file) : fsys :=
  set_inode fs i (mkino d (imode (get_inode fs i))).
Definition with_nodes (fs : fsys) (ns : list (path * node)) : fsys := mkfs ns (inodes fs).

(* create an empty regular file at canonical path p *)
Definition create_file (fs : fsys) (p : path) (mode : N) : fsys * nat :=
  let i := length (inodes fs) in
  (mkfs (insert (nodes fs) p (NFile i)) (inodes fs ++ [mkino [] (created_mode mode)]), i).

(* O_TMPFILE: an inode without a name *)
Definition create_anon (fs : fsys) (mode : N) : fsys * nat :=
  let i := length (inodes fs) in
  (mkfs (nodes fs) (inodes fs ++ [mkino [] (created_mode mode)]), i).

(* ---- open ------------------------------------------------------------ *)

Inductive hkind := HFile (ino : nat) | HDir.
Record handle := mkh {
  hk : hkind; h_r : bool; h_w : bool; h_app : bool; h_seq : bool; h_pos : nat
}.

Definition O_DIRECTORY : N := 65536.
Definition O_NOFOLLOW : N := 131072.
Definition O_TMPFILE_BIT : N := 4194304.          (* __O_TMPFILE *)
Definition O_TMPFILE : N := 4259840.              (* __O_TMPFILE | O_DIRECTORY *)

(* does open(2) consume its mode argument for this flag word? *)
Definition mode_consumed (flags : N) : bool :=
  has_flag flags O_CREAT || has_flag flags O_TMPFILE_BIT.

(* open(2) / openat2 of Linux >= 6.4 on the name space: O_TMPFILE (unnamed file in
   a directory, needs write access, excludes O_CREAT and needs O_DIRECTORY),
   O_CREAT | O_DIRECTORY is EINVAL, O_CREAT | O_EXCL does not follow a final
   symlink, O_NOFOLLOW on a final symlink is ELOOP, O_DIRECTORY on a non-directory
   is ENOTDIR, write access to a directory is EISDIR, O_EXCL without O_CREAT is
   ignored.  A file the call creates gets mode & ~umask; an existing file keeps
   its mode. *)
Definition fs_open (fs : fsys) (p : path) (flags mode : N) (seq : bool) : fsys * res handle :=
  let acc := N.land flags O_ACCMODE in
  let rd := negb (acc =? O_WRONLY)%N in
  let wr := negb (acc =? O_RDONLY)%N in
  let app := has_flag flags O_APPEND in
  let mk k := mkh k rd wr app seq 0 in
  let creat := has_flag flags O_CREAT in
  let isdir_err := wr || creat in
  if has_flag flags O_TMPFILE_BIT then
    if negb (has_flag flags O_DIRECTORY) || creat || negb wr then (fs, Rerr E_INVALID_INPUT) else
    match resolve fs p (negb (has_flag flags O_NOFOLLOW)) with
    | Rerr e => (fs, Rerr e)
    | Rok q =>
      match kind_at fs q with
      | KNone => (fs, Rerr E_NOT_FOUND)
      | KDir => let '(fs', i) := create_anon fs mode in (fs', Rok (mk (HFile i)))
      | KFile => (fs, Rerr E_NOT_DIR)
      | KLink => (fs, Rerr E_NOT_DIR)   (* O_NOFOLLOW with O_DIRECTORY on a symlink: ENOTDIR *)
      end
    end
  else if creat && has_flag flags O_DIRECTORY then (fs, Rerr E_INVALID_INPUT)
  else if creat && has_flag flags O_EXCL then
    match resolve fs p false with
    | Rerr e => (fs, Rerr e)
    | Rok q =>
      match kind_at fs q with
      | KNone => let '(fs', i) := create_file fs q mode in (fs', Rok (mk (HFile i)))
      | _ => (fs, Rerr E_ALREADY_EXISTS)
      end
    end
  else
    match resolve fs p (negb (has_flag flags O_NOFOLLOW)) with
    | Rerr e => (fs, Rerr e)
    | Rok q =>
      match q, lookup (nodes fs) q with
      | [], _ => if isdir_err then (fs, Rerr E_IS_DIR) else (fs, Rok (mk HDir))
      | _, None =>
        if creat
        then let '(fs', i) := create_file fs q mode in (fs', Rok (mk (HFile i)))
        else (fs, Rerr E_NOT_FOUND)
      | _, Some NDir => if isdir_err then (fs, Rerr E_IS_DIR) else (fs, Rok (mk HDir))
      | _, Some (NFile i) =>
        if has_flag flags O_DIRECTORY then (fs, Rerr E_NOT_DIR) else
        let fs' := if has_flag flags O_TRUNC && wr then set_data fs i [] else fs in
        (fs', Rok (mk (HFile i)))
      | _, Some (NLink _) =>
        if has_flag flags O_DIRECTORY then (fs, Rerr E_NOT_DIR) else (fs, Rerr E_LOOP)
      end
    end.

(* the permission bits fstat reports through a handle *)
Definition h_perm (fs : fsys) (h : handle) : N :=
  match hk h with
  | HFile i => imode (get_inode fs i)
  | HDir => DIR_MODE
  end.

(* what compio hands to openat: the flag word and the mode, ALWAYS both
   (open_options/unix.rs open_impl: OpenFile::new(dir, p, flags, self.mode)) *)
Definition open_request (o : oopts) (mode : N) : res (N * N) :=
  match open_flags o with
  | Rok fl => Rok (fl, mode)
  | Rerr e => Rerr e
  end.

(* ---- directory utilities (compio-fs/src/utils) ------------------------ *)

Definition fs_mkdir (fs : fsys) (p : path) : fsys * res unit :=
  match resolve fs p false with
  | Rerr e => (fs, Rerr e)
  | Rok q =>
    match kind_at fs q with
    | KNone => (with_nodes fs (insert (nodes fs) q NDir), Rok tt)
    | _ => (fs, Rerr E_ALREADY_EXISTS)
    end
  end.

Definition fs_is_dir (fs : fsys) (p : path) : bool :=
  match resolve fs p true with
  | Rok q => match kind_at fs q with KDir => true | _ => false end
  | Rerr _ => false
  end.

(* DirBuilder::create_dir_all (utils/mod.rs; the same algorithm as std) *)
Fixpoint fs_mkdir_all (fuel : nat) (fs : fsys) (p : path) : fsys * res unit :=
  match fuel with
  | O => (fs, Rerr E_LOOP)
  | S fuel' =>
    match p with
    | [] => (fs, Rok tt)              (* the root exists: mkdir -> EEXIST, is_dir -> Ok *)
    | _ =>
      match fs_mkdir fs p with
      | (fs1, Rok _) => (fs1, Rok tt)
      | (_, Rerr e) =>
        if (e =? E_NOT_FOUND)%N then
          match fs_mkdir_all fuel' fs (removelast p) with
          | (fs1, Rerr e1) => (fs1, Rerr e1)
          | (fs1, Rok _) =>
            match fs_mkdir fs1 p with
            | (fs2, Rok _) => (fs2, Rok tt)
            | (fs2, Rerr e2) => if fs_is_dir fs2 p then (fs2, Rok tt) else (fs2, Rerr e2)
            end
          end
        else if fs_is_dir fs p then (fs, Rok tt) else (fs, Rerr e)
      end
    end
  end.

Definition fs_unlink (fs : fsys) (p : path) : fsys * res unit :=
  match resolve fs p false with
  | Rerr e => (fs, Rerr e)
  | Rok q =>
    match kind_at fs q with
    | KNone => (fs, Rerr E_NOT_FOUND)
    | KDir => (fs, Rerr E_IS_DIR)
    | _ => (with_nodes fs (remove (nodes fs) q), Rok tt)
    end
  end.

Definition fs_rmdir (fs : fsys) (p : path) : fsys * res unit :=
  match resolve fs p false with
  | Rerr e => (fs, Rerr e)
  | Rok q =>
    match kind_at fs q with
    | KNone => (fs, Rerr E_NOT_FOUND)
    | KDir =>
      match q with
      | [] => (fs, Rerr E_NOT_EMPTY)
      | _ => if has_children (nodes fs) q then (fs, Rerr E_NOT_EMPTY)
             else (with_nodes fs (remove (nodes fs) q), Rok tt)
      end
    | _ => (fs, Rerr E_NOT_DIR)
    end
  end.

(* move the subtree rooted at a to b (b and its subtree removed first) *)
Definition move_tree (ns : list (path * node)) (a b : path) : list (path * node) :=
  let moved := filter (fun x => is_prefix a (fst x)) ns in
  let kept := filter (fun x => negb (is_prefix a (fst x)) && negb (is_prefix b (fst x))) ns in
  fold_left (fun acc x => insert acc (b ++ skipn (length a) (fst x)) (snd x)) moved kept.

Definition same_file (fs : fsys) (a b : path) : bool :=
  match lookup (nodes fs) a, lookup (nodes fs) b with
  | Some (NFile i), Some (NFile j) => i =? j
  | _, _ => false
  end.

Definition fs_rename (fs : fsys) (a b : path) : fsys * res unit :=
  match resolve fs a false with
  | Rerr e => (fs, Rerr e)
  | Rok qa =>
    match resolve fs b false with
    | Rerr e => (fs, Rerr e)
    | Rok qb =>
      match kind_at fs qa with
      | KNone => (fs, Rerr E_NOT_FOUND)
      | ka =>
        if path_eqb qa qb then (fs, Rok tt)
        else if is_prefix qa qb then (fs, Rerr E_INVALID_INPUT)
        else if is_prefix qb qa then (fs, Rerr E_NOT_EMPTY)
        else
          let go := (with_nodes fs (move_tree (nodes fs) qa qb), Rok tt) in
          match ka, kind_at fs qb with
          | _, KNone => go
          | KDir, KDir => if has_children (nodes fs) qb then (fs, Rerr E_NOT_EMPTY) else go
          | KDir, _ => (fs, Rerr E_NOT_DIR)
          | _, KDir => (fs, Rerr E_IS_DIR)
          | _, _ => if same_file fs qa qb then (fs, Rok tt) else go
          end
      end
    end
  end.

Definition fs_link (fs : fsys) (a b : path) : fsys * res unit :=
  match resolve fs a false with
  | Rerr e => (fs, Rerr e)
  | Rok qa =>
    match kind_at fs qa with
    | KNone => (fs, Rerr E_NOT_FOUND)
    | ka =>
      match resolve fs b false with
      | Rerr e => (fs, Rerr e)
      | Rok qb =>
        match kind_at fs qb with
        | KNone =>
          match lookup (nodes fs) qa with
          | Some NDir | None => (fs, Rerr E_PERMISSION)
          | Some n => (with_nodes fs (insert (nodes fs) qb n), Rok tt)
          end
        | _ => (fs, Rerr E_ALREADY_EXISTS)
        end
      end
    end
  end.

Definition fs_symlink (fs : fsys) (target link : path) : fsys * res unit :=
  match resolve fs link false with
  | Rerr e => (fs, Rerr e)
  | Rok q =>
    match kind_at fs q with
    | KNone => (with_nodes fs (insert (nodes fs) q (NLink target)), Rok tt)
    | _ => (fs, Rerr E_ALREADY_EXISTS)
    end
  end.

(* metadata: (len, kind 0 file / 1 dir / 2 symlink, readonly); the length of a
   directory or a symlink is file-system business: reported as 0 *)
Definition fs_stat (fs : fsys) (p : path) (follow : bool) : res (nat * N * bool) :=
  match resolve fs p follow with
  | Rerr e => Rerr e
  | Rok q =>
    match q, lookup (nodes fs) q with
    | [], _ => Rok (0, 1%N, false)
    | _, None => Rerr E_NOT_FOUND
    | _, Some NDir => Rok (0, 1%N, false)
    | _, Some (NFile i) => Rok (length (idata (get_inode fs i)), 0%N, iro (get_inode fs i))
    | _, Some (NLink _) => Rok (0, 2%N, false)
    end
  end.

(* set_permissions(readonly) on a path (follows symlinks); [None] = the path is
   a directory: the runs skip it (directory modes are not modelled) *)
Definition fs_chmod (fs : fsys) (p : path) (ro : bool) : option (fsys * res unit) :=
  match resolve fs p true with
  | Rerr e => Some (fs, Rerr e)
  | Rok q =>
    match q, lookup (nodes fs) q with
    | [], _ => None
    | _, None => Some (fs, Rerr E_NOT_FOUND)
    | _, Some NDir => None
    | _, Some (NFile i) =>
      Some (set_inode fs i (mkino (idata (get_inode fs i)) (chmod_ro (imode (get_inode fs i)) ro)), Rok tt)
    | _, Some (NLink _) => Some (fs, Rerr E_LOOP)
    end
  end.

(* ---- I/O through a handle -------------------------------------------- *)

(* the data a read of at most [k] bytes at [off] returns, or the error *)
Definition h_read (fs : fsys) (h : handle) (off k : nat) : res (list byte) :=
  if negb (h_r h) then Rerr E_BADF else
  match hk h with
  | HDir => Rerr E_IS_DIR
  | HFile i => Rok (pread (idata (get_inode fs i)) off k)
  end.

Definition h_write (fs : fsys) (h : handle) (off : nat) (d : list byte) : fsys * res nat :=
  if negb (h_w h) then (fs, Rerr E_BADF) else
  match hk h with
  | HDir => (fs, Rerr E_BADF)
  | HFile i =>
    let f := idata (get_inode fs i) in
    (set_data fs i (pwrite f (write_pos f off (h_app h)) d), Rok (length d))
  end.

Definition h_readv (fs : fsys) (h : handle) (off : nat) (caps : list nat) : res (list (list byte)) :=
  if negb (h_r h) then Rerr E_BADF else
  (* readv(2) with a zero total length returns 0 before looking at the file *)
  if sum_nat caps =? 0 then Rok (map (fun _ => []) caps) else
  match hk h with
  | HDir => Rerr E_IS_DIR
  | HFile i => Rok (preadv (idata (get_inode fs i)) off caps)
  end.

Definition h_writev (fs : fsys) (h : handle) (off : nat) (ds : list (list byte)) : fsys * res nat :=
  if negb (h_w h) then (fs, Rerr E_BADF) else
  match hk h with
  | HDir => (fs, Rerr E_BADF)
  | HFile i =>
    let f := idata (get_inode fs i) in
    (set_data fs i (pwritev f (write_pos f off (h_app h)) ds), Rok (length (concat ds)))
  end.

Definition h_truncate (fs : fsys) (h : handle) (n : nat) : fsys * res unit :=
  if negb (h_w h) then (fs, Rerr E_INVALID_INPUT) else
  match hk h with
  | HDir => (fs, Rerr E_INVALID_INPUT)
  | HFile i => (set_data fs i (ftruncate (idata (get_inode fs i)) n), Rok tt)
  end.

Definition h_stat (fs : fsys) (h : handle) : nat * N * bool :=
  match hk h with
  | HDir => (0, 1%N, false)
  | HFile i => (length (idata (get_inode fs i)), 0%N, iro (get_inode fs i))
  end.
