(* SharedFd.v — life cycle of a shared descriptor (C06).

   Part 1: compio-driver/src/fd.rs  (SharedFd = Shared<Inner{fd, waits, waker}>,
   clone, Drop, try_unwrap, take()), the users of take():
   File::close / Socket::close (compio-fs/src/file.rs, compio-net/src/socket/mod.rs:
   take().await, then a CloseFile / CloseSocket operation) and the close
   operation itself (compio-driver/src/sys/op/{fs,socket}/{mod,iour}.rs).

   One label = one atomic memory operation of one actor (program counters in
   the state):

     Drop for SharedFd      DCount  : strong_count(&self.0) == 2 ?
                            DWaits  : self.0.waits.load()
                            DWake   : self.0.waker.wake()
                            DDec    : the implicit decrement of the Shared that
                                      follows Drop::drop (reaching 0 drops Inner,
                                      i.e. closes the descriptor)
     take() future          CCreated/CUnpolled : waits.swap(true)
                            CTry1   : Shared::try_unwrap   (first)
                            CReg    : waker.register(cx.waker())
                            CTry2   : Shared::try_unwrap   (second)
                            CPending: returned Poll::Pending
                            CSome   : Ready(Some(fd)); the caller owns the descriptor

   The fine-grained relation [step] is the SYNC scheduler (feature "sync":
   Shared = Arc, droppers and the closer on different threads, every
   interleaving of the labels).  The UNSYNC scheduler (Shared = Rc, one
   thread) is the same relation restricted to runs in which a Drop and a poll
   run to their end before anything else moves: the macro steps [ustep].

   [cfg] names three behaviours of the code that were repaired during this
   work; [current] is the code as it is now, the other settings are kept so
   that the regressions stay refuted by witnesses (prop/C06.v).

   Part 2 (below): a descriptor-PRODUCING operation (Accept, OpenFile,
   CreateSocket, Pipe) between user future, driver and kernel.

   No proofs here. *)
From Compio.Model Require Import Base.

(* ---------------------------------------------------------------------- *)
(* Part 1: the shared descriptor                                            *)

Record cfg := mk_cfg {
  (* a take() future lets go of its reference through Drop for SharedFd (wake
     check); false = the bare Shared is dropped (no wake)                  *)
  closer_release_wakes : bool;
  (* File/Socket::close(): dropping the future before its first poll drops the
     handle; false = ManuallyDrop::new(self) outside the async block: the
     handle is forgotten                                                     *)
  unpolled_close_drops : bool;
  (* CloseFile/CloseSocket: a close the kernel cancelled (ECANCELED, the fd is
     still open) closes the descriptor in set_result; false = the
     ManuallyDrop<OwnedFd> of the operation is forgotten                    *)
  cancelled_close_closes : bool
}.

Definition current : cfg := mk_cfg true true true.

Inductive fdst :=
| FShared             (* inside Inner, behind the Shared *)
| FMoved              (* moved out by try_unwrap: owned by the closer that got it *)
| FClosed.

Inductive cpc :=
| CUnpolled   (* File/Socket::close() future, never polled: owns the handle *)
| CCreated    (* SharedFd::take() future, never polled: owns a reference    *)
| CTry1 | CReg | CTry2           (* inside a poll *)
| CPending    (* returned Pending: owns a reference *)
| CSome       (* try_unwrap succeeded: owns the descriptor *)
| CClosing    (* close(): CloseFile/CloseSocket submitted, future alive *)
| CClosed     (* close(): the operation ran, the future has not seen it yet *)
| CCancelled  (* close(): future dropped while the close op is in flight *)
| CDone       (* the descriptor was dealt with by its owner *)
| CGone.      (* returned None / dropped: reference handed to a Drop *)

Record closer := mk_closer {
  pc : cpc;
  cf : bool;        (* it is a File/Socket::close() future *)
  winner : bool     (* its waits.swap(true) returned false *)
}.

Inductive dpc := DCount | DWaits | DWake | DDec | DDone.

(* Only the closer whose swap returned false ever registers a waker or
   returns Pending, so the waker slot is "filled or not" and the pending
   notification is a flag of that one task. *)
Record st := mk_st {
  strong : nat;            (* Shared strong count; 0 = Inner is gone *)
  waits : bool;
  waker : bool;            (* the waker slot holds the waiting future's waker *)
  wwoken : bool;           (* a wake-up of the waiting future's task is pending *)
  fd : fdst;
  closes : nat;            (* number of close(2) executed on the descriptor *)
  handles : nat;           (* live SharedFd handles (File, Socket, Attacher ...) *)
  ops : nat;               (* operations in flight, each holding a clone *)
  forgotten : nat;         (* references forgotten (mem::forget / ManuallyDrop) *)
  closers : list closer;
  droppers : list dpc
}.

Definition init : st := mk_st 1 false false false FShared 0 1 0 0 [] [].

Inductive label :=
| LClone                (* handle.clone() *)
| LOpStart              (* an operation takes a clone for its lifetime *)
| LOpFinish             (* its storage is released: Drop of the clone starts *)
| LDropHandle           (* Drop of a handle starts *)
| LDrop (i : nat)       (* Drop number i: its next atomic step *)
| LTake (close : bool)  (* handle.take() / file.close(): a new closer *)
| LPoll (c : nat)       (* closer c: next atomic step of its poll *)
| LFutDrop (c : nat)    (* closer c: the future is dropped (between polls) *)
| LOwnerDrop (c : nat)  (* take() caller drops the T it obtained *)
| LKClose (c : nat)     (* the close operation of c is executed *)
| LKCancel (c : nat)    (* the kernel cancelled the close operation of c *)
| LTryUnwrap.           (* handle.try_unwrap() *)

Definition upd {A} (l : list A) (k : nat) (f : A -> A) : list A :=
  match nth_error l k with
  | Some x => firstn k l ++ f x :: skipn (S k) l
  | None => l
  end.

Definition w_pc (p : cpc) (x : closer) := mk_closer p (cf x) (winner x).

Definition set_closers (s : st) (l : list closer) : st :=
  mk_st (strong s) (waits s) (waker s) (wwoken s) (fd s) (closes s) (handles s) (ops s) (forgotten s) l (droppers s).
Definition set_droppers (s : st) (l : list dpc) : st :=
  mk_st (strong s) (waits s) (waker s) (wwoken s) (fd s) (closes s) (handles s) (ops s) (forgotten s) (closers s) l.
Definition set_wwoken (s : st) (b : bool) : st :=
  mk_st (strong s) (waits s) (waker s) b (fd s) (closes s) (handles s) (ops s) (forgotten s) (closers s) (droppers s).

(* a new Drop for SharedFd (or, when [quiet], of the bare Shared) *)
Definition spawn_drop (quiet : bool) (s : st) : st :=
  set_droppers s (droppers s ++ [if quiet then DDec else DCount]).

(* waker.wake(): the stored waker is taken and woken *)
Definition do_wake (s : st) : st :=
  if waker s then
    mk_st (strong s) (waits s) false true (fd s) (closes s) (handles s) (ops s) (forgotten s)
          (closers s) (droppers s)
  else s.

(* the decrement of the strong count; the last one drops Inner = closes the fd *)
Definition do_dec (s : st) : option st :=
  match strong s with
  | O => None
  | S O => match fd s with
           | FShared => Some (mk_st 0 (waits s) (waker s) (wwoken s) FClosed (S (closes s)) (handles s) (ops s)
                                    (forgotten s) (closers s) (droppers s))
           | _ => None
           end
  | S n => Some (mk_st n (waits s) (waker s) (wwoken s) (fd s) (closes s) (handles s) (ops s)
                       (forgotten s) (closers s) (droppers s))
  end.

Definition drop_step (s : st) (i : nat) : option st :=
  match nth_error (droppers s) i with
  | Some DCount =>
    Some (set_droppers s (upd (droppers s) i (fun _ => if Nat.eqb (strong s) 2 then DWaits else DDec)))
  | Some DWaits =>
    Some (set_droppers s (upd (droppers s) i (fun _ => if waits s then DWake else DDec)))
  | Some DWake =>
    let s1 := do_wake s in
    Some (set_droppers s1 (upd (droppers s1) i (fun _ => DDec)))
  | Some DDec =>
    match do_dec s with
    | Some s1 => Some (set_droppers s1 (upd (droppers s1) i (fun _ => DDone)))
    | None => None
    end
  | _ => None
  end.

(* Shared::try_unwrap by closer c *)
Definition try_unwrap (s : st) (c : nat) (fail : cpc) : st :=
  if Nat.eqb (strong s) 1 then
    mk_st 0 (waits s) (waker s) (wwoken s) FMoved (closes s) (handles s) (ops s) (forgotten s)
          (upd (closers s) c (w_pc CSome)) (droppers s)
  else set_closers s (upd (closers s) c (w_pc fail)).

Definition first_poll (g : cfg) (s : st) (c : nat) : st :=
  (* waits.swap(true) *)
  if waits s then
    (* None: the reference is released *)
    spawn_drop (negb (closer_release_wakes g))
      (set_closers s (upd (closers s) c (w_pc CGone)))
  else
    (* this poll consumes whatever notification its task had *)
    mk_st (strong s) true (waker s) false (fd s) (closes s) (handles s) (ops s) (forgotten s)
          (upd (closers s) c (fun x => mk_closer CTry1 (cf x) true)) (droppers s).

Definition poll_step (g : cfg) (s : st) (c : nat) : option st :=
  match nth_error (closers s) c with
  | Some x =>
    match pc x with
    | CUnpolled | CCreated => Some (first_poll g s c)
    | CTry1 => Some (try_unwrap s c CReg)
    | CReg =>
      Some (mk_st (strong s) (waits s) true (wwoken s) (fd s) (closes s) (handles s) (ops s) (forgotten s)
                  (upd (closers s) c (w_pc CTry2)) (droppers s))
    | CTry2 => Some (try_unwrap s c CPending)
    | CPending =>
      (* polled again: the notification is consumed, the closure starts over *)
      Some (set_wwoken (set_closers s (upd (closers s) c (w_pc CTry1))) false)
    | CSome =>
      (* close(): CloseFile::new(fd) is submitted in the same poll *)
      if cf x then Some (set_closers s (upd (closers s) c (w_pc CClosing))) else None
    | CClosing =>
      (* polled while the close operation is in flight: Pending again *)
      Some (set_wwoken s false)
    | CClosed =>
      (* the future sees the result: Ready(Ok(())) *)
      Some (set_wwoken (set_closers s (upd (closers s) c (w_pc CDone))) false)
    | _ => None
    end
  | None => None
  end.

Definition fut_drop (g : cfg) (s : st) (c : nat) : option st :=
  match nth_error (closers s) c with
  | Some x =>
    match pc x with
    | CUnpolled =>
      let s1 := set_closers s (upd (closers s) c (w_pc CGone)) in
      if unpolled_close_drops g then Some (spawn_drop false s1)
      else Some (mk_st (strong s1) (waits s1) (waker s1) (wwoken s1) (fd s1) (closes s1) (handles s1) (ops s1)
                       (S (forgotten s1)) (closers s1) (droppers s1))
    | CCreated | CPending =>
      Some (spawn_drop (negb (closer_release_wakes g))
                       (set_closers s (upd (closers s) c (w_pc CGone))))
    | CClosing => Some (set_closers s (upd (closers s) c (w_pc CCancelled)))
    | CClosed => Some (set_closers s (upd (closers s) c (w_pc CDone)))
    | _ => None
    end
  | None => None
  end.

Definition close_fd (s : st) (c : nat) (p : cpc) (wake : bool) : st :=
  mk_st (strong s) (waits s) (waker s) (wwoken s || wake) FClosed (S (closes s)) (handles s) (ops s) (forgotten s)
        (upd (closers s) c (w_pc p)) (droppers s).

Definition step (g : cfg) (s : st) (l : label) : option st :=
  match l with
  | LClone =>
    match handles s with
    | O => None
    | S _ => Some (mk_st (S (strong s)) (waits s) (waker s) (wwoken s) (fd s) (closes s) (S (handles s)) (ops s)
                         (forgotten s) (closers s) (droppers s))
    end
  | LOpStart =>
    match handles s with
    | O => None
    | S _ => Some (mk_st (S (strong s)) (waits s) (waker s) (wwoken s) (fd s) (closes s) (handles s) (S (ops s))
                         (forgotten s) (closers s) (droppers s))
    end
  | LOpFinish =>
    match ops s with
    | O => None
    | S n => Some (spawn_drop false (mk_st (strong s) (waits s) (waker s) (wwoken s) (fd s) (closes s) (handles s) n
                                           (forgotten s) (closers s) (droppers s)))
    end
  | LDropHandle =>
    match handles s with
    | O => None
    | S n => Some (spawn_drop false (mk_st (strong s) (waits s) (waker s) (wwoken s) (fd s) (closes s) n (ops s)
                                           (forgotten s) (closers s) (droppers s)))
    end
  | LDrop i => drop_step s i
  | LTake close =>
    match handles s with
    | O => None
    | S n => Some (mk_st (strong s) (waits s) (waker s) (wwoken s) (fd s) (closes s) n (ops s) (forgotten s)
                         (closers s ++ [mk_closer (if close then CUnpolled else CCreated) close false])
                         (droppers s))
    end
  | LPoll c => poll_step g s c
  | LFutDrop c => fut_drop g s c
  | LOwnerDrop c =>
    match nth_error (closers s) c with
    | Some x => match pc x with
                | CSome => if cf x then None else Some (close_fd s c CDone false)
                | _ => None
                end
    | None => None
    end
  | LKClose c =>
    match nth_error (closers s) c with
    | Some x => match pc x with
                | CClosing => Some (close_fd s c CClosed true)    (* completion wakes the future *)
                | CCancelled => Some (close_fd s c CDone false)
                | _ => None
                end
    | None => None
    end
  | LKCancel c =>
    match nth_error (closers s) c with
    | Some x => match pc x with
                | CCancelled =>
                  if cancelled_close_closes g then Some (close_fd s c CDone false)
                  else Some (set_closers s (upd (closers s) c (w_pc CDone)))
                | _ => None
                end
    | None => None
    end
  | LTryUnwrap =>
    match handles s with
    | O => None
    | S n =>
      if Nat.eqb (strong s) 1 then
        Some (mk_st 0 (waits s) (waker s) (wwoken s) FMoved (closes s) n (ops s) (forgotten s)
                    (closers s ++ [mk_closer CSome false false]) (droppers s))
      else Some s
    end
  end.

Fixpoint steps (g : cfg) (s : st) (ls : list label) : option st :=
  match ls with
  | [] => Some s
  | l :: r => match step g s l with Some s' => steps g s' r | None => None end
  end.

(* ---- observations ---------------------------------------------------- *)

Definition holds (p : cpc) : bool :=
  match p with CUnpolled | CCreated | CTry1 | CReg | CTry2 | CPending => true | _ => false end.
Definition owns (p : cpc) : bool :=
  match p with CSome | CClosing | CCancelled => true | _ => false end.
Definition finished (p : cpc) : bool :=
  match p with CDone | CGone => true | _ => false end.
Definition at_rest (p : cpc) : bool :=
  match p with CTry1 | CReg | CTry2 => false | _ => true end.
Definition is_pending (p : cpc) : bool := match p with CPending => true | _ => false end.
Definition dlive (d : dpc) : bool := match d with DDone => false | _ => true end.
Definition is_shared (f : fdst) : bool := match f with FShared => true | _ => false end.
Definition is_closed (f : fdst) : bool := match f with FClosed => true | _ => false end.

(* nobody is left: every handle, operation, Drop and future is gone *)
Definition quiescent (s : st) : bool :=
  Nat.eqb (handles s) 0 && Nat.eqb (ops s) 0
  && forallb (fun d => negb (dlive d)) (droppers s)
  && forallb (fun x => finished (pc x)) (closers s).

(* a closer is parked for good: Pending, sole owner, no wake-up pending, and
   nobody left who could wake it *)
Definition stranded (s : st) : bool :=
  existsb (fun x => is_pending (pc x)) (closers s)
  && negb (wwoken s) && Nat.eqb (strong s) 1 && Nat.eqb (handles s) 0 && Nat.eqb (ops s) 0
  && forallb (fun d => negb (dlive d)) (droppers s).

(* ---- the unsync scheduler: Drop and poll are not interleaved ----------- *)

Fixpoint saturate (g : cfg) (k : nat) (l : label) (s : st) : st :=
  match k with
  | O => s
  | S k' => match step g s l with Some s' => saturate g k' l s' | None => s end
  end.

(* run the Drop that was started last to its end (no other one is live) *)
Definition finish_drops (g : cfg) (s : st) : st :=
  saturate g 4 (LDrop (length (droppers s) - 1)) s.

(* does the poll of closer c return here? *)
Definition returns (x : closer) : bool :=
  match pc x with
  | CTry1 | CReg | CTry2 => false
  | CSome => negb (cf x)
  | _ => true
  end.

(* one poll of closer c up to its return *)
Fixpoint poll_run (g : cfg) (k : nat) (c : nat) (s : st) : st :=
  match k with
  | O => s
  | S k' =>
    match step g s (LPoll c) with
    | Some s' =>
      match nth_error (closers s') c with
      | Some x => if returns x then s' else poll_run g k' c s'
      | None => s'
      end
    | None => s
    end
  end.

Inductive ulabel :=
| UClone | UOpStart | UOpFinish | UDropHandle | UTake (close : bool)
| UPoll (c : nat) | UFutDrop (c : nat) | UOwnerDrop (c : nat)
| UKClose (c : nat) | UKCancel (c : nat) | UTryUnwrap.

Definition pollable (s : st) (c : nat) : bool :=
  match nth_error (closers s) c with
  | Some x => match pc x with CUnpolled | CCreated | CPending | CClosing | CClosed => true | _ => false end
  | None => false
  end.

Definition ustep (g : cfg) (s : st) (l : ulabel) : option st :=
  match l with
  | UClone => step g s LClone
  | UOpStart => step g s LOpStart
  | UOpFinish => option_map (finish_drops g) (step g s LOpFinish)
  | UDropHandle => option_map (finish_drops g) (step g s LDropHandle)
  | UTake b => step g s (LTake b)
  | UPoll c => if pollable s c then Some (finish_drops g (poll_run g 6 c s)) else None
  | UFutDrop c => option_map (finish_drops g) (step g s (LFutDrop c))
  | UOwnerDrop c => step g s (LOwnerDrop c)
  | UKClose c => step g s (LKClose c)
  | UKCancel c => step g s (LKCancel c)
  | UTryUnwrap => step g s LTryUnwrap
  end.

Fixpoint usteps (g : cfg) (s : st) (ls : list ulabel) : option st :=
  match ls with
  | [] => Some s
  | l :: r => match ustep g s l with Some s' => usteps g s' r | None => None end
  end.

(* ---------------------------------------------------------------------- *)
(* Part 2: a descriptor-producing operation (Accept / OpenFile /            *)
(* CreateSocket / Pipe): compio-runtime/src/future/future.rs (Submit),     *)
(* compio-driver/src/lib.rs (push, Entry::notify), key.rs (set_result),    *)
(* sys/op/socket/{iour,unix}.rs, sys/op/fs/iour.rs, sys/op/unix.rs          *)
(* (set_result / call adopt the new descriptor into the operation),        *)
(* sys/driver/iour/mod.rs (cancel, Drop).                                   *)

Inductive pfut := PIdle | PSubmitted | PDropped | PTaken.
Inductive pkern :=
| KNone          (* nothing submitted *)
| KQueued        (* io_uring: SQE in the submission queue *)
| KInFlight      (* the kernel / the poller owns the request *)
| KDoneOk        (* completed with a new descriptor; completion not yet reaped *)
| KDoneErr       (* completed without a descriptor (error / cancelled) *)
| KReaped.       (* completion processed (set_result done) or never needed *)
Inductive pfd :=
| PNone          (* no descriptor was created *)
| PKernel        (* created; only the unreaped completion names it *)
| POp            (* adopted by the operation storage (accepted_fd / opened_fd / fds) *)
| PCaller        (* delivered to the caller *)
| PClosed
| PLost.         (* open, and nothing refers to it any more *)

Record pst := mk_pst {
  uring : bool;          (* io_uring driver (true) / polling driver (false) *)
  drain_adopts : bool;   (* Driver::drop adopts the results of completions it drains *)
  pf : pfut;
  pk : pkern;
  pd : pfd;
  ready : bool;          (* the source is ready: the request can complete now
                            (pending connection / file exists / always for socket, pipe) *)
  cancel_req : bool;     (* AsyncCancel queued for it (io_uring) *)
  user_ref : bool;       (* the future's Key *)
  drv_ref : bool;        (* the driver's reference (user_data / fd queue) *)
  driver_alive : bool
}.

Definition pinit (ur adopt rdy : bool) : pst :=
  mk_pst ur adopt PIdle KNone PNone rdy false false false true.

Inductive plabel :=
| PPoll          (* the future is polled *)
| PFutDrop       (* the future is dropped *)
| PReady         (* environment: the source becomes ready (a client connects) *)
| PDrive         (* Runtime::poll_with: submit queued entries, reap completions *)
| PCallerDrop    (* the caller drops the descriptor it received *)
| PDriverDrop.   (* the runtime / proactor is dropped *)

Definition w_pd (d : pfd) (s : pst) :=
  mk_pst (uring s) (drain_adopts s) (pf s) (pk s) d (ready s) (cancel_req s) (user_ref s) (drv_ref s) (driver_alive s).

(* the storage is released when the last reference goes: an adopted descriptor is closed *)
Definition settle (s : pst) : pst :=
  if negb (user_ref s) && negb (drv_ref s) then
    match pd s with POp => w_pd PClosed s | _ => s end
  else s.

(* the completion is processed: set_result adopts the descriptor, the
   driver's reference goes away *)
Definition reap (s : pst) : pst :=
  match pk s with
  | KDoneOk =>
    settle (mk_pst (uring s) (drain_adopts s) (pf s) KReaped POp (ready s) (cancel_req s) (user_ref s) false (driver_alive s))
  | KDoneErr =>
    settle (mk_pst (uring s) (drain_adopts s) (pf s) KReaped (pd s) (ready s) (cancel_req s) (user_ref s) false (driver_alive s))
  | _ => s
  end.

(* the kernel looks at a request it owns *)
Definition kernel_run (s : pst) : pst :=
  match pk s with
  | KInFlight =>
    if ready s then
      mk_pst (uring s) (drain_adopts s) (pf s) KDoneOk PKernel false (cancel_req s) (user_ref s) (drv_ref s) (driver_alive s)
    else if cancel_req s then
      mk_pst (uring s) (drain_adopts s) (pf s) KDoneErr (pd s) (ready s) false (user_ref s) (drv_ref s) (driver_alive s)
    else s
  | _ => s
  end.

Definition pstep (s : pst) (l : plabel) : option pst :=
  match l with
  | PPoll =>
    if negb (driver_alive s) then None else
    match pf s with
    | PIdle =>
      (* submit_raw -> Proactor::push *)
      if uring s then
        Some (mk_pst true (drain_adopts s) PSubmitted KQueued (pd s) (ready s) false true true true)
      else if ready s then
        (* polling driver: pre_submit runs the syscall; Ready at once: delivered *)
        Some (mk_pst false (drain_adopts s) PTaken KReaped PCaller false false false false true)
      else
        Some (mk_pst false (drain_adopts s) PSubmitted KInFlight (pd s) false false true true true)
    | PSubmitted =>
      match pk s with
      | KReaped =>
        (* poll_task -> pop: the result and the operation are handed over *)
        Some (mk_pst (uring s) (drain_adopts s) PTaken KReaped
                     (match pd s with POp => PCaller | d => d end)
                     (ready s) (cancel_req s) false (drv_ref s) true)
      | _ => Some s
      end
    | _ => None
    end
  | PFutDrop =>
    match pf s with
    | PIdle => Some (mk_pst (uring s) (drain_adopts s) PDropped (pk s) (pd s) (ready s) (cancel_req s) false (drv_ref s) (driver_alive s))
    | PSubmitted =>
      (* Submit::drop -> Proactor::cancel(key): the handle is released; a request
         that has no result yet is asked to stop *)
      let pending := match pk s with KQueued | KInFlight | KDoneOk | KDoneErr => true | _ => false end in
      let s1 := mk_pst (uring s) (drain_adopts s) PDropped
                       (if negb (uring s) && pending then KReaped else pk s)   (* polling: removed from the fd queue *)
                       (pd s) (ready s)
                       (uring s && pending && driver_alive s) false
                       (if negb (uring s) then false else drv_ref s) (driver_alive s) in
      Some (settle s1)
    | _ => None
    end
  | PReady =>
    if ready s then None else
    let s1 := mk_pst (uring s) (drain_adopts s) (pf s) (pk s) (pd s) true (cancel_req s) (user_ref s) (drv_ref s) (driver_alive s) in
    (* io_uring: a request the kernel owns completes at once *)
    Some (if uring s then kernel_run s1 else s1)
  | PDrive =>
    if negb (driver_alive s) then None else
    if uring s then
      (* submit: queued entries reach the kernel in order (the request, then the cancel) *)
      let s1 := match pk s with
                | KQueued => kernel_run (mk_pst true (drain_adopts s) (pf s) KInFlight (pd s) (ready s) (cancel_req s) (user_ref s) (drv_ref s) true)
                | _ => kernel_run s
                end in
      Some (reap (mk_pst true (drain_adopts s1) (pf s1) (pk s1) (pd s1) (ready s1) false (user_ref s1) (drv_ref s1) true))
    else
      (* polling driver: a ready fd runs the syscall inside the driver (operate) *)
      match pk s with
      | KInFlight => if ready s then Some (reap (kernel_run s)) else Some s
      | _ => Some s
      end
  | PCallerDrop =>
    match pd s with
    | PCaller => Some (w_pd PClosed s)
    | _ => None
    end
  | PDriverDrop =>
    if negb (driver_alive s) then None else
    (* the Submit future keeps the proactor alive (Rc): the driver goes only after it *)
    if match pf s with PSubmitted => true | _ => false end then None else
    let s0 := mk_pst (uring s) (drain_adopts s) (pf s) (pk s) (pd s) (ready s) false (user_ref s) (drv_ref s) false in
    match pk s with
    | KDoneOk =>
      (* io_uring Driver::drop: "drain completed CQEs": the key is released, the
         result is adopted only when [drain_adopts] *)
      if drain_adopts s then Some (reap s0)
      else Some (settle (mk_pst (uring s) (drain_adopts s) (pf s) KReaped PLost (ready s) false (user_ref s) false false))
    | KDoneErr => Some (reap s0)
    | KQueued | KInFlight =>
      (* never submitted / the ring is closed: the kernel gives the request up *)
      Some (settle (mk_pst (uring s) (drain_adopts s) (pf s) KReaped (pd s) (ready s) false (user_ref s) false false))
    | _ => Some s0
    end
  end.

Fixpoint psteps (s : pst) (ls : list plabel) : option pst :=
  match ls with
  | [] => Some s
  | l :: r => match pstep s l with Some s' => psteps s' r | None => None end
  end.

(* an open descriptor nobody in the program holds *)
Definition p_unheld_open (s : pst) : bool :=
  match pd s with PKernel | POp | PLost => true | _ => false end.

(* everything the program could do has been done *)
Definition p_settled (s : pst) : bool :=
  match pf s with PDropped | PTaken => true | _ => false end
  && match pk s with KNone | KReaped => true | _ => false end
  && match pd s with PCaller => false | _ => true end.

(* ---------------------------------------------------------------------- *)
(* Part 1b: WHICH waker is woken.  The waiting future may be polled under   *)
(* different wakers (moved into another task, polled by hand and then       *)
(* awaited).  WakerSlot::register stores the waker of the CURRENT poll on   *)
(* every poll that returns Pending (fd.rs: `this.waker.register(cx.waker())`*)
(* ; a Submit future does the same through Key::set_waker), wake() takes    *)
(* the stored one.  Wakers are named (closer, generation).  The wrapper     *)
(* follows the unsync macro steps of Part 1 and reads register / wake off   *)
(* the base state before and after the step.                                *)

Record wst := mk_wst {
  base : st;
  gen : nat -> nat;        (* generation of the waker closer c is polled with next *)
  lgen : nat -> nat;       (* generation its latest poll used *)
  slot : nat * nat;        (* the waker stored in the slot (meaningful while [waker base]) *)
  wok : nat * nat          (* the waker that holds the pending notification (while [wwoken base]) *)
}.

Definition winit : wst := mk_wst init (fun _ => 0) (fun _ => 0) (0, 0) (0, 0).

Inductive wulabel :=
| WU (l : ulabel)
| WSwitch (c : nat).      (* closer c's future gets a fresh waker (moved to another task) *)

Definition fset (f : nat -> nat) (k v : nat) : nat -> nat := fun i => if Nat.eqb i k then v else f i.

Definition pc_at (s : st) (c : nat) : option cpc := option_map pc (nth_error (closers s) c).

Definition wustep (g : cfg) (ws : wst) (l : wulabel) : option wst :=
  match l with
  | WSwitch c =>
    match pc_at (base ws) c with
    | Some (CUnpolled | CCreated | CPending | CClosing | CClosed) =>
      Some (mk_wst (base ws) (fset (gen ws) c (S (gen ws c))) (lgen ws) (slot ws) (wok ws))
    | _ => None
    end
  | WU ul =>
    match ustep g (base ws) ul with
    | None => None
    | Some b' =>
      let lg := match ul with UPoll c => fset (lgen ws) c (gen ws c) | _ => lgen ws end in
      let slot' := match ul with
                   | UPoll c => match pc_at b' c with Some CPending => (c, lg c) | _ => slot ws end
                   | _ => slot ws
                   end in
      let wok' :=
        if waker (base ws) && negb (waker b') then slot ws    (* wake(): the stored waker *)
        else match ul with
             | UKClose c => match pc_at (base ws) c with
                            | Some CClosing => (c, lgen ws c)   (* completion wakes the future's latest waker *)
                            | _ => wok ws
                            end
             | _ => wok ws
             end in
      Some (mk_wst b' (gen ws) lg slot' wok')
    end
  end.

Fixpoint wusteps (g : cfg) (ws : wst) (ls : list wulabel) : option wst :=
  match ls with
  | [] => Some ws
  | l :: r => match wustep g ws l with Some ws' => wusteps g ws' r | None => None end
  end.

(* ---------------------------------------------------------------------- *)
(* Part 3: multishot accept (compio-net/src/incoming/unix.rs Incoming,     *)
(* compio-runtime/src/future/stream.rs SubmitMulti,                         *)
(* compio-driver/src/sys/op/multishot/{iour,poll}.rs AcceptMulti).          *)
(* io_uring: one request accepts every connection; each completion (MORE)   *)
(* is adopted by push_multishot into the operation's queue of sockets and   *)
(* handed out by pop_multishot.  Polling driver: AcceptMulti is one accept  *)
(* per submission; Incoming submits again after each connection.            *)

Inductive mstream := MIdle | MPolled | MDropped.
Inductive mkern :=
| MKNone        (* no request in the kernel / poller *)
| MKQueued      (* io_uring: SQE queued, not submitted *)
| MKArmed       (* the request is live *)
| MKFinal.      (* io_uring: terminated, final completion not yet reaped *)

Record mst := mk_mst {
  m_uring : bool;
  ms : mstream;
  mk : mkern;
  backlog : nat;     (* connections the kernel has not accepted yet (no descriptor) *)
  cq : nat;          (* accepted; descriptor named only by an unreaped completion *)
  queue : nat;       (* adopted into the operation (multishots queue / accepted_fd), not yet pulled *)
  held : nat;        (* delivered to the user and still held *)
  mclosed : nat;
  mlost : nat;       (* open with no owner *)
  accepted : nat;    (* ghost: descriptors the kernel created *)
  m_cancel : bool;
  m_user : bool;     (* the stream's Key *)
  m_drv : bool;      (* the driver's reference *)
  m_alive : bool
}.

Definition minit (ur : bool) : mst :=
  mk_mst ur MIdle MKNone 0 0 0 0 0 0 0 false false false true.

Inductive mlabel :=
| MPoll          (* poll_next once *)
| MDrop          (* the stream is dropped *)
| MConnect       (* a peer connects *)
| MDrive         (* driver turn *)
| MUserDrop      (* the user drops a delivered connection *)
| MDriverDrop.   (* the runtime is dropped *)

(* storage released: the queued sockets are dropped = closed *)
Definition msettle (s : mst) : mst :=
  if negb (m_user s) && negb (m_drv s) then
    mk_mst (m_uring s) (ms s) (mk s) (backlog s) (cq s) 0 (held s) (mclosed s + queue s) (mlost s)
           (accepted s) (m_cancel s) false false (m_alive s)
  else s.

(* a live io_uring request accepts everything that is pending *)
Definition kaccept (s : mst) : mst :=
  match mk s with
  | MKArmed =>
    if m_uring s then
      mk_mst true (ms s) MKArmed 0 (cq s + backlog s) (queue s) (held s) (mclosed s) (mlost s)
             (accepted s + backlog s) (m_cancel s) (m_user s) (m_drv s) (m_alive s)
    else s
  | _ => s
  end.

Definition mstep (s : mst) (l : mlabel) : option mst :=
  match l with
  | MPoll =>
    if negb (m_alive s) then None else
    match ms s with
    | MDropped => None
    | _ =>
      if m_user s then
        (* an operation exists: pull a queued connection *)
        match queue s with
        | S q =>
          if m_uring s then
            Some (mk_mst true MPolled (mk s) (backlog s) (cq s) q (S (held s)) (mclosed s) (mlost s)
                         (accepted s) (m_cancel s) true (m_drv s) true)
          else
            (* polling: the finished operation is consumed (try_take + into_inner) *)
            Some (mk_mst false MPolled MKNone (backlog s) (cq s) q (S (held s)) (mclosed s) (mlost s)
                         (accepted s) false false false true)
        | O => Some (mk_mst (m_uring s) MPolled (mk s) (backlog s) (cq s) 0 (held s) (mclosed s) (mlost s)
                            (accepted s) (m_cancel s) true (m_drv s) true)
        end
      else if m_uring s then
        (* submit_multi: SQE queued *)
        Some (mk_mst true MPolled MKQueued (backlog s) (cq s) (queue s) (held s) (mclosed s) (mlost s)
                     (accepted s) false true true true)
      else
        match backlog s with
        | S b =>
          (* polling: pre_submit accepts at once; delivered *)
          Some (mk_mst false MPolled MKNone b (cq s) (queue s) (S (held s)) (mclosed s) (mlost s)
                       (S (accepted s)) false false false true)
        | O =>
          Some (mk_mst false MPolled MKArmed 0 (cq s) (queue s) (held s) (mclosed s) (mlost s)
                       (accepted s) false true true true)
        end
    end
  | MDrop =>
    match ms s with
    | MDropped => None
    | _ =>
      let live := match mk s with MKQueued | MKArmed => true | _ => false end in
      if m_uring s then
        Some (msettle (mk_mst true MDropped (mk s) (backlog s) (cq s) (queue s) (held s) (mclosed s) (mlost s)
                              (accepted s) (m_user s && live && m_alive s) false (m_drv s) (m_alive s)))
      else
        (* polling: cancel removes the operation from the fd queue *)
        Some (msettle (mk_mst false MDropped MKNone (backlog s) (cq s) (queue s) (held s) (mclosed s) (mlost s)
                              (accepted s) false false false (m_alive s)))
    end
  | MConnect =>
    Some (kaccept (mk_mst (m_uring s) (ms s) (mk s) (S (backlog s)) (cq s) (queue s) (held s) (mclosed s) (mlost s)
                          (accepted s) (m_cancel s) (m_user s) (m_drv s) (m_alive s)))
  | MDrive =>
    if negb (m_alive s) then None else
    if m_uring s then
      (* submit (request first, then the cancel), then reap *)
      let s1 := match mk s with
                | MKQueued => kaccept (mk_mst true (ms s) MKArmed (backlog s) (cq s) (queue s) (held s) (mclosed s)
                                              (mlost s) (accepted s) (m_cancel s) (m_user s) (m_drv s) true)
                | _ => s
                end in
      let s2 := if m_cancel s1 && match mk s1 with MKArmed => true | _ => false end
                then mk_mst true (ms s1) MKFinal (backlog s1) (cq s1) (queue s1) (held s1) (mclosed s1) (mlost s1)
                            (accepted s1) false (m_user s1) (m_drv s1) true
                else s1 in
      let fin := match mk s2 with MKFinal => true | _ => false end in
      Some (msettle (mk_mst true (ms s2) (if fin then MKNone else mk s2) (backlog s2) 0 (queue s2 + cq s2) (held s2)
                            (mclosed s2) (mlost s2) (accepted s2) false (m_user s2)
                            (if fin then false else m_drv s2) true))
    else
      match mk s, backlog s with
      | MKArmed, S b =>
        (* operate(): one accept, adopted by the operation, which completes *)
        Some (msettle (mk_mst false (ms s) MKNone b (cq s) (S (queue s)) (held s) (mclosed s) (mlost s)
                              (S (accepted s)) false (m_user s) false true))
      | _, _ => Some s
      end
  | MUserDrop =>
    match held s with
    | S h => Some (mk_mst (m_uring s) (ms s) (mk s) (backlog s) (cq s) (queue s) h (S (mclosed s)) (mlost s)
                          (accepted s) (m_cancel s) (m_user s) (m_drv s) (m_alive s))
    | O => None
    end
  | MDriverDrop =>
    if negb (m_alive s) then None else
    (* a polled, live stream keeps the proactor alive *)
    if match ms s with MPolled => true | _ => false end then None else
    (* io_uring Driver::drop: unreaped completions are discarded, remaining keys released *)
    Some (msettle (mk_mst (m_uring s) (ms s) MKNone (backlog s) 0 (queue s) (held s) (mclosed s) (mlost s + cq s)
                          (accepted s) false (m_user s) false false))
  end.

Fixpoint msteps (s : mst) (ls : list mlabel) : option mst :=
  match ls with
  | [] => Some s
  | l :: r => match mstep s l with Some s' => msteps s' r | None => None end
  end.

Definition m_unheld (s : mst) : nat := cq s + queue s + mlost s.

(* nothing is left to run: stream dropped, user holds nothing, and the driver
   has either gone or has no request and no unreaped completion *)
Definition m_settled (s : mst) : bool :=
  match ms s with MDropped => true | _ => false end
  && Nat.eqb (held s) 0
  && (negb (m_alive s) || (match mk s with MKNone => true | _ => false end && Nat.eqb (cq s) 0)).
