(* RsSem.v — meaning of the Rust primitives that tools/rs2v.py emits (the
   translator's run-time library).  Hand written, no proofs here.

   Integers are unbounded N (usize/u64/u8 values are < 2^width by the
   hypotheses of the theorems that use them); the only width-dependent
   primitive is the bitwise complement `!x`. *)
From Coq Require Import NArith.

(* `!x` on an unsigned integer of [width] bits *)
Definition not_w (width : N) (x : N) : N := N.lnot x width.

(* checked `a - b` on N (debug build), as Base.usub on nat *)
From Compio.Model Require Import Base.
Definition usubN (a b : N) : R N :=
  if N.leb b a then Ok (a - b)%N else Panic P_SUB_OVERFLOW.
