(* PipeSpec.v — reference semantics of an anonymous pipe (shared by C08 and C20).
   No proofs in this file.

   A pipe is a FIFO byte queue with a capacity.  write(2) accepts as many bytes
   as fit (a non-blocking or partial write; a blocking write is the iteration
   of these steps), and would block when nothing fits; read(2) returns up to
   the requested count, would block on an empty pipe whose write end is still
   open, and returns 0 bytes (end of file) on an empty pipe whose write end is
   closed.  Writing after the read end was closed is EPIPE. *)
From Compio.Model Require Import Base.

Definition E_BROKEN_PIPE : N := 5.   (* harness/common code_of(BrokenPipe) *)

Record pipe := mkpipe {
  pq : list byte;        (* bytes in flight, oldest first *)
  pcap : nat;            (* capacity in bytes              *)
  wclosed : bool;        (* every write end closed         *)
  rclosed : bool         (* every read end closed          *)
}.

Definition pipe_new (cap : nat) : pipe := mkpipe [] cap false false.
Definition pipe_free (p : pipe) : nat := pcap p - length (pq p).
Definition pipe_with_q (p : pipe) (q : list byte) : pipe :=
  mkpipe q (pcap p) (wclosed p) (rclosed p).
Definition pipe_close_w (p : pipe) : pipe := mkpipe (pq p) (pcap p) true (rclosed p).
Definition pipe_close_r (p : pipe) : pipe := mkpipe (pq p) (pcap p) (wclosed p) true.

Inductive wres := WOk (n : nat) | WBlock | WErr (e : N).
Inductive rres := ROk (bs : list byte) | RBlock.

(* one write(2) of [d] *)
Definition pipe_write (p : pipe) (d : list byte) : pipe * wres :=
  match d with
  | [] => (p, WOk 0)     (* a zero-length write returns 0 at once, even without readers *)
  | _ =>
    if rclosed p then (p, WErr E_BROKEN_PIPE) else
    let k := Nat.min (length d) (pipe_free p) in
    if k =? 0 then (p, WBlock)
    else (pipe_with_q p (pq p ++ firstn k d), WOk k)
  end.

(* one read(2) of at most [n] bytes; [ROk []] with n > 0 is end of file *)
Definition pipe_read (p : pipe) (n : nat) : pipe * rres :=
  if n =? 0 then (p, ROk []) else
  match pq p with
  | [] => if wclosed p then (p, ROk []) else (p, RBlock)
  | _ => (pipe_with_q p (skipn n (pq p)), ROk (firstn n (pq p)))
  end.

Definition pipe_at_eof (p : pipe) : bool :=
  match pq p with [] => wclosed p | _ => false end.
