(* RunDRV.v — history acceptor for the driver family (C01, C02, C05).
   Input: [driver (0 = io_uring, 1 = polling); then triples (kind, key, arg)].
   Output: [1; number of keys; all storage freed?] when every event is a step of
   the model, else [0; index of the first rejected event; its kind];
   [3; index; kind] when the waker discipline (ResultSlot.v) rejects,
   [4; index; kind] when the polling driver's queue model (PollDrv.v) rejects. *)
From Compio.Model Require Import Base DriverKeys ResultSlot PollDrv.

Definition dec_ev (kind key arg : N) : ev :=
  (* an id that is not a small key number (the harness prints 9999999 for an
     address it never saw allocated) is an anomaly, never converted to nat *)
  if N.ltb 100000 key then EKeyFree 100000 else
  let k := nn key in
  match kind with
  | 1%N => EKeyNew k
  | 2%N => EKeyFree k
  | 3%N => ESubmit k
  | 4%N => ECqeMore k
  | 5%N => ECqeFinal k
  | 6%N => ESetResult k
  | 7%N => ERingClosed
  | 8%N => EDropBegin
  | 9%N => EDropEnd
  | 10%N => ECancelPush k (N.eqb arg 1)
  | 11%N => EBlockingDispatch k
  | 12%N => EBlockingStart k
  | 13%N => EBlockingEnd k
  | 14%N => EPollQueue k
  | 15%N => EPollCancel k
  | 16%N => EDropDrain k
  | 17%N => EPollArm k
  | 19%N => EPollEvent k
  | 101%N => EUserPop k (N.eqb arg 1)
  | 102%N => EUserDrop k
  | 103%N => EUserCancel k
  | 104%N => EUserToken k
  | 105%N => EUserPushReady k
  | _ => EOther
  end.

Fixpoint dec_evs (fuel : nat) (l : list N) : option (list ev) :=
  match fuel with
  | O => match l with [] => Some [] | _ => None end
  | S f =>
    match l with
    | [] => Some []
    | kind :: key :: arg :: r =>
      match dec_evs f r with Some es => Some (dec_ev kind key arg :: es) | None => None end
    | _ => None
    end
  end.

Definition run_drv (l : list N) : list N :=
  match l with
  | drv :: r =>
    match dec_evs (length r) r with
    | None => BAD_CASE
    | Some es =>
      match replay (init (N.eqb drv 0)) es 0 with
      | inl s =>
        (* the key model accepts: now the waker discipline of the result slots *)
        match waccept r with
        | None =>
          (* ... and, on the polling driver, the per-descriptor queues *)
          match (if N.eqb drv 0 then None else paccept r) with
          | None => [1%N; NN (length (keys s)); if quiescent s then 1%N else 0%N]
          | Some i => [4%N; NN i; nth (3 * i) r 0%N]
          end
        | Some i => [3%N; NN i; nth (3 * i) r 0%N]
        end
      | inr i => [0%N; NN i; nth (3 * i) r 0%N]
      end
    end
  | [] => BAD_CASE
  end.
