(* PollDrv.v — the per-descriptor queues of the polling driver
   (compio-driver/src/sys/driver/poll/mod.rs: FdQueue, submit, submit_front,
   renew, remove_one, poll_one; sys/extra/poll.rs: Track / handle_event / reset).

   State: the registry (descriptor -> read queue, write queue), what the OS
   poller holds per descriptor (user data + interest flags; one-shot: an event
   disables the registration until it is modified), and per operation the list
   of descriptors it waits for with their "ready" marks.

   Every function returns the new state together with the list of calls made
   to the OS poller; the history acceptor (RunDRV.v) compares them with the
   calls the real driver made.                                               *)
From Compio.Model Require Import Base.

Inductive dir := Rd | Wr.
Definition dir_eqb (a b : dir) : bool :=
  match a, b with Rd, Rd | Wr, Wr => true | _, _ => false end.

Record fdq := mk_fdq { rq : list nat; wq : list nat }.
Definition q_empty (q : fdq) : bool :=
  match rq q, wq q with [], [] => true | _, _ => false end.

(* FdQueue::event: interest = the non-empty queues; user data = the front of the
   write queue when there is one, else the front of the read queue *)
Record armed := mk_armed { a_key : nat; a_r : bool; a_w : bool }.
Definition event_of (q : fdq) : armed :=
  let e1 := match rq q with k :: _ => mk_armed k true false | [] => mk_armed 0 false false end in
  match wq q with k :: _ => mk_armed k (a_r e1) true | [] => e1 end.

Definition armed_eqb (a b : armed) : bool :=
  Nat.eqb (a_key a) (a_key b) && Bool.eqb (a_r a) (a_r b) && Bool.eqb (a_w a) (a_w b).

(* calls to the OS poller *)
Inductive call :=
| CArm (fd : nat) (a : armed)     (* add / modify *)
| CDisarm (fd : nat).             (* delete *)

Record track := mk_track { t_fd : nat; t_dir : dir; t_ready : bool }.

Record pst := mk_pst {
  reg : list (nat * fdq);         (* registry: only descriptors with a queue *)
  pol : list (nat * armed);       (* enabled registrations of the OS poller *)
  trk : list (nat * list track)   (* per operation: what it waits for *)
}.

Definition pinit : pst := mk_pst [] [] [].

(* ---- association lists ---- *)
Fixpoint alookup {A} (m : list (nat * A)) (k : nat) : option A :=
  match m with
  | [] => None
  | (k0, v) :: r => if Nat.eqb k0 k then Some v else alookup r k
  end.

Fixpoint aremove {A} (m : list (nat * A)) (k : nat) : list (nat * A) :=
  match m with
  | [] => []
  | (k0, v) :: r => if Nat.eqb k0 k then aremove r k else (k0, v) :: aremove r k
  end.

Definition aset {A} (m : list (nat * A)) (k : nat) (v : A) : list (nat * A) :=
  (k, v) :: aremove m k.

Definition get_q (s : pst) (fd : nat) : fdq :=
  match alookup (reg s) fd with Some q => q | None => mk_fdq [] [] end.

Definition set_reg (s : pst) (r : list (nat * fdq)) : pst := mk_pst r (pol s) (trk s).
Definition set_pol (s : pst) (p : list (nat * armed)) : pst := mk_pst (reg s) p (trk s).
Definition set_trk (s : pst) (t : list (nat * list track)) : pst := mk_pst (reg s) (pol s) t.

Definition push_back (q : fdq) (k : nat) (d : dir) : fdq :=
  match d with Rd => mk_fdq (rq q ++ [k]) (wq q) | Wr => mk_fdq (rq q) (wq q ++ [k]) end.
Definition push_front (q : fdq) (k : nat) (d : dir) : fdq :=
  match d with Rd => mk_fdq (k :: rq q) (wq q) | Wr => mk_fdq (rq q) (k :: wq q) end.
Definition remove_key (q : fdq) (k : nat) : fdq :=
  mk_fdq (filter (fun x => negb (Nat.eqb x k)) (rq q))
         (filter (fun x => negb (Nat.eqb x k)) (wq q)).

(* arm the poller with the queue's event *)
Definition arm (s : pst) (fd : nat) : pst * list call :=
  let e := event_of (get_q s fd) in
  (set_pol s (aset (pol s) fd e), [CArm fd e]).

(* Driver::submit / submit_front (the poller call succeeds) *)
Definition submit (s : pst) (k fd : nat) (d : dir) (front : bool) : pst * list call :=
  let q := get_q s fd in
  let q' := if front then push_front q k d else push_back q k d in
  arm (set_reg s (aset (reg s) fd q')) fd.

(* re-submission of every descriptor of an operation (front = true in poll_one) *)
Fixpoint submit_all (s : pst) (k : nat) (args : list (nat * dir)) (front : bool)
  : pst * list call :=
  match args with
  | [] => (s, [])
  | (fd, d) :: r =>
    let '(s1, c1) := submit s k fd d front in
    let '(s2, c2) := submit_all s1 k r front in
    (s2, c1 ++ c2)
  end.

Definition tracks (s : pst) (k : nat) : list track :=
  match alookup (trk s) k with Some t => t | None => [] end.

(* an operation is pushed with its wait arguments: each is tracked and queued *)
Definition push_arg (s : pst) (k fd : nat) (d : dir) : pst * list call :=
  submit (set_trk s (aset (trk s) k (tracks s k ++ [mk_track fd d false]))) k fd d false.

Fixpoint push_op (s : pst) (k : nat) (args : list (nat * dir)) : pst * list call :=
  match args with
  | [] => (s, [])
  | (fd, d) :: r =>
    let '(s1, c1) := push_arg s k fd d in
    let '(s2, c2) := push_op s1 k r in
    (s2, c1 ++ c2)
  end.

(* Driver::renew with the queue's current event *)
Definition renew (s : pst) (fd : nat) : pst * list call :=
  let q := get_q s fd in
  if q_empty q then
    (mk_pst (aremove (reg s) fd) (aremove (pol s) fd) (trk s), [CDisarm fd])
  else arm s fd.

(* Driver::remove_one: nothing happens for a descriptor without a queue *)
Definition remove_one (s : pst) (k fd : nat) : pst * list call :=
  match alookup (reg s) fd with
  | None => (s, [])
  | Some q =>
    let q' := remove_key q k in
    renew (set_reg s (aset (reg s) fd q')) fd
  end.

(* Driver::cancel for an fd operation: remove_one on each of its descriptors *)
Fixpoint remove_all (s : pst) (k : nat) (fds : list nat) : pst * list call :=
  match fds with
  | [] => (s, [])
  | fd :: r =>
    let '(s1, c1) := remove_one s k fd in
    let '(s2, c2) := remove_all s1 k r in
    (s2, c1 ++ c2)
  end.

(* FdQueue::pop_interest *)
Definition pop_interest (q : fdq) (r w : bool) : option (nat * dir * fdq) :=
  match (if r then rq q else []) with
  | k :: rest => Some (k, Rd, mk_fdq rest (wq q))
  | [] =>
    match (if w then wq q else []) with
    | k :: rest => Some (k, Wr, mk_fdq (rq q) rest)
    | [] => None
    end
  end.

(* Extra::handle_event: mark the descriptor ready; are all of them ready now? *)
Definition mark (ts : list track) (fd : nat) : list track :=
  map (fun t => if Nat.eqb (t_fd t) fd then mk_track (t_fd t) (t_dir t) true else t) ts.
Definition all_ready (ts : list track) : bool := forallb t_ready ts.
Definition reset (ts : list track) : list track :=
  map (fun t => mk_track (t_fd t) (t_dir t) false) ts.

(* Driver::poll_one in three steps.
   1. the one-shot registration fired; the head of a queue is taken and the
      descriptor marked ready in the operation's tracking *)
Definition p_pop (s : pst) (fd : nat) (r w : bool) : pst * option nat :=
  let s := set_pol s (aremove (pol s) fd) in
  match pop_interest (get_q s fd) r w with
  | None => (s, None)
  | Some (k, _, q') =>
    let s1 := set_reg s (aset (reg s) fd q') in
    (set_trk s1 (aset (trk s1) k (mark (tracks s1 k) fd)), Some k)
  end.

(* 2. the operation is attempted when all its descriptors are ready.
      Ready: it is complete.  Pending: marks forgotten, back to the FRONT of
      every queue.  Returns the completed operation, if any. *)
Definition p_operate (s : pst) (k : nat) (ready : bool) : pst * list call * option nat :=
  if ready then (set_trk s (aremove (trk s) k), [], Some k)
  else
    let ts' := reset (tracks s k) in
    let s1 := set_trk s (aset (trk s) k ts') in
    let '(s2, c) := submit_all s1 k (map (fun t => (t_fd t, t_dir t)) ts') true in
    (s2, c, None).

(* 3. renew.  [ready] is what operate() answers if the operation is attempted *)
Definition poll_one (s : pst) (fd : nat) (r w ready : bool)
  : pst * list call * option nat :=
  match p_pop s fd r w with
  | (s1, None) => let '(s2, c) := renew s1 fd in (s2, c, None)
  | (s1, Some k) =>
    if all_ready (tracks s1 k) then
      let '(s2, c1, done) := p_operate s1 k ready in
      let '(s3, c2) := renew s2 fd in
      (s3, c1 ++ c2, done)
    else
      let '(s2, c) := renew s1 fd in (s2, c, None)
  end.

(* ---- the invariant the driver relies on -------------------------------- *)

(* every registry entry has a non-empty queue, and the poller holds exactly the
   queue's event for it (enabled); nothing else is registered *)
Definition fd_ok (s : pst) (fd : nat) : Prop :=
  match alookup (reg s) fd with
  | Some q => q_empty q = false /\ alookup (pol s) fd = Some (event_of q)
  | None => alookup (pol s) fd = None
  end.

Definition PInv (s : pst) : Prop := forall fd, fd_ok s fd.

(* operations of the driver thread, for "every reachable state" *)
Inductive pop_ :=
| OPush (k : nat) (args : list (nat * dir))
| OCancel (k : nat) (fds : list nat)
| OEvent (fd : nat) (r w ready : bool).

Definition pstep (s : pst) (o : pop_) : pst :=
  match o with
  | OPush k args => fst (push_op s k args)
  | OCancel k fds => fst (remove_all s k fds)
  | OEvent fd r w ready => fst (fst (poll_one s fd r w ready))
  end.

(* ---- acceptor for the observed history (polling driver) ------------------
   Events (kind, key, arg) as printed by the harness; for kinds 41-46 the key
   field is id+1 (0 = none), arg = fd + 2^32 * flags.                          *)

Record ast := mk_ast {
  a_s : pst;
  a_exp : list call;          (* poller calls the model made, not yet observed *)
  a_ev : bool * bool;         (* flags of the readiness event being handled *)
  a_cur : option nat;         (* poll_one is running for this descriptor *)
  a_op : option nat;          (* ... and took this operation *)
  a_off : bool                (* the driver is being dropped: stop *)
}.

Definition ainit : ast := mk_ast pinit [] (false, false) None None false.

Definition call_eqb (a b : call) : bool :=
  match a, b with
  | CArm f1 e1, CArm f2 e2 => Nat.eqb f1 f2 && armed_eqb e1 e2
  | CDisarm f1, CDisarm f2 => Nat.eqb f1 f2
  | _, _ => false
  end.

Definition two32 : N := 4294967296%N.
Definition lo (a : N) : nat := N.to_nat (N.modulo a two32).
Definition hi (a : N) : N := N.div a two32.
Definition bit0 (a : N) : bool := N.odd a.
Definition bit1 (a : N) : bool := N.odd (N.div a 2).

(* an observed poller call: expected by the model, or (inside poll_one) the
   closing renew *)
Definition observe (a : ast) (c : call) (fd : nat) : option ast :=
  match a_exp a with
  | e :: r => if call_eqb e c then Some (mk_ast (a_s a) r (a_ev a) (a_cur a) (a_op a) false) else None
  | [] =>
    match a_cur a with
    | Some f =>
      if Nat.eqb f fd then
        let '(s1, cs) := renew (a_s a) fd in
        match cs with
        | [e] => if call_eqb e c then Some (mk_ast s1 [] (a_ev a) None None false) else None
        | _ => None
        end
      else None
    | None => None
    end
  end.

Definition astep (a : ast) (kind key arg : N) : option ast :=
  if a_off a then Some a else
  if N.eqb kind 8 then Some (mk_ast (a_s a) [] (a_ev a) None None true) else
  (* an id that is not a small key number is a stale address *)
  if N.leb 41 kind && N.leb kind 46 && N.ltb 100000 key then None else
  let k := N.to_nat (N.pred key) in
  let fd := lo arg in
  match kind with
  | 41%N => (* POLL_Q2 *)
    (* at the front: the re-submission after a Pending attempt, which p_operate
       has already performed (its poller calls are awaited in a_exp) *)
    if bit1 (hi arg) then Some a else
    match a_exp a with
    | _ :: _ => None
    | [] =>
      let d := if bit0 (hi arg) then Wr else Rd in
      let '(s1, cs) := push_arg (a_s a) k fd d in
      Some (mk_ast s1 cs (a_ev a) (a_cur a) (a_op a) false)
    end
  | 42%N => (* POLL_ARM2 *)
    observe a (CArm fd (mk_armed k (bit0 (hi arg)) (bit1 (hi arg)))) fd
  | 18%N => (* POLL_DISARM *)
    observe a (CDisarm fd) fd
  | 43%N => (* POLL_EVENT2 *)
    match a_exp a, a_cur a with
    | [], None => Some (mk_ast (a_s a) [] (bit0 arg, bit1 arg) None None false)
    | _, _ => None
    end
  | 44%N => (* POLL_POP *)
    match a_exp a, a_cur a with
    | [], None =>
      let '(s1, o) := p_pop (a_s a) fd (fst (a_ev a)) (snd (a_ev a)) in
      let seen := if N.eqb key 0 then None else Some k in
      match o, seen with
      | None, None => Some (mk_ast s1 [] (a_ev a) (Some fd) None false)
      | Some k1, Some k2 =>
        if Nat.eqb k1 k2 then Some (mk_ast s1 [] (a_ev a) (Some fd) (Some k1) false) else None
      | _, _ => None
      end
    | _, _ => None
    end
  | 45%N => (* POLL_OPERATE *)
    match a_exp a, a_op a with
    | [], Some k1 =>
      if Nat.eqb k1 k && all_ready (tracks (a_s a) k) then
        let '(s1, cs, _) := p_operate (a_s a) k (N.eqb arg 1) in
        Some (mk_ast s1 cs (a_ev a) (a_cur a) None false)
      else None
    | _, _ => None
    end
  | 46%N => (* POLL_REMOVE *)
    match a_exp a with
    | _ :: _ => None
    | [] =>
      let existed := match alookup (reg (a_s a)) fd with Some _ => true | None => false end in
      if Bool.eqb existed (bit0 (hi arg)) then
        let '(s1, cs) := remove_one (a_s a) k fd in
        Some (mk_ast s1 cs (a_ev a) (a_cur a) (a_op a) false)
      else None
    end
  | _ => Some a
  end.

Fixpoint areplay (a : ast) (l : list N) (fuel i : nat) : ast + nat :=
  match fuel with
  | O => inl a
  | S f =>
    match l with
    | kind :: key :: arg :: r =>
      match astep a kind key arg with
      | Some a' => areplay a' r f (S i)
      | None => inr i
      end
    | _ => inl a
    end
  end.

Definition paccept (l : list N) : option nat :=
  match areplay ainit l (length l) 0 with
  | inl a => match a_exp a with [] => None | _ => Some (length l / 3) end
  | inr i => Some i
  end.
