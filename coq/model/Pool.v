(* Pool.v — the managed buffer pool of compio-driver as a labelled transition
   system (compio-driver/src/buffer_pool.rs, sys/buffer_pool/{iour,fallback}.rs,
   sys/op/managed/{iour,fallback}.rs, compio-runtime/src/future/stream.rs).

   The state carries the data structures of the code:
     - io_uring: the buffer ring shared with the kernel — `cells` (the bid stored
       in every BufRingEntry), the shared u16 `tail`, and the kernel's private
       u16 `head`;  index arithmetic exactly as in the code:
         user   idx = (tail + offset) % len          (add_buffer, checked u16 add)
         kernel idx = head & (len - 1)               (io_uring: ring_entries is a power of two)
         commit     = tail.fetch_add(count)          (wrapping)
     - fallback: the free queue `VecDeque<u16>`;
     - the slot table `bufs : Vec<Option<BufPtr>>` (`true` = Some);
     - every place a buffer id can sit outside the slot table: completions the
       kernel has posted (`cq`), the MultishotResult queue of an operation
       (guards), a result handed to the caller whose guard was leaked (`loose`),
       a BufferRef inside an operation under construction (`pend`, fallback),
       the BufferRef inside an operation (`o_buf`), BufferRefs the user holds
       (`handles`), and deallocated buffers (`freed`).
   An owner is never stored: it is DERIVED from where the id sits ([owners]),
   so a double return or a lost buffer in the code's logic would show up as an id
   sitting in two places or in none.

   Environment (labels LKernel): the kernel consumes the ring head for an
   operation it still owns, fills that buffer and posts the completion, atomically
   with respect to the user thread.  No proofs here. *)
From Compio.Model Require Import Base.
From Compio.Gen Require Import Consts.
Local Open Scope nat_scope.

Definition U16 : N := 65536.

(* `a + b` on u16 in a debug build; `fetch_add` wraps *)
Definition u16_add (a b : N) : R N :=
  if (a + b <? U16)%N then Ok (a + b)%N else Panic P_ADD_OVERFLOW.
Definition u16_wrapping_add (a b : N) : N := ((a + b) mod U16)%N.

(* u16::next_power_of_two (debug build: overflow panics) *)
Fixpoint np2_from (fuel : nat) (p n : N) : N :=
  match fuel with
  | O => p
  | S f => if (n <=? p)%N then p else np2_from f (2 * p)%N n
  end.
Definition next_pow2 (n : N) : R N :=
  if (n <=? 32768)%N then Ok (np2_from 15 1%N n) else Panic P_ADD_OVERFLOW.

Fixpoint set_nth {A} (l : list A) (i : nat) (x : A) : list A :=
  match l, i with
  | [], _ => []
  | _ :: r, O => x :: r
  | a :: r, S j => a :: set_nth r j x
  end.

Fixpoint remove_one (x : nat) (l : list nat) : list nat :=
  match l with
  | [] => []
  | y :: r => if Nat.eqb x y then r else y :: remove_one x r
  end.

Definition mem (x : nat) (l : list nat) : bool := existsb (Nat.eqb x) l.

Inductive rescls := ROk | RZero | RNoBufs | RCancel | RErr.

Definition rescls_eqb (a b : rescls) : bool :=
  match a, b with
  | ROk, ROk | RZero, RZero | RNoBufs, RNoBufs | RCancel, RCancel | RErr, RErr => true
  | _, _ => false
  end.

(* one operation (managed read / multishot read) *)
Record opst := mk_op {
  o_inflight : bool;            (* submitted; the kernel has not posted its final completion *)
  o_kdone : bool;               (* the kernel posted the final completion *)
  o_buf : list nat;             (* BufferRefs inside the operation value *)
  o_q : list (option nat);      (* VecDeque<MultishotResult>: Some id = guard for id *)
  o_res : option rescls         (* final result stored by set_result *)
}.

Definition new_op (bufs : list nat) : opst := mk_op false false bufs [] None.

(* a completion queue entry *)
Record cqe := mk_cqe { c_op : nat; c_id : option nat; c_more : bool; c_res : rescls }.

Record st := mk_st {
  uring : bool;                 (* true = io_uring buffer ring, false = fallback pool *)
  nbuf : nat;                   (* number of buffers = ring entries *)
  cells : list nat;             (* bid of every ring entry *)
  tail : N;                     (* shared u16 tail *)
  head : N;                     (* kernel's u16 head *)
  queue : list nat;             (* fallback free queue *)
  slots : list bool;            (* bufs: Some = true; [] after release *)
  released : bool;
  pend : list nat;              (* popped BufferRefs of an operation under construction *)
  ops : list opst;
  cq : list cqe;                (* completions posted, not yet reaped *)
  loose : list nat;             (* results popped from a multishot queue (guard leaked), not yet taken *)
  handles : list (option nat);  (* BufferRefs the user holds *)
  freed : list nat;             (* deallocated *)
  nbusy : nat                   (* ResourceBusy / ENOBUFS results reported *)
}.

Definition set_ring (s : st) (c : list nat) (t h : N) : st :=
  mk_st (uring s) (nbuf s) c t h (queue s) (slots s) (released s) (pend s) (ops s) (cq s)
        (loose s) (handles s) (freed s) (nbusy s).
Definition set_queue (s : st) (q : list nat) : st :=
  mk_st (uring s) (nbuf s) (cells s) (tail s) (head s) q (slots s) (released s) (pend s) (ops s) (cq s)
        (loose s) (handles s) (freed s) (nbusy s).
Definition set_slots (s : st) (x : list bool) : st :=
  mk_st (uring s) (nbuf s) (cells s) (tail s) (head s) (queue s) x (released s) (pend s) (ops s) (cq s)
        (loose s) (handles s) (freed s) (nbusy s).
Definition set_pend (s : st) (x : list nat) : st :=
  mk_st (uring s) (nbuf s) (cells s) (tail s) (head s) (queue s) (slots s) (released s) x (ops s) (cq s)
        (loose s) (handles s) (freed s) (nbusy s).
Definition set_ops (s : st) (x : list opst) : st :=
  mk_st (uring s) (nbuf s) (cells s) (tail s) (head s) (queue s) (slots s) (released s) (pend s) x (cq s)
        (loose s) (handles s) (freed s) (nbusy s).
Definition set_cq (s : st) (x : list cqe) : st :=
  mk_st (uring s) (nbuf s) (cells s) (tail s) (head s) (queue s) (slots s) (released s) (pend s) (ops s) x
        (loose s) (handles s) (freed s) (nbusy s).
Definition set_loose (s : st) (x : list nat) : st :=
  mk_st (uring s) (nbuf s) (cells s) (tail s) (head s) (queue s) (slots s) (released s) (pend s) (ops s) (cq s)
        x (handles s) (freed s) (nbusy s).
Definition set_handles (s : st) (x : list (option nat)) : st :=
  mk_st (uring s) (nbuf s) (cells s) (tail s) (head s) (queue s) (slots s) (released s) (pend s) (ops s) (cq s)
        (loose s) x (freed s) (nbusy s).
Definition set_freed (s : st) (x : list nat) : st :=
  mk_st (uring s) (nbuf s) (cells s) (tail s) (head s) (queue s) (slots s) (released s) (pend s) (ops s) (cq s)
        (loose s) (handles s) x (nbusy s).
Definition set_nbusy (s : st) (x : nat) : st :=
  mk_st (uring s) (nbuf s) (cells s) (tail s) (head s) (queue s) (slots s) (released s) (pend s) (ops s) (cq s)
        (loose s) (handles s) (freed s) x.

Definition upd_op (s : st) (k : nat) (o : opst) : st := set_ops s (set_nth (ops s) k o).

(* ---------------------------------------------------------------------- *)
(* io_uring ring (sys/buffer_pool/iour.rs)                                  *)

(* add_buffer: idx = (tail + offset) % len; entries[idx].bid = id *)
Definition ring_idx (t off : N) (len : nat) : R nat :=
  let! x := u16_add t off in Ok (nn (x mod NN len)%N).

Definition add_buffer (s : st) (id : nat) (off : N) : R st :=
  let! idx := ring_idx (tail s) off (nbuf s) in
  if Nat.ltb idx (length (cells s))
  then Ok (set_ring s (set_nth (cells s) idx id) (tail s) (head s))
  else Panic P_SLICE_INDEX.

Definition commit (s : st) (count : N) : st :=
  set_ring s (cells s) (u16_wrapping_add (tail s) count) (head s).

(* the kernel's view: entries available iff tail != head; the next entry is
   cells[head & mask] *)
Definition ring_empty (s : st) : bool := N.eqb (tail s) (head s).
Definition kernel_idx (s : st) (h : N) : nat := nn (N.land (h mod U16) (NN (nbuf s) - 1))%N.
Definition kernel_select (s : st) : option (nat * st) :=
  if ring_empty s then None
  else Some (nth (kernel_idx s (head s)) (cells s) 0,
             set_ring s (cells s) (tail s) (u16_wrapping_add (head s) 1)).

(* number of entries the kernel can still consume, and their ids in order *)
Definition ring_count (s : st) : nat := nn ((tail s + U16 - head s) mod U16)%N.
Definition ring_ids (s : st) : list nat :=
  if uring s
  then map (fun i => nth (kernel_idx s (head s + NN i)%N) (cells s) 0) (seq 0 (ring_count s))
  else queue s.

(* ---------------------------------------------------------------------- *)
(* Shared::take / Shared::reset (buffer_pool.rs)                            *)

Definition slot_take (sl : list bool) (id : nat) : option (list bool) :=
  match nth_error sl id with
  | Some true => Some (set_nth sl id false)
  | _ => None
  end.

(* BufControl::reset *)
Definition ctrl_reset (s : st) (id : nat) : R st :=
  if uring s
  then let! s1 := add_buffer s id 0 in Ok (commit s1 1)
  else Ok (set_queue s (queue s ++ [id])).

(* Shared::reset: the slot exists -> slot = Some(ptr), ctrl.reset; otherwise
   (bufs emptied by release) the buffer is deallocated.  BufferRef::drop with
   the pool gone deallocates as well. *)
Definition sh_reset (s : st) (id : nat) : R st :=
  match nth_error (slots s) id with
  | Some _ => ctrl_reset (set_slots s (set_nth (slots s) id true)) id
  | None => Ok (set_freed s (freed s ++ [id]))
  end.

Fixpoint reset_all (s : st) (ids : list nat) : R st :=
  match ids with
  | [] => Ok s
  | id :: r => let! s1 := sh_reset s id in reset_all s1 r
  end.

(* ---------------------------------------------------------------------- *)
(* creation (BufferPoolRoot::new, BufControl::new)                          *)

Fixpoint init_ring (s : st) (ids : list nat) : R st :=
  match ids with
  | [] => Ok s
  | id :: r => let! s1 := add_buffer s id (NN id) in init_ring s1 r
  end.

Definition pool_new (is_uring : bool) (size : nat) : R st :=
  if Nat.eqb size 0 then Panic P_OTHER else      (* NonZero<u16> *)
  let! n := next_pow2 (NN size) in
  let n := nn n in
  let s0 := mk_st is_uring n (repeat 0 n) 0%N 0%N [] (repeat true n) false [] [] [] [] [] [] 0 in
  if is_uring
  then let! s1 := init_ring s0 (seq 0 n) in Ok (commit s1 (NN n))
  else Ok (set_queue (set_ring s0 [] 0%N 0%N) (seq 0 n)).

(* ---------------------------------------------------------------------- *)
(* labels                                                                   *)

Inductive label :=
| LPop                     (* fallback BufferPool::pop while an operation is built *)
| LPendDrop                (* construction failed: the popped BufferRef is dropped *)
| LOpNew                   (* the operation is created (takes the popped BufferRefs) *)
| LSubmit (k : nat)        (* handed to the kernel / the polling driver *)
| LKernel (k : nat) (sel more : bool) (r : rescls)
                           (* ENVIRONMENT: a completion for k; sel = it consumed the ring head *)
| LCqe                     (* the driver reaps the oldest completion: push_multishot / set_result *)
| LPopMs (k : nat)         (* pop_multishot: front MultishotResult, guard leaked *)
| LTakeLoose (id : nat)    (* BufferPool::take(id) by the stream: a handle *)
| LOpMove (k : nat)        (* the user takes the finished operation: its BufferRefs become handles *)
| LDropHandle (h : nat)    (* BufferRef::drop *)
| LOpBufDrop (k : nat)     (* the operation value is dropped: its BufferRef is dropped *)
| LGuardDrop (k : nat)     (* ... and each queued MultishotResult: BufferGuard::drop *)
| LRelease                 (* Proactor::drop: BufferPoolRoot::release *)
| LCqDrain.                (* Driver::drop discards an unreaped completion *)

(* the operation value can be moved out or dropped: the kernel does not own it
   and a posted final completion has been reaped — or the driver is going away *)
Definition op_free (s : st) (o : opst) : bool :=
  released s
  || (negb (o_inflight o) && (negb (o_kdone o) || match o_res o with Some _ => true | None => false end)).

Definition live_handle (s : st) (h : nat) : option nat :=
  match nth_error (handles s) h with Some (Some id) => Some id | _ => None end.

Definition step (s : st) (l : label) : option (R st) :=
  match l with
  | LPop =>
    if released s then None else
    if uring s then Some (Ok s) else     (* "pop is not supported on io_uring" *)
    match queue s with
    | [] => Some (Ok (set_nbusy s (S (nbusy s))))          (* ResourceBusy *)
    | id :: q =>
      (* self.take(buffer_id)?.expect("Buffer should be available") *)
      match slot_take (slots s) id with
      | Some sl => Some (Ok (set_pend (set_slots (set_queue s q) sl) (pend s ++ [id])))
      | None => Some (Panic P_OTHER)
      end
    end
  | LPendDrop =>
    match pend s with
    | id :: p => Some (sh_reset (set_pend s p) id)
    | [] => None
    end
  | LOpNew => Some (Ok (set_pend (set_ops s (ops s ++ [new_op (pend s)])) []))
  | LSubmit k =>
    match nth_error (ops s) k with
    | Some o =>
      if o_inflight o || o_kdone o || released s then None
      else Some (Ok (upd_op s k (mk_op true false (o_buf o) (o_q o) (o_res o))))
    | None => None
    end
  | LKernel k sel more r =>
    match nth_error (ops s) k with
    | Some o =>
      if o_kdone o || (uring s && negb (o_inflight o)) then None else
      let o' := mk_op (o_inflight o && more) (negb more) (o_buf o) (o_q o) (o_res o) in
      if sel then
        (* buffer selection exists only on a registered io_uring ring *)
        if negb (uring s) || released s || rescls_eqb r RNoBufs then None else
        match kernel_select s with
        | Some (id, s1) => Some (Ok (set_cq (upd_op s1 k o') (cq s1 ++ [mk_cqe k (Some id) more r])))
        | None => None
        end
      else
        (* -ENOBUFS is what the kernel answers when the ring is empty, and only then;
           data is never delivered without a buffer on io_uring *)
        if rescls_eqb r RNoBufs && negb (uring s && ring_empty s && negb more) then None else
        if rescls_eqb r ROk && uring s then None else
        Some (Ok (set_cq (upd_op s k o') (cq s ++ [mk_cqe k None more r])))
    | None => None
    end
  | LCqe =>
    if released s then None else
    match cq s with
    | [] => None
    | c :: rest =>
      let s1 := set_cq s rest in
      match nth_error (ops s1) (c_op c) with
      | None => Some (Ok s1)
      | Some o =>
        if c_more c then
          (* push_multishot: MultishotResult::new (guard iff a buffer id is present) *)
          Some (Ok (upd_op s1 (c_op c) (mk_op (o_inflight o) (o_kdone o) (o_buf o) (o_q o ++ [c_id c]) (o_res o))))
        else
          let busy := if rescls_eqb (c_res c) RNoBufs then 1 else 0 in
          match c_id c with
          | None =>
            Some (Ok (set_nbusy (upd_op s1 (c_op c) (mk_op (o_inflight o) (o_kdone o) (o_buf o) (o_q o) (Some (c_res c))))
                                (nbusy s1 + busy)))
          | Some id =>
            (* set_result: pool.take(id).expect("Buffer should not be in use");
               self.buffer.replace(buffer) stores the new BufferRef and drops a previous one *)
            match slot_take (slots s1) id with
            | None => Some (Panic P_OTHER)
            | Some sl =>
              let s2 := set_nbusy (upd_op (set_slots s1 sl) (c_op c)
                                          (mk_op (o_inflight o) (o_kdone o) [id] (o_q o) (Some (c_res c))))
                                  (nbusy s1 + busy) in
              Some (reset_all s2 (o_buf o))
            end
          end
      end
    end
  | LPopMs k =>
    if released s then None else
    match nth_error (ops s) k with
    | Some o =>
      match o_q o with
      | e :: q =>
        let s1 := upd_op s k (mk_op (o_inflight o) (o_kdone o) (o_buf o) q (o_res o)) in
        Some (Ok (match e with Some id => set_loose s1 (loose s1 ++ [id]) | None => s1 end))
      | [] => None
      end
    | None => None
    end
  | LTakeLoose id =>
    if released s || negb (mem id (loose s)) then None else
    let s1 := set_loose s (remove_one id (loose s)) in
    match slot_take (slots s1) id with
    | Some sl => Some (Ok (set_handles (set_slots s1 sl) (handles s1 ++ [Some id])))
    | None => Some (Ok s1)                (* take returned None: the stream yields no buffer *)
    end
  | LOpMove k =>
    match nth_error (ops s) k with
    | Some o =>
      if negb (op_free s o) then None else
      let s1 := upd_op s k (mk_op (o_inflight o) (o_kdone o) [] (o_q o) (o_res o)) in
      Some (Ok (set_handles s1 (handles s1 ++ map Some (o_buf o))))
    | None => None
    end
  | LDropHandle h =>
    match live_handle s h with
    | Some id => Some (sh_reset (set_handles s (set_nth (handles s) h None)) id)
    | None => None
    end
  | LOpBufDrop k =>
    match nth_error (ops s) k with
    | Some o =>
      if negb (op_free s o) then None else
      match o_buf o with
      | id :: b => Some (sh_reset (upd_op s k (mk_op (o_inflight o) (o_kdone o) b (o_q o) (o_res o))) id)
      | [] => None
      end
    | None => None
    end
  | LGuardDrop k =>
    match nth_error (ops s) k with
    | Some o =>
      if negb (op_free s o) then None else
      match o_q o with
      | e :: q =>
        let s1 := upd_op s k (mk_op (o_inflight o) (o_kdone o) (o_buf o) q (o_res o)) in
        match e with
        | None => Some (Ok s1)
        | Some id =>
          (* BufferPool::reset(id): take(id) else return Ok(false); then Shared::reset *)
          match slot_take (slots s1) id with
          | Some sl => Some (sh_reset (set_slots s1 sl) id)
          | None => Some (Ok s1)
          end
        end
      | [] => None
      end
    | None => None
    end
  | LRelease =>
    if released s then None else
    (* ctrl.release (unregister + munmap); every Some slot is deallocated; bufs = [] *)
    let dead := filter (fun id => nth id (slots s) false) (seq 0 (length (slots s))) in
    Some (Ok (mk_st (uring s) (nbuf s) [] (head s) (head s) [] [] true (pend s) (ops s) (cq s)
                    [] (handles s) (freed s ++ dead) (nbusy s)))
  | LCqDrain =>
    if released s then
      match cq s with _ :: rest => Some (Ok (set_cq s rest)) | [] => None end
    else None
  end.

Fixpoint steps (s : st) (ls : list label) : option (R st) :=
  match ls with
  | [] => Some (Ok s)
  | l :: r =>
    match step s l with
    | Some (Ok s') => steps s' r
    | Some (Panic c) => Some (Panic c)
    | None => None
    end
  end.

(* ---------------------------------------------------------------------- *)
(* ownership, derived                                                       *)

Inductive owner :=
| OwRing                   (* the OS: in the ring / free queue *)
| OwSelected (k : nat)     (* the OS selected it for operation k; the completion is posted or queued *)
| OwTransit                (* inside library code, between two holders (popped result / op under construction) *)
| OwInOp (k : nat)         (* the BufferRef inside operation k *)
| OwHandle (h : nat)       (* a BufferRef the user holds *)
| OwFreed.

Definition occ (id : nat) (l : list nat) : nat := length (filter (Nat.eqb id) l).

Definition opt_ids (l : list (option nat)) : list nat :=
  flat_map (fun e => match e with Some i => [i] | None => [] end) l.

(* ids a completion / guard still stands for: none once the pool is released
   (release deallocated them; BufferGuard::drop and the drain are no-ops then) *)
Definition cq_ids (s : st) : list nat :=
  if released s then [] else opt_ids (map c_id (cq s)).
Definition guard_ids_of (s : st) (o : opst) : list nat :=
  if released s then [] else opt_ids (o_q o).
Definition guard_ids (s : st) : list nat := flat_map (guard_ids_of s) (ops s).
Definition opbuf_ids (s : st) : list nat := flat_map o_buf (ops s).
Definition handle_ids (s : st) : list nat := opt_ids (handles s).

Fixpoint owners_ops (id : nat) (f : opst -> list nat) (mk : nat -> owner) (l : list opst) (k : nat) : list owner :=
  match l with
  | [] => []
  | o :: r => repeat (mk k) (occ id (f o)) ++ owners_ops id f mk r (S k)
  end.

Fixpoint owners_handles (id : nat) (l : list (option nat)) (h : nat) : list owner :=
  match l with
  | [] => []
  | e :: r => (match e with Some i => if Nat.eqb id i then [OwHandle h] else [] | None => [] end)
              ++ owners_handles id r (S h)
  end.

Definition owners (s : st) (id : nat) : list owner :=
  repeat OwRing (occ id (ring_ids s))
  ++ (if released s then [] else
        flat_map (fun c => match c_id c with
                           | Some i => if Nat.eqb id i then [OwSelected (c_op c)] else []
                           | None => [] end) (cq s))
  ++ owners_ops id (guard_ids_of s) OwSelected (ops s) 0
  ++ repeat OwTransit (occ id (loose s) + occ id (pend s))
  ++ owners_ops id o_buf OwInOp (ops s) 0
  ++ owners_handles id (handles s) 0
  ++ repeat OwFreed (occ id (freed s)).

(* the buffer the kernel would write into next *)
Definition kernel_target (s : st) : option nat :=
  if uring s && negb (released s)
  then match kernel_select s with Some (id, _) => Some id | None => None end
  else None.

Definition n_selected (s : st) : nat := length (cq_ids s) + length (guard_ids s).
Definition n_transit (s : st) : nat := length (loose s) + length (pend s).
Definition n_inop (s : st) : nat := length (opbuf_ids s).
Definition n_handles (s : st) : nat := length (handle_ids s).

(* every holder has let go *)
Definition quiet (s : st) : bool :=
  Nat.eqb (n_selected s + n_transit s + n_inop s + n_handles s) 0.

(* defaults of ProactorBuilder::new (tools/consts.py) *)
Definition default_pool : R st := pool_new true (nn POOL_DEFAULT_SIZE).
Definition default_buf_len : N := POOL_DEFAULT_BUF_LEN.
Definition buf_group : N := BUF_GROUP.

(* ---------------------------------------------------------------------- *)
(* the runtime-level multishot stream: the re-submission loop of
   SubmitMultiStream::poll_next over SubmitMultiManaged::poll_next
   (compio-runtime/src/future/stream.rs).  Every question the loop asks its
   environment (the inner managed stream, the factory that builds the next
   operation) consumes one scheduled answer, so the loop is a structural
   recursion and a spin without progress cannot be written.                 *)

(* what SubmitMulti (the raw stream over one operation) yields *)
Inductive raw_item :=
| RawPending
| RawMore (r : rescls) (oid : option nat)      (* a completion with MORE and the buffer id of its flags *)
| RawFinal (r : rescls) (obuf : option nat)    (* the final result; the BufferRef inside the operation *)
| RawDone.                                     (* the raw stream is finished *)

(* what SubmitMultiManaged::poll_next answers *)
Inductive mitem :=
| MPending
| MBuf (id : nat) (empty : bool)     (* Some(Ok(Some(buffer))) *)
| MNoBuf                             (* Some(Ok(None)) *)
| MErr (r : rescls)                  (* Some(Err(e)) *)
| MEnd.                              (* None *)

Definition is_err (r : rescls) : bool := match r with ROk | RZero => false | _ => true end.

(* `slot_some id` = BufferPool::take(id) finds the buffer in its slot *)
Definition managed_poll (x : raw_item) (slot_some : nat -> bool) : mitem :=
  match x with
  | RawPending => MPending
  | RawFinal r obuf =>
    (* let b = op.take_buffer(); let res = res?; ...  (an Err drops b: the buffer is reset) *)
    if is_err r then MErr r
    else match obuf with Some id => MBuf id (rescls_eqb r RZero) | None => MNoBuf end
  | RawMore r oid =>
    (* let b = pool.take(extra.buffer_id()?)?; let res = res?; *)
    match oid with
    | None => MErr RErr
    | Some id =>
      if is_err r then MErr r
      else if slot_some id then MBuf id (rescls_eqb r RZero) else MNoBuf
    end
  | RawDone => MEnd
  end.

(* answers of the environment of the loop *)
Inductive sans :=
| AInner (m : mitem)               (* the current managed stream is polled *)
| ACreate (e : option rescls).     (* factory.create(): None = a new operation, Some e = Err(e) *)

Inductive sout := SPending | SItem (id : nat) | SEnd | SErr (r : rescls) | SBad.

(* SubmitMultiStream::poll_next; returns what the consumer's next() gets and
   whether an operation is still installed *)
Fixpoint stream_poll (has_op cancelled : bool) (sched : list sans) : sout * bool :=
  match sched with
  | [] => (SBad, has_op)
  | a :: rest =>
    if has_op then
      match a with
      | AInner MPending => (SPending, true)
      | AInner (MBuf id empty) => (if empty then SEnd else SItem id, true)
      | AInner MNoBuf => (SEnd, true)
      | AInner (MErr r) => (SErr r, true)            (* Some(Err(e)) => break Ready(Some(Err(e))) *)
      | AInner MEnd => stream_poll false cancelled rest   (* None => self.op = None *)
      | ACreate _ => (SBad, true)
      end
    else if cancelled then (SEnd, false)
    else
      match a with
      | ACreate None => stream_poll true cancelled rest
      | ACreate (Some r) => (SErr r, false)          (* Err(e) => break Ready(Some(Err(e))) *)
      | AInner _ => (SBad, false)
      end
  end.

(* n times: the operation ended before EOF and was re-created *)
Fixpoint rearm (n : nat) : list sans :=
  match n with O => [] | S m => AInner MEnd :: ACreate None :: rearm m end.

(* ---------------------------------------------------------------------- *)
(* NOT the code — the variant "set_result returns early when the result is an
   error": the buffer id an error completion carries is ignored.  Used only
   for the refutation witness of prop/C07.v (the kernel has consumed that
   buffer from the ring, so nobody owns it any more).                        *)
Definition cqe_early_return (s : st) : option (R st) :=
  match cq s with
  | c :: rest =>
    if negb (c_more c) && is_err (c_res c)
    then step (set_cq s (mk_cqe (c_op c) None (c_more c) (c_res c) :: rest)) LCqe
    else step s LCqe
  | [] => None
  end.
