(* Frame.v — executable model of compio-io's framing layer
   (compio-io/src/framed/{frame,read,write,mod}.rs, codec/bytes.rs, buffer.rs).
   No proofs in this file.

   The inner reader is an environment: a schedule of answers applied to the
   byte stream (how the stream is cut into reads).  Every iteration of the
   read state machine that does not return consumes one schedule element, so
   the reader is a structural recursion on the schedule; the inner "extract
   frames from what is buffered" loop is bounded by the number of buffered
   bytes, and running out of that bound is the explicit result
   [Panic P_HANG] (the real loop would spin for ever). *)
From Compio.Model Require Import Base.
From Compio.Model Require IoHelpers.   (* scripted writer, write_all, event log (C11) *)
From Compio.Gen Require Consts.

(* the runner records `2 8` for a case on which the harness does not terminate *)
Definition P_HANG : N := 8.

Definition USIZE_MAX : N := 18446744073709551615%N.   (* usize = u64 *)

(* checked usize addition of a debug build *)
Definition uadd (a b : N) : R N :=
  if (a + b <=? USIZE_MAX)%N then Ok (a + b)%N else Panic P_ADD_OVERFLOW.

(* ---------------------------------------------------------------------- *)
(* the length field: the [lfl] low-order bytes of `len as u64`
   (`to_be_bytes()[MAX_LFL - lfl..]` resp. `to_le_bytes()[..lfl]`)           *)

Fixpoint le_bytes (k : nat) (n : N) : list byte :=
  match k with
  | O => []
  | S k' => (n mod 256)%N :: le_bytes k' (n / 256)%N
  end.

Fixpoint le_value (bs : list byte) : N :=
  match bs with
  | [] => 0%N
  | b :: r => (b + 256 * le_value r)%N
  end.

Definition len_bytes (lfl : nat) (be : bool) (n : N) : list byte :=
  if be then rev (le_bytes lfl n) else le_bytes lfl n.

(* zero-extended to 8 bytes, `u64::from_{be,le}_bytes`, then `as usize`
   (the identity on a 64-bit target) *)
Definition len_value (be : bool) (bs : list byte) : N :=
  le_value (if be then rev bs else bs).

(* ---------------------------------------------------------------------- *)
(* framers                                                                 *)

Inductive framer :=
| LenDelim (lfl : nat) (be : bool)     (* LengthDelimited, lfl <= MAX_LFL      *)
| AnyDelim (delim : list byte)         (* AnyDelimited; CharDelimited = UTF-8  *)
| Noop (max_size : nat).               (* NoopFramer                           *)

Record frame := mkframe { f_prefix : nat; f_payload : nat; f_suffix : nat }.

(* Frame::len; the sums cannot overflow for a frame that lies inside a buffer *)
Definition frame_len (f : frame) : nat := f_prefix f + f_payload f + f_suffix f.

(* Framer::enclose on a buffer holding exactly the encoded item *)
Definition enclose (fr : framer) (p : list byte) : list byte :=
  match fr with
  | LenDelim lfl be => len_bytes lfl be (NN (length p)) ++ p
  | AnyDelim d => p ++ d
  | Noop _ => p
  end.

Fixpoint starts_with (d w : list byte) : bool :=
  match d, w with
  | [], _ => true
  | _ :: _, [] => false
  | x :: d', y :: w' => N.eqb x y && starts_with d' w'
  end.

(* `buf.windows(d.len()).position(|win| win == d)` *)
Fixpoint find_sub (d w : list byte) : option nat :=
  if starts_with d w then Some 0 else
  match w with
  | [] => None
  | _ :: w' => match find_sub d w' with Some n => Some (S n) | None => None end
  end.

(* Framer::extract on the readable window [w] of the buffer *)
Definition extract (fr : framer) (w : list byte) : R (option frame) :=
  match fr with
  | LenDelim lfl be =>
    if Nat.ltb (length w) lfl then Ok None else
    let len := len_value be (firstn lfl w) in
    (* `buf.len() - lfl < len`: the subtraction is guarded by the test above *)
    if (NN (length w - lfl) <? len)%N then Ok None
    else Ok (Some (mkframe lfl (nn len) 0))
  | AnyDelim d =>
    match w with
    | [] => Ok None
    | _ :: _ =>
      match d with
      | [] => Panic P_OTHER                      (* slice::windows(0) panics *)
      | _ :: _ =>
        match find_sub d w with
        | Some pos => Ok (Some (mkframe 0 pos (length d)))
        | None => Ok None
        end
      end
    end
  | Noop mx =>
    match w with
    | [] => Ok None
    | _ :: _ => Ok (Some (mkframe 0 (Nat.min (length w) mx) 0))
    end
  end.

(* LengthDelimited::extract as it was before commit 6417e42 (D5): the sum
   `lfl + len` is formed first; kept for the witness in prop/C13.v *)
Definition extract_len_v0 (lfl : nat) (be : bool) (w : list byte) : R (option frame) :=
  if Nat.ltb (length w) lfl then Ok None else
  let len := len_value be (firstn lfl w) in
  let! s := uadd (NN lfl) len in
  if (NN (length w) <? s)%N then Ok None
  else Ok (Some (mkframe lfl (nn len) 0)).

(* Frame::slice(buf).flatten(), then BytesCodec::decode = the bytes of the
   slice: `buf.slice(prefix..prefix + payload)` asserts prefix <= buf_len and
   the view is clipped to the initialised length *)
Definition frame_slice (f : frame) (w : list byte) : R (list byte) :=
  if Nat.ltb (length w) (f_prefix f) then Panic P_ASSERT
  else Ok (firstn (f_payload f) (skipn (f_prefix f) w)).

(* ---------------------------------------------------------------------- *)
(* sink side (write.rs): start_send = clear, encode (BytesCodec appends the
   item), enclose, write_all; write_all hands the whole buffer to the writer
   (C11_write_all), so the stream is the concatenation                       *)

Definition encode_stream (fr : framer) (frames : list (list byte)) : list byte :=
  concat (map (enclose fr) frames).

(* ---------------------------------------------------------------------- *)
(* stream side (read.rs): Buffer<Vec<u8>> = Vec (content, capacity) + progress *)

Record rstate := mkrs {
  rs_data : list byte;    (* the initialised bytes of the Vec          *)
  rs_cap : nat;           (* its capacity                              *)
  rs_begin : nat;         (* Slice::begin: bytes already handed out    *)
  rs_eof : bool           (* read_state.eof                            *)
}.

Definition rs_init : rstate := mkrs [] 0 0 false.       (* Buffer::new() *)
Definition window (st : rstate) : list byte := skipn (rs_begin st) (rs_data st).

(* Vec::try_reserve (RawVec::grow_amortized, size_of::<u8>() = 1): trusted base *)
Definition rs_reserve (st : rstate) (add : nat) : rstate :=
  if Nat.leb add (rs_cap st - length (rs_data st)) then st
  else mkrs (rs_data st)
            (Nat.max 8 (Nat.max (2 * rs_cap st) (length (rs_data st) + add)))
            (rs_begin st) (rs_eof st).

(* Buffer::advance(amount) followed by reset() when everything was consumed *)
Definition rs_advance (st : rstate) (amount : nat) : R rstate :=
  let pos := rs_begin st + amount in
  if Nat.ltb (rs_cap st) pos then Panic P_ASSERT else      (* assert!(begin + amount <= cap) *)
  if Nat.ltb (length (rs_data st)) pos then Panic P_ASSERT (* slice(pos..) asserts pos <= len *)
  else if Nat.leb (length (rs_data st)) pos
       then Ok (mkrs [] (rs_cap st) 0 (rs_eof st))          (* all_done: reset *)
       else Ok (mkrs (rs_data st) (rs_cap st) pos (rs_eof st)).

(* the Idle arm when a frame is found: extract, slice, decode, advance *)
Definition take_frame (fr : framer) (st : rstate) : R (option (list byte * rstate)) :=
  let! o := extract fr (window st) in
  match o with
  | None => Ok None
  | Some f =>
    let! payload := frame_slice f (window st) in
    let! st' := rs_advance st (frame_len f) in
    Ok (Some (payload, st'))
  end.

(* successive polls while complete frames are buffered; [fuel] = number of
   buffered bytes (every frame of a well-parametrised framer is non-empty) *)
Fixpoint drain (fuel : nat) (fr : framer) (st : rstate) : R (list (list byte) * rstate) :=
  let! o := take_frame fr st in
  match o with
  | None => Ok ([], st)
  | Some (p, st') =>
    match fuel with
    | O => Panic P_HANG
    | S k => let! '(ps, st'') := drain k fr st' in Ok (p :: ps, st'')
    end
  end.

(* the environment: one answer per call of inner.read *)
Inductive rd := RdChunk (n : nat) | RdErr (kind : N).
Inductive item := IOk (payload : list byte) | IErr (kind : N).

(* `io.append(buf)`: the reader may fill the spare capacity *)
Definition read_len (st : rstate) (n : nat) (src : list byte) : nat :=
  Nat.min n (Nat.min (rs_cap st - length (rs_data st)) (length src)).

(* all polls of the stream until it yields None:
   (items, number of reads, bytes the reader still holds) *)
Fixpoint run_reader (fr : framer) (sched : list rd) (src : list byte) (st : rstate)
  (reads : nat) : R (list item * nat * list byte) :=
  let! '(ps, st) := drain (length (window st)) fr st in
  let st := rs_reserve st (nn Consts.FRAMED_RESERVE) in
  match sched with
  | [] =>
    (* exhausted script = end of file for ever: the first zero read sets the
       flag, the stream ends on the second *)
    Ok (map IOk ps, reads + (if rs_eof st then 1 else 2), src)
  | RdErr e :: sched' =>
    let! '(its, r, s) := run_reader fr sched' src st (S reads) in
    Ok (map IOk ps ++ IErr e :: its, r, s)
  | RdChunk n :: sched' =>
    let k := read_len st n src in
    if Nat.eqb k 0 then
      if rs_eof st then Ok (map IOk ps, S reads, src)
      else
        let! '(its, r, s) :=
          run_reader fr sched' src (mkrs (rs_data st) (rs_cap st) (rs_begin st) true) (S reads) in
        Ok (map IOk ps ++ its, r, s)
    else
      let! '(its, r, s) :=
        run_reader fr sched' (skipn k src)
          (mkrs (rs_data st ++ firstn k src) (rs_cap st) (rs_begin st) (rs_eof st)) (S reads) in
      Ok (map IOk ps ++ its, r, s)
  end.

Definition decode_stream (fr : framer) (sched : list rd) (src : list byte) :=
  run_reader fr sched src rs_init 0.

(* ---------------------------------------------------------------------- *)
(* CharDelimited<C>: the delimiter is C.encode_utf8()                       *)

Definition utf8 (c : N) : list byte :=
  if (c <? 128)%N then [c]
  else if (c <? 2048)%N then [192 + c / 64; 128 + c mod 64]%N
  else if (c <? 65536)%N then [224 + c / 4096; 128 + (c / 64) mod 64; 128 + c mod 64]%N
  else [240 + c / 262144; 128 + (c / 4096) mod 64; 128 + (c / 64) mod 64; 128 + c mod 64]%N.

Definition CharDelim (c : N) : framer := AnyDelim (utf8 c).

(* ---------------------------------------------------------------------- *)
(* sink side with a codec that can fail (write.rs: State, Sink for Framed)

   The write buffer lives in the sink's state and is NOT emptied after a
   write: start_send must clear it.  A serialising encoder may have appended
   some bytes before it returns an error: start_send clears again and no frame
   goes out.  The probe codec of the harness: encode appends the payload; a
   flagged item appends only its first k bytes and then fails.               *)

Record sitem := mksitem { si_payload : list byte; si_fail : option nat }.

(* Encoder::encode(item, buf): appends to [buf]; false = Err *)
Definition encode_item (buf : list byte) (it : sitem) : list byte * bool :=
  match si_fail it with
  | None => (buf ++ si_payload it, true)
  | Some k => (buf ++ firstn k (si_payload it), false)
  end.

(* State::Idle(io, buf) / State::Writing(write_all(buf)); the Flushing and
   Closing futures complete within the poll that creates them *)
Record sink := mksink { sk_buf : list byte; sk_writing : bool; sk_conf : bool }.
Definition sink_init : sink := mksink [] false true.     (* State::Configuring(io, Vec::new()) *)

Inductive sres := SOk | SCodecErr | SIoErr (kind : N).

Definition buf_clear (_ : list byte) : list byte := [].   (* SetLenExt::clear *)

(* Sink::start_send, called in the Idle state *)
Definition start_send (fr : framer) (sk : sink) (it : sitem) : sres * sink :=
  let buf := buf_clear (sk_buf sk) in                     (* buf.clear(); reserve(64) *)
  let '(buf, ok) := encode_item buf it in
  if ok then (SOk, mksink (enclose fr buf) true false)        (* framer.enclose(buf); start_write() *)
  else (SCodecErr, mksink (buf_clear buf) false false).        (* buf.clear(); return Err(e) *)

Definition wscript := list IoHelpers.answer.
Definition wlog := list IoHelpers.wev.

(* poll_sink: a pending write_all is driven to completion (a Pending answer
   of the writer only makes the future yield and be polled again); the buffer
   comes back as it was *)
Definition finish_write (sk : sink) (ws : wscript) (log : wlog) : sres * sink * wscript * wlog :=
  if sk_writing sk then
    let '(o, l, ws') := IoHelpers.write_all ws (sk_buf sk) in
    (match o with IoHelpers.OOk _ => SOk | IoHelpers.OErr e => SIoErr e end,
     mksink (sk_buf sk) false false, ws', log ++ l)
  else (SOk, sk, ws, log).

(* SinkExt::feed = poll_ready, then start_send *)
Definition sink_feed (fr : framer) (it : sitem) (sk : sink) (ws : wscript) (log : wlog)
  : sres * sink * wscript * wlog :=
  let '(r, sk, ws, log) := finish_write sk ws log in
  match r with
  | SOk => let '(r', sk') := start_send fr sk it in (r', sk', ws, log)
  | _ => (r, sk, ws, log)
  end.

(* poll_flush: in the Writing state it completes the write and reports its
   result (the inner writer is not flushed then); Idle: inner.flush() *)
Definition sink_flush (sk : sink) (ws : wscript) (log : wlog) : sres * sink * wscript * wlog :=
  if sk_writing sk then finish_write sk ws log
  else (SOk, mksink (sk_buf sk) false false, ws, log ++ [IoHelpers.WFlush]).

(* poll_close: likewise; Idle: inner.shutdown(); in the Configuring state
   (nothing sent or flushed yet) poll_sink only initialises and reports Ok:
   the writer is not shut down *)
Definition sink_close (sk : sink) (ws : wscript) (log : wlog) : sres * sink * wscript * wlog :=
  if sk_writing sk then finish_write sk ws log
  else if sk_conf sk then (SOk, mksink (sk_buf sk) false false, ws, log)
  else (SOk, sk, ws, log ++ [IoHelpers.WShutdown]).

Inductive sop := SFeed (it : sitem) | SSend (it : sitem) | SFlush | SClose.

Definition sink_step (fr : framer) (op : sop) (sk : sink) (ws : wscript) (log : wlog)
  : sres * sink * wscript * wlog :=
  match op with
  | SFeed it => sink_feed fr it sk ws log
  | SSend it =>                                           (* SinkExt::send = feed, then flush *)
    let '(r, sk, ws, log) := sink_feed fr it sk ws log in
    match r with
    | SOk => sink_flush sk ws log
    | _ => (r, sk, ws, log)
    end
  | SFlush => sink_flush sk ws log
  | SClose => sink_close sk ws log
  end.

Fixpoint sink_run (fr : framer) (ops : list sop) (sk : sink) (ws : wscript) (log : wlog)
  : list sres * sink * wlog :=
  match ops with
  | [] => ([], sk, log)
  | op :: ops' =>
    let '(r, sk, ws, log) := sink_step fr op sk ws log in
    let '(rs, sk', log') := sink_run fr ops' sk ws log in
    (r :: rs, sk', log')
  end.

(* the writer's answers of the harness: Pending is transparent *)
Inductive wans := WAns (a : IoHelpers.answer) | WPending.
Definition strip_pending (l : list wans) : wscript :=
  flat_map (fun a => match a with WAns x => [x] | WPending => [] end) l.

(* ---------------------------------------------------------------------- *)
(* stream side with a decoder that can fail: the frame is consumed like any
   other and the error is the item (read.rs advances regardless).  The probe
   decoder of the harness rejects payloads that start with 255.              *)

Definition probe_decode (i : item) : item :=
  match i with
  | IOk (255%N :: _) => IErr E_INVALID_DATA
  | _ => i
  end.

Definition decode_stream_probe (fr : framer) (sched : list rd) (src : list byte) :=
  let! '(its, r, s) := decode_stream fr sched src in Ok (map probe_decode its, r, s).

(* ---------------------------------------------------------------------- *)
(* construction paths: new(), Default::default(), Clone of either.
   LengthDelimited and NoopFramer implement Default by hand (new = default);
   CharDelimited<C> derives it: the only field is a 4-byte scratch buffer into
   which C is UTF-8 encoded anew by every enclose/extract (as_any_delimited),
   so its initial content does not matter; AnyDelimited has no Default.        *)

Inductive ctor := CNew | CDefault | CCloneNew | CCloneDefault.

Record length_delimited := mkld { ld_lfl : nat; ld_be : bool }.
Definition ld_new : length_delimited := mkld 4 true.
Definition ld_default : length_delimited := mkld 4 true.          (* impl Default *)
Definition ld_set (l : length_delimited) (lfl : nat) (be : bool) : length_delimited :=
  mkld lfl be.                                  (* set_length_field_len, set_..._is_big_endian *)
Definition ld_framer (l : length_delimited) : framer := LenDelim (ld_lfl l) (ld_be l).

Record char_delimited := mkcd { cd_char : N; cd_buf : list byte }.
Definition cd_new (c : N) : char_delimited := mkcd c [0; 0; 0; 0]%N.
Definition cd_default (c : N) : char_delimited := mkcd c [0; 0; 0; 0]%N.   (* derive(Default) *)
(* as_any_delimited: C.encode_utf8(&mut self.char_buf) *)
Definition cd_framer (cd : char_delimited) : framer := AnyDelim (utf8 (cd_char cd)).

Definition noop_new : framer := Noop (nn Consts.NOOP_MAX_SIZE).
Definition noop_default : framer := Noop (nn Consts.NOOP_MAX_SIZE).         (* impl Default *)

Definition via {A} (ct : ctor) (new default : A) : A :=
  match ct with
  | CNew | CCloneNew => new           (* derive(Clone, Copy): a clone is the value *)
  | CDefault | CCloneDefault => default
  end.

Inductive fspec := FLen (lfl : nat) (be : bool) | FAny (d : list byte) | FChar (c : N) | FNoop.

Definition framer_via (ct : ctor) (s : fspec) : framer :=
  match s with
  | FLen lfl be => ld_framer (ld_set (via ct ld_new ld_default) lfl be)
  | FAny d => AnyDelim d
  | FChar c => cd_framer (via ct (cd_new c) (cd_default c))
  | FNoop => via ct noop_new noop_default
  end.
