(* Queue.v — the hot/cold run queue of compio-executor (src/queue.rs) and the
   tick loop of Executor::tick (src/lib.rs; compio-runtime passes
   event_interval as max_interval).

   The two intrusive doubly linked lists of queue.rs are modelled by Coq lists
   of task ids (link_tail = append, unlink = removal); slot-map keys by
   numbers that are never reused (a stale key is simply absent).  [qtaken] =
   the items whose `task` field is currently None (taken by tick).
   expect()/debug_assert! failures of the code are [Panic].  No proofs here. *)
From Compio.Model Require Import Base.

Record queue := mkq {
  qhot : list nat;
  qcold : list nat;
  qtaken : list nat;
  qnext : nat          (* the next fresh key *)
}.

Definition qempty : queue := mkq [] [] [] 0.

Definition mem (k : nat) (l : list nat) : bool := existsb (Nat.eqb k) l.
Definition rem (k : nat) (l : list nat) : list nat := filter (fun x => negb (Nat.eqb x k)) l.

Definition in_map (q : queue) (k : nat) : bool := mem k (qhot q) || mem k (qcold q).

(* TaskQueue::insert: a new item, linked to the tail of the hot list *)
Definition insert (q : queue) : queue * nat :=
  (mkq (qhot q ++ [qnext q]) (qcold q) (qtaken q) (S (qnext q)), qnext q).

(* Inner::make_hot: absent or already hot = nothing *)
Definition make_hot (q : queue) (k : nat) : queue :=
  if mem k (qcold q) then mkq (qhot q ++ [k]) (rem k (qcold q)) (qtaken q) (qnext q) else q.

(* Inner::make_cold: absent = nothing; debug_assert!(item.is_hot) *)
Definition make_cold (q : queue) (k : nat) : R queue :=
  if mem k (qhot q) then Ok (mkq (rem k (qhot q)) (qcold q ++ [k]) (qtaken q) (qnext q))
  else if mem k (qcold q) then Panic P_ASSERT
  else Ok q.

(* TaskQueue::take followed by tick's expect("Task was not reset back") *)
Definition take (q : queue) (k : nat) : R queue :=
  if negb (in_map q k) then Panic P_OTHER
  else if mem k (qtaken q) then Panic P_OTHER      (* "Task has already been taken" *)
  else Ok (mkq (qhot q) (qcold q) (k :: qtaken q) (qnext q)).

(* TaskQueue::reset: expect("Invalid key"), debug_assert!(place.task.is_none()) *)
Definition reset (q : queue) (k : nat) : R queue :=
  if negb (in_map q k) then Panic P_OTHER
  else if negb (mem k (qtaken q)) then Panic P_ASSERT
  else Ok (mkq (qhot q) (qcold q) (rem k (qtaken q)) (qnext q)).

(* TaskQueue::remove *)
Definition remove (q : queue) (k : nat) : queue :=
  mkq (rem k (qhot q)) (rem k (qcold q)) (rem k (qtaken q)) (qnext q).

Fixpoint succ_of (k : nat) (l : list nat) : option nat :=
  match l with
  | [] => None
  | x :: r => if Nat.eqb x k then hd_error r else succ_of k r
  end.

(* TaskQueue::next_hot: the live `next` link of [k]; debug_assert!(item.is_hot) *)
Definition next_hot (q : queue) (k : nat) : R (option nat) :=
  if mem k (qhot q) then Ok (succ_of k (qhot q))
  else if mem k (qcold q) then Panic P_ASSERT
  else Ok None.

Definition hot_head (q : queue) : option nat := hd_error (qhot q).
Definition has_hot (q : queue) : bool := match qhot q with [] => false | _ => true end.

(* TaskQueue::clear *)
Definition clear (q : queue) : queue := mkq [] [] [] (qnext q).

(* what the code running between and inside the polls can do to the queue:
   wake a task (Local::schedule, drain_sync -> make_hot) or spawn a new one *)
Inductive qop := QHot (k : nat) | QNew.

Definition apply_op (q : queue) (o : qop) : queue :=
  match o with QHot k => make_hot q k | QNew => fst (insert q) end.
Definition apply_ops (q : queue) (os : list qop) : queue := fold_left apply_op os q.

(* Executor::tick: `for id in queue.iter_hot().take(max_interval)`.
   Iter::next returns [cur] and reads its live `next` link BEFORE the body
   runs; the body makes the task cold, takes it, runs it ([run]: new world,
   what the poll did to the queue, Ready?), then removes or resets it. *)
Fixpoint iter {W : Type} (run : W -> nat -> W * list qop * bool) (fuel : nat)
         (cur : option nat) (q : queue) (w : W) (ran : list nat) : R (queue * W * list nat) :=
  match fuel, cur with
  | S f, Some c =>
    let! nxt := next_hot q c in
    let! q1 := make_cold q c in
    let! q2 := take q1 c in
    let '(w', ops, ready) := run w c in
    let q3 := apply_ops q2 ops in
    if ready then iter run f nxt (remove q3 c) w' (ran ++ [c])
    else let! q4 := reset q3 c in iter run f nxt q4 w' (ran ++ [c])
  | _, _ => Ok (q, w, ran)
  end.

Definition tick {W : Type} (run : W -> nat -> W * list qop * bool) (max_interval : nat)
           (q : queue) (w : W) : R (queue * W * list nat) :=
  iter run max_interval (hot_head q) q w [].

(* [n] ticks; [btw i] = what happens to the queue after tick i (wakes drained
   from other threads, wakes and spawns by the code around the ticks) *)
Fixpoint run_ticks {W : Type} (run : W -> nat -> W * list qop * bool) (max_interval : nat)
         (n : nat) (btw : nat -> list qop) (q : queue) (w : W) (acc : list (list nat))
  : R (queue * W * list (list nat)) :=
  match n with
  | O => Ok (q, w, acc)
  | S k =>
    let! '(q', w', ran) := tick run max_interval q w in
    run_ticks run max_interval k (fun i => btw (S i)) (apply_ops q' (btw 0)) w' (acc ++ [ran])
  end.
