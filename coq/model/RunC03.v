(* RunC03.v — acceptor of recorded wake-up histories (C03).

   Input:  [driver (0 = io_uring, 1 = polling); n; (kind, thread, arg) * n]
           kinds = the hook events of compio_driver::verif:
             20 AWAKE_SET, 21 AWAKE_RESET (arg = prior), 22 AWAKE_WAKE (arg = prior),
             23 NOTIFY_WRITE, 24 NOTIFY_CLEAR, 25 NOTIFIER_ARMED, 26 NOTIFIER_DISARMED,
             27 ENTER (arg = 2 * wanted + may_block), 28 ENTER_RETURN,
             29 AWAKE_BEGIN (a set / reset / wake of this thread is about to happen)
           thread 0 = the driver thread, 1.. = other threads.
   Output: [1; n; number of wakes] when the history is a run of the LTS of
           model/Wake.v restricted to the driver-level variables (AwakeFlag,
           who owes an eventfd write, NEED_PUSH_NOTIFIER, the driver thread's
           position in poll / flush), else [0; index; kind] of the event at
           which the best attempt got stuck.

   The hooks log an atomic operation AFTER performing it, so two threads'
   operations on the flag can appear in the log in the opposite order (a waker
   preempted between its fetch_or and the log entry can be many entries late).
   The acceptor therefore reconstructs the order of the read-modify-write chain
   from the recorded prior values and the AWAKE_BEGIN entries: see "Order
   reconstruction" below. *)
From Compio.Model Require Import Base Wake.
From Compio.Gen Require Import Consts.
Local Open Scope nat_scope.

Inductive dphase :=
| P0            (* outside poll / flush *)
| P1            (* poll: after reset *)
| P2            (* poll: notifier queued *)
| P3            (* poll: in the kernel *)
| P4            (* poll: back from the kernel *)
| P5            (* poll: after the first set_awake *)
| F1            (* flush: notifier queued *)
| F2            (* flush: in the kernel *)
| F3.           (* flush: back from the kernel, before reset *)

Record dst := mk_dst {
  dflag : N;
  dneed : bool;            (* NEED_PUSH_NOTIFIER *)
  dph : dphase;
  dnw : bool;              (* need_wait of the poll in progress *)
  owing : list N;          (* threads that found the flag IDLE and have not written yet *)
  nwakes : nat
}.

Definition dinit : dst := mk_dst AWAKE_IDLE true P0 true [] 0.

Definition mem (x : N) (l : list N) : bool := existsb (N.eqb x) l.
Fixpoint remove1 (x : N) (l : list N) : list N :=
  match l with
  | [] => []
  | y :: r => if N.eqb x y then r else y :: remove1 x r
  end.

(* the driver thread is between two calls (an error return skips the set_awake
   calls; the polling driver may return before the second set_awake; its flush
   is a bare reset) *)
Definition between_calls (is_uring : bool) (p : dphase) : bool :=
  match p with
  | P0 | P4 => true
  | P5 | P1 => negb is_uring
  | _ => false
  end.

Definition dstep (is_uring : bool) (s : dst) (kind th arg : N) : option dst :=
  let f := dflag s in
  let drv := N.eqb th 0 in
  match kind with
  | 22%N => (* AwakeFlag::wake: fetch_or(NOTIFIED) *)
    if N.eqb arg f && negb (mem th (owing s))
    then Some (mk_dst (fl_wake f) (dneed s) (dph s) (dnw s)
                      (if fl_idle f then th :: owing s else owing s) (S (nwakes s)))
    else None
  | 23%N => (* the notifier is written by a thread that found the flag IDLE *)
    if mem th (owing s)
    then Some (mk_dst f (dneed s) (dph s) (dnw s) (remove1 th (owing s)) (nwakes s))
    else None
  | 21%N => (* AwakeFlag::reset: swap(IDLE) *)
    if drv && N.eqb arg f then
      if between_calls is_uring (dph s)
      then Some (mk_dst AWAKE_IDLE (dneed s) P1 (negb (has_notified f)) (owing s) (nwakes s))
      else match dph s with
           | F3 => Some (mk_dst AWAKE_IDLE (dneed s) P0 (dnw s) (owing s) (nwakes s))
           | _ => None
           end
    else None
  | 25%N => (* the multishot poll on the eventfd is queued *)
    if drv && is_uring && dneed s then
      match dph s with
      | P1 => Some (mk_dst f false P2 (dnw s) (owing s) (nwakes s))
      | p => if between_calls is_uring p
             then Some (mk_dst f false F1 (dnw s) (owing s) (nwakes s)) else None
      end
    else None
  | 27%N => (* entering the kernel: arg = 2 * wanted + may_block *)
    let want := N.div arg 2 in
    let blk := N.odd arg in
    if negb drv then None else
    match dph s with
    | P1 | P2 =>
      let armed_ok := negb is_uring || negb (dneed s) in
      let want_ok := if is_uring then N.eqb want (if dnw s then 1 else 0) else N.eqb want 0 in
      let blk_ok := negb blk || dnw s in
      if armed_ok && want_ok && blk_ok
      then Some (mk_dst f (dneed s) P3 (dnw s) (owing s) (nwakes s)) else None
    | p =>
      (* io_uring flush: submit without waiting; the notifier must be armed by now *)
      if is_uring && (between_calls is_uring p || match p with F1 => true | _ => false end)
         && negb (dneed s) && N.eqb arg 0
      then Some (mk_dst f (dneed s) F2 (dnw s) (owing s) (nwakes s)) else None
    end
  | 28%N =>
    if negb drv then None else
    match dph s with
    | P3 => Some (mk_dst f (dneed s) P4 (dnw s) (owing s) (nwakes s))
    | F2 => Some (mk_dst f (dneed s) F3 (dnw s) (owing s) (nwakes s))
    | _ => None
    end
  | 20%N => (* AwakeFlag::set: store(AWAKE) *)
    if negb drv then None else
    match dph s with
    | P4 => Some (mk_dst AWAKE_AWAKE (dneed s) P5 (dnw s) (owing s) (nwakes s))
    | P5 => Some (mk_dst AWAKE_AWAKE (dneed s) P0 (dnw s) (owing s) (nwakes s))
    | _ => None
    end
  | 24%N => (* eventfd drained: only while handling completions, flag AWAKE *)
    if drv && is_uring then
      match dph s with P5 => Some s | _ => None end
    else None
  | 26%N => (* multishot poll ended *)
    if drv && is_uring then
      match dph s with
      | P5 => Some (mk_dst f true P5 (dnw s) (owing s) (nwakes s))
      | _ => None
      end
    else None
  | _ => None
  end.

(* a history given in the order of the atomic operations themselves *)
Fixpoint dsteps (is_uring : bool) (s : dst) (es : list (N * N * N)) : option dst :=
  match es with
  | [] => Some s
  | (k, th, a) :: r =>
    match dstep is_uring s k th a with
    | Some s' => dsteps is_uring s' r
    | None => None
    end
  end.

(* ---------------------------------------------------------------------- *)
(* Order reconstruction = linearizability check.

   Every AwakeFlag operation is bracketed in the log: AWAKE_BEGIN is recorded
   before the atomic operation, the operation's own event (with the prior value
   it found) after it.  The operation took effect somewhere between the two
   entries.  A history is accepted iff the operations can be ordered such that
     - each takes effect between its two log entries (so an operation whose
       second entry precedes another's first entry comes first),
     - every thread's events keep their order,
     - the sequence is a run of [dstep]: every recorded prior equals the flag
       value at that point, the driver thread walks through poll / flush, a
       notifier write is made exactly by a thread that found the flag IDLE.
   The search walks the log; an operation is given its place only when its
   second entry is reached (any admissible order can be rearranged that way):
   at that point some of the operations in flight (begun, not yet placed) are
   placed, in some order, ending with the one whose entry was reached.  The
   operations in flight are at most one per thread. *)

Record op := mk_op { o_id : nat; o_th : N; o_kind : N; o_arg : N }.

Inductive item :=
| IInv (o : op)                         (* the operation begins *)
| IRes (idx : nat) (id : nat)           (* its second log entry (at log index idx) *)
| IOther (idx : nat) (k th a : N).      (* any other event *)

Definition is_flag_kind (k : N) : bool :=
  match k with 20%N | 21%N | 22%N => true | _ => false end.

(* the first flag event of thread th in the rest of the log *)
Fixpoint find_res (th : N) (l : list N) : option (N * N) :=
  match l with
  | k :: t :: a :: r =>
    if N.eqb t th && is_flag_kind k then Some (k, a) else find_res th r
  | _ => None
  end.

Fixpoint last_of (th : N) (l : list (N * nat)) : option nat :=
  match l with
  | [] => None
  | (t, k) :: r => if N.eqb t th then Some k else last_of th r
  end.
Fixpoint drop_th (th : N) (l : list (N * nat)) : list (N * nat) :=
  match l with
  | [] => []
  | (t, k) :: r => if N.eqb t th then r else (t, k) :: drop_th th r
  end.

Fixpoint mk_items (i : nat) (open_ : list (N * nat)) (l : list N) : list item :=
  match l with
  | k :: th :: a :: r =>
    if N.eqb k 29 then
      match find_res th r with
      | Some (k', a') => IInv (mk_op i th k' a') :: mk_items (S i) ((th, i) :: drop_th th open_) r
      | None => mk_items (S i) open_ r       (* never completed within the log: not judged *)
      end
    else if is_flag_kind k then
      match last_of th open_ with
      | Some id => IRes i id :: mk_items (S i) (drop_th th open_) r
      | None => IInv (mk_op i th k a) :: IRes i i :: mk_items (S i) open_ r   (* no begin entry *)
      end
    else IOther i k th a :: mk_items (S i) open_ r
  | _ => []
  end.

Definition apply_op (is_uring : bool) (s : dst) (o : op) : option dst :=
  dstep is_uring s (o_kind o) (o_th o) (o_arg o).

Fixpoint remove_op (id : nat) (l : list op) : list op :=
  match l with
  | [] => []
  | o :: r => if Nat.eqb (o_id o) id then r else o :: remove_op id r
  end.
Definition memn (x : nat) (l : list nat) : bool := existsb (Nat.eqb x) l.
Fixpoint removen (x : nat) (l : list nat) : list nat :=
  match l with
  | [] => []
  | y :: r => if Nat.eqb x y then r else y :: removen x r
  end.

(* all ways to place some of the operations in flight, ending with [target]:
   (state after, operations still in flight, ids placed before the target) *)
Fixpoint batches (fuel : nat) (is_uring : bool) (s : dst) (pend : list op) (target : nat)
                 (placed : list nat) : list (dst * list op * list nat) :=
  match fuel with
  | O => []
  | S f =>
    flat_map (fun o =>
      match apply_op is_uring s o with
      | None => []
      | Some s' =>
        if Nat.eqb (o_id o) target
        then [(s', remove_op target pend, placed)]
        else batches f is_uring s' (remove_op (o_id o) pend) target (o_id o :: placed)
      end) pend
  end.

(* returns (accepted, remaining budget, furthest log index reached, final state) *)
Fixpoint walk (is_uring : bool) (items : list item) (s : dst) (pend : list op) (done : list nat)
              (budget : N) (far : nat) : bool * N * nat * dst :=
  match items with
  | [] => (isnil (owing s), budget, far, s)
  | IInv o :: r => walk is_uring r s (pend ++ [o]) done budget far
  | IOther idx k th a :: r =>
    match dstep is_uring s k th a with
    | Some s' => walk is_uring r s' pend done budget idx
    | None => (false, budget, idx, s)
    end
  | IRes idx id :: r =>
    if memn id done then walk is_uring r s pend (removen id done) budget idx else
    (fix try (cs : list (dst * list op * list nat)) (budget : N) (far : nat) : bool * N * nat * dst :=
       match cs with
       | [] => (false, budget, far, s)
       | (s', pend', placed) :: more =>
         if N.eqb budget 0 then (false, 0%N, far, s) else
         match walk is_uring r s' pend' (placed ++ done) (budget - 1)%N idx with
         | (true, b, f, sf) => (true, b, f, sf)
         | (false, b, f, _) => try more b (Nat.max far f)
         end
       end) (batches (S (length pend)) is_uring s pend id []) budget idx
  end.

Definition run_c03 (l : list N) : list N :=
  match l with
  | drv :: n :: r =>
    if negb (N.leb drv 1) then BAD_CASE else
    if negb (Nat.eqb (length r) (3 * nn n)) then BAD_CASE else
    match walk (N.eqb drv 0) (mk_items 0 [] r) dinit [] [] (50 * n + 5000)%N 0 with
    | (true, _, _, sf) => [1%N; n; NN (nwakes sf)]
    | (false, _, far, _) => [0%N; NN far; nth (3 * far) r 0%N]
    end
  | _ => BAD_CASE
  end.
