(* RunC03.v — acceptor of recorded wake-up histories (C03).

   Input:  [driver (0 = io_uring, 1 = polling); n; (kind, thread, arg) * n]
           kinds = the hook events of compio_driver::verif:
             20 AWAKE_SET, 21 AWAKE_RESET (arg = prior), 22 AWAKE_WAKE (arg = prior),
             23 NOTIFY_WRITE, 24 NOTIFY_CLEAR, 25 NOTIFIER_ARMED, 26 NOTIFIER_DISARMED,
             27 ENTER (arg = 2 * wanted + may_block), 28 ENTER_RETURN
           thread 0 = the driver thread, 1.. = other threads.
   Output: [1; n; number of wakes] when the history is a run of the LTS of
           model/Wake.v restricted to the driver-level variables (AwakeFlag,
           who owes an eventfd write, NEED_PUSH_NOTIFIER, the driver thread's
           position in poll / flush), else [0; index; kind] of the event at
           which the best attempt got stuck.

   The hooks log an atomic operation AFTER performing it, so two threads'
   operations on the flag can appear in the log in the opposite order.  The
   acceptor therefore searches for an order of the read-modify-write chain that
   respects every thread's own order and the recorded prior values (events may
   be taken out of log order within a small window). *)
From Compio.Model Require Import Base Wake.
From Compio.Gen Require Import Consts.
Local Open Scope nat_scope.

Inductive dphase :=
| P0            (* outside poll / flush *)
| P1            (* poll: after reset *)
| P2            (* poll: notifier queued *)
| P3            (* poll: in the kernel *)
| P4            (* poll: back from the kernel *)
| P5            (* poll: after the first set_awake *)
| F1            (* flush: notifier queued *)
| F2            (* flush: in the kernel *)
| F3.           (* flush: back from the kernel, before reset *)

Record dst := mk_dst {
  dflag : N;
  dneed : bool;            (* NEED_PUSH_NOTIFIER *)
  dph : dphase;
  dnw : bool;              (* need_wait of the poll in progress *)
  owing : list N;          (* threads that found the flag IDLE and have not written yet *)
  nwakes : nat
}.

Definition dinit : dst := mk_dst AWAKE_IDLE true P0 true [] 0.

Definition mem (x : N) (l : list N) : bool := existsb (N.eqb x) l.
Fixpoint remove1 (x : N) (l : list N) : list N :=
  match l with
  | [] => []
  | y :: r => if N.eqb x y then r else y :: remove1 x r
  end.

(* the driver thread is between two calls (an error return skips the set_awake
   calls; the polling driver may return before the second set_awake; its flush
   is a bare reset) *)
Definition between_calls (is_uring : bool) (p : dphase) : bool :=
  match p with
  | P0 | P4 => true
  | P5 | P1 => negb is_uring
  | _ => false
  end.

Definition dstep (is_uring : bool) (s : dst) (kind th arg : N) : option dst :=
  let f := dflag s in
  let drv := N.eqb th 0 in
  match kind with
  | 22%N => (* AwakeFlag::wake: fetch_or(NOTIFIED) *)
    if N.eqb arg f && negb (mem th (owing s))
    then Some (mk_dst (fl_wake f) (dneed s) (dph s) (dnw s)
                      (if fl_idle f then th :: owing s else owing s) (S (nwakes s)))
    else None
  | 23%N => (* the notifier is written by a thread that found the flag IDLE *)
    if mem th (owing s)
    then Some (mk_dst f (dneed s) (dph s) (dnw s) (remove1 th (owing s)) (nwakes s))
    else None
  | 21%N => (* AwakeFlag::reset: swap(IDLE) *)
    if drv && N.eqb arg f then
      if between_calls is_uring (dph s)
      then Some (mk_dst AWAKE_IDLE (dneed s) P1 (negb (has_notified f)) (owing s) (nwakes s))
      else match dph s with
           | F3 => Some (mk_dst AWAKE_IDLE (dneed s) P0 (dnw s) (owing s) (nwakes s))
           | _ => None
           end
    else None
  | 25%N => (* the multishot poll on the eventfd is queued *)
    if drv && is_uring && dneed s then
      match dph s with
      | P1 => Some (mk_dst f false P2 (dnw s) (owing s) (nwakes s))
      | p => if between_calls is_uring p
             then Some (mk_dst f false F1 (dnw s) (owing s) (nwakes s)) else None
      end
    else None
  | 27%N => (* entering the kernel: arg = 2 * wanted + may_block *)
    let want := N.div arg 2 in
    let blk := N.odd arg in
    if negb drv then None else
    match dph s with
    | P1 | P2 =>
      let armed_ok := negb is_uring || negb (dneed s) in
      let want_ok := if is_uring then N.eqb want (if dnw s then 1 else 0) else N.eqb want 0 in
      let blk_ok := negb blk || dnw s in
      if armed_ok && want_ok && blk_ok
      then Some (mk_dst f (dneed s) P3 (dnw s) (owing s) (nwakes s)) else None
    | p =>
      (* io_uring flush: submit without waiting; the notifier must be armed by now *)
      if is_uring && (between_calls is_uring p || match p with F1 => true | _ => false end)
         && negb (dneed s) && N.eqb arg 0
      then Some (mk_dst f (dneed s) F2 (dnw s) (owing s) (nwakes s)) else None
    end
  | 28%N =>
    if negb drv then None else
    match dph s with
    | P3 => Some (mk_dst f (dneed s) P4 (dnw s) (owing s) (nwakes s))
    | F2 => Some (mk_dst f (dneed s) F3 (dnw s) (owing s) (nwakes s))
    | _ => None
    end
  | 20%N => (* AwakeFlag::set: store(AWAKE) *)
    if negb drv then None else
    match dph s with
    | P4 => Some (mk_dst AWAKE_AWAKE (dneed s) P5 (dnw s) (owing s) (nwakes s))
    | P5 => Some (mk_dst AWAKE_AWAKE (dneed s) P0 (dnw s) (owing s) (nwakes s))
    | _ => None
    end
  | 24%N => (* eventfd drained: only while handling completions, flag AWAKE *)
    if drv && is_uring then
      match dph s with P5 => Some s | _ => None end
    else None
  | 26%N => (* multishot poll ended *)
    if drv && is_uring && negb (dneed s) then
      match dph s with
      | P5 => Some (mk_dst f true P5 (dnw s) (owing s) (nwakes s))
      | _ => None
      end
    else None
  | _ => None
  end.

Definition ev := (N * N * N)%type.
Definition ev_kind (x : ev) : N := fst (fst x).
Definition ev_th (x : ev) : N := snd (fst x).
Definition ev_arg (x : ev) : N := snd x.

(* the (index, event) pairs of [pend] that may be taken next: within the
   first [w] entries, the first pending event of its thread *)
Fixpoint cands (w : nat) (seen_th : list N) (pend : list (nat * ev)) (before : list (nat * ev))
  : list ((nat * ev) * list (nat * ev)) :=
  match w, pend with
  | S w', x :: rest =>
    let th := ev_th (snd x) in
    let others := cands w' (th :: seen_th) rest (before ++ [x]) in
    if mem th seen_th then others else (x, before ++ rest) :: others
  | _, _ => []
  end.

Definition WINDOW : nat := 6.

(* depth-first search; [budget] bounds the total number of attempts.
   Returns (accepted, remaining budget, furthest log index at which an attempt got stuck, wakes) *)
Fixpoint search (depth : nat) (is_uring : bool) (s : dst) (pend : list (nat * ev)) (budget : N)
  : bool * N * nat * nat :=
  match pend with
  | [] => (isnil (owing s), budget, 0, nwakes s)
  | first :: _ =>
    match depth with
    | O => (false, budget, fst first, 0)
    | S dep =>
      (fix try (cs : list ((nat * ev) * list (nat * ev))) (budget : N) (far : nat)
         : bool * N * nat * nat :=
         match cs with
         | [] => (false, budget, far, 0)
         | (x, rest) :: more =>
           if N.eqb budget 0 then (false, 0%N, far, 0) else
           match dstep is_uring s (ev_kind (snd x)) (ev_th (snd x)) (ev_arg (snd x)) with
           | None => try more (budget - 1)%N far
           | Some s' =>
             match search dep is_uring s' rest (budget - 1)%N with
             | (true, b, f, nwk) => (true, b, f, nwk)
             | (false, b, f, _) => try more b (Nat.max far f)
             end
           end
         end) (cands WINDOW [] pend []) budget (fst first)
    end
  end.

Fixpoint dec_evs (n : nat) (i : nat) (l : list N) : option (list (nat * ev)) :=
  match n with
  | O => match l with [] => Some [] | _ => None end
  | S n' =>
    match l with
    | k :: th :: a :: r =>
      match dec_evs n' (S i) r with
      | Some es => Some ((i, (k, th, a)) :: es)
      | None => None
      end
    | _ => None
    end
  end.

Definition run_c03 (l : list N) : list N :=
  match l with
  | drv :: n :: r =>
    if negb (N.leb drv 1) then BAD_CASE else
    match dec_evs (nn n) 0 r with
    | None => BAD_CASE
    | Some es =>
      let is_uring := N.eqb drv 0 in
      let budget := (20 * n + 1000)%N in
      match search (S (length es)) is_uring dinit es budget with
      | (true, _, _, nwk) => [1%N; n; NN nwk]
      | (false, _, far, _) => [0%N; NN far; nth (3 * far) r 0%N]
      end
    end
  | _ => BAD_CASE
  end.
