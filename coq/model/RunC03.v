(* RunC03.v — acceptor of recorded wake-up histories (C03).

   Input:  [driver (0 = io_uring, 1 = polling); n; (kind, thread, arg) * n]
           kinds = the hook events of compio_driver::verif:
             20 AWAKE_SET, 21 AWAKE_RESET (arg = prior), 22 AWAKE_WAKE (arg = prior),
             23 NOTIFY_WRITE, 24 NOTIFY_CLEAR, 25 NOTIFIER_ARMED, 26 NOTIFIER_DISARMED,
             27 ENTER (arg = 2 * wanted + may_block), 28 ENTER_RETURN,
             29 AWAKE_BEGIN (a set / reset / wake of this thread is about to happen)
           thread 0 = the driver thread, 1.. = other threads.
   Output: [1; n; number of wakes] when the history is a run of the LTS of
           model/Wake.v restricted to the driver-level variables (AwakeFlag,
           who owes an eventfd write, NEED_PUSH_NOTIFIER, the driver thread's
           position in poll / flush), else [0; index; kind] of the event at
           which the best attempt got stuck.

   The hooks log an atomic operation AFTER performing it, so two threads'
   operations on the flag can appear in the log in the opposite order (a waker
   preempted between its fetch_or and the log entry can be many entries late).
   The acceptor therefore reconstructs the order of the read-modify-write chain
   from the recorded prior values: see "Order reconstruction" below. *)
From Compio.Model Require Import Base Wake.
From Compio.Gen Require Import Consts.
Local Open Scope nat_scope.

Inductive dphase :=
| P0            (* outside poll / flush *)
| P1            (* poll: after reset *)
| P2            (* poll: notifier queued *)
| P3            (* poll: in the kernel *)
| P4            (* poll: back from the kernel *)
| P5            (* poll: after the first set_awake *)
| F1            (* flush: notifier queued *)
| F2            (* flush: in the kernel *)
| F3.           (* flush: back from the kernel, before reset *)

Record dst := mk_dst {
  dflag : N;
  dneed : bool;            (* NEED_PUSH_NOTIFIER *)
  dph : dphase;
  dnw : bool;              (* need_wait of the poll in progress *)
  owing : list N;          (* threads that found the flag IDLE and have not written yet *)
  nwakes : nat
}.

Definition dinit : dst := mk_dst AWAKE_IDLE true P0 true [] 0.

Definition mem (x : N) (l : list N) : bool := existsb (N.eqb x) l.
Fixpoint remove1 (x : N) (l : list N) : list N :=
  match l with
  | [] => []
  | y :: r => if N.eqb x y then r else y :: remove1 x r
  end.

(* the driver thread is between two calls (an error return skips the set_awake
   calls; the polling driver may return before the second set_awake; its flush
   is a bare reset) *)
Definition between_calls (is_uring : bool) (p : dphase) : bool :=
  match p with
  | P0 | P4 => true
  | P5 | P1 => negb is_uring
  | _ => false
  end.

Definition dstep (is_uring : bool) (s : dst) (kind th arg : N) : option dst :=
  let f := dflag s in
  let drv := N.eqb th 0 in
  match kind with
  | 22%N => (* AwakeFlag::wake: fetch_or(NOTIFIED) *)
    if N.eqb arg f && negb (mem th (owing s))
    then Some (mk_dst (fl_wake f) (dneed s) (dph s) (dnw s)
                      (if fl_idle f then th :: owing s else owing s) (S (nwakes s)))
    else None
  | 23%N => (* the notifier is written by a thread that found the flag IDLE *)
    if mem th (owing s)
    then Some (mk_dst f (dneed s) (dph s) (dnw s) (remove1 th (owing s)) (nwakes s))
    else None
  | 21%N => (* AwakeFlag::reset: swap(IDLE) *)
    if drv && N.eqb arg f then
      if between_calls is_uring (dph s)
      then Some (mk_dst AWAKE_IDLE (dneed s) P1 (negb (has_notified f)) (owing s) (nwakes s))
      else match dph s with
           | F3 => Some (mk_dst AWAKE_IDLE (dneed s) P0 (dnw s) (owing s) (nwakes s))
           | _ => None
           end
    else None
  | 25%N => (* the multishot poll on the eventfd is queued *)
    if drv && is_uring && dneed s then
      match dph s with
      | P1 => Some (mk_dst f false P2 (dnw s) (owing s) (nwakes s))
      | p => if between_calls is_uring p
             then Some (mk_dst f false F1 (dnw s) (owing s) (nwakes s)) else None
      end
    else None
  | 27%N => (* entering the kernel: arg = 2 * wanted + may_block *)
    let want := N.div arg 2 in
    let blk := N.odd arg in
    if negb drv then None else
    match dph s with
    | P1 | P2 =>
      let armed_ok := negb is_uring || negb (dneed s) in
      let want_ok := if is_uring then N.eqb want (if dnw s then 1 else 0) else N.eqb want 0 in
      let blk_ok := negb blk || dnw s in
      if armed_ok && want_ok && blk_ok
      then Some (mk_dst f (dneed s) P3 (dnw s) (owing s) (nwakes s)) else None
    | p =>
      (* io_uring flush: submit without waiting; the notifier must be armed by now *)
      if is_uring && (between_calls is_uring p || match p with F1 => true | _ => false end)
         && negb (dneed s) && N.eqb arg 0
      then Some (mk_dst f (dneed s) F2 (dnw s) (owing s) (nwakes s)) else None
    end
  | 28%N =>
    if negb drv then None else
    match dph s with
    | P3 => Some (mk_dst f (dneed s) P4 (dnw s) (owing s) (nwakes s))
    | F2 => Some (mk_dst f (dneed s) F3 (dnw s) (owing s) (nwakes s))
    | _ => None
    end
  | 20%N => (* AwakeFlag::set: store(AWAKE) *)
    if negb drv then None else
    match dph s with
    | P4 => Some (mk_dst AWAKE_AWAKE (dneed s) P5 (dnw s) (owing s) (nwakes s))
    | P5 => Some (mk_dst AWAKE_AWAKE (dneed s) P0 (dnw s) (owing s) (nwakes s))
    | _ => None
    end
  | 24%N => (* eventfd drained: only while handling completions, flag AWAKE *)
    if drv && is_uring then
      match dph s with P5 => Some s | _ => None end
    else None
  | 26%N => (* multishot poll ended *)
    if drv && is_uring then
      match dph s with
      | P5 => Some (mk_dst f true P5 (dnw s) (owing s) (nwakes s))
      | _ => None
      end
    else None
  | _ => None
  end.

(* a history given in the order of the atomic operations themselves *)
Fixpoint dsteps (is_uring : bool) (s : dst) (es : list (N * N * N)) : option dst :=
  match es with
  | [] => Some s
  | (k, th, a) :: r =>
    match dstep is_uring s k th a with
    | Some s' => dsteps is_uring s' r
    | None => None
    end
  end.

(* ---------------------------------------------------------------------- *)
(* Order reconstruction.  The hooks log an operation after performing it, so a
   waker's fetch_or can appear in the log long after driver operations that
   really followed it.  The driver thread's own operations are in order; each
   of its stores to the flag (reset -> IDLE, set -> AWAKE) starts a PHASE with
   that base value.  A wake with prior = base is the FIRST wake of its phase
   (it sets NOTIFIED), a wake with prior = base + NOTIFIED a LATER one.  The
   recorded priors determine the order up to commuting operations iff every
   wake can be assigned to a phase such that
     - a phase has at most one first wake, and later wakes only with a first one
       (possibly still to come in the log: a debt, to be paid by the end),
     - a phase closed by reset(prior) has a first wake iff prior has NOTIFIED,
     - along each thread the phases do not decrease, and a thread's first wake of
       a phase is its first event in that phase,
     - a wake is not assigned to a phase whose closing store was logged before
       the wake's own AWAKE_BEGIN entry (that phase was over when the wake began),
     - a wake is assigned to a phase that had started when it was logged, or -
       the driver's own log entry being the late one - to the next phases (the
       event is deferred and retried whenever the driver starts a phase).
   Such an assignment yields an interleaving (per phase: the first wake, the
   later wakes, the closing store) that reproduces every recorded prior.      *)

Inductive closing := COpen | CBySet | CByReset (notified : bool).

Record phase := mk_ph {
  ph_id : nat;
  ph_base : N;            (* AWAKE_IDLE or AWAKE_AWAKE *)
  ph_first : bool;        (* the first wake of the phase has been seen *)
  ph_debt : bool;         (* a first wake is implied (later wake / closing prior) but not seen yet *)
  ph_close : closing;
  ph_closed_at : option nat   (* log index of the closing store's entry *)
}.

Definition ph_set_first (p : phase) := mk_ph (ph_id p) (ph_base p) true false (ph_close p) (ph_closed_at p).
Definition ph_set_debt (p : phase) := mk_ph (ph_id p) (ph_base p) (ph_first p) (negb (ph_first p)) (ph_close p) (ph_closed_at p).
Definition ph_closed (cl : closing) (at_ : nat) (p : phase) := mk_ph (ph_id p) (ph_base p) (ph_first p) (ph_debt p) cl (Some at_).

(* the phase was not yet closed when the operation that began at log index [bg] started:
   its closing store was logged at or after [bg] *)
Definition alive (bg : option nat) (p : phase) : bool :=
  match bg, ph_closed_at p with
  | Some b, Some c => Nat.leb b c
  | _, _ => true
  end.

(* may this phase (still) receive a first wake / a later wake? *)
Definition takes_first (p : phase) : bool :=
  negb (ph_first p) &&
  match ph_close p with COpen | CBySet => true | CByReset n => n end.
Definition takes_later (p : phase) : bool :=
  match ph_close p with CByReset false => false | _ => true end.

Record ast := mk_ast {
  a_drv : dst;                    (* the driver thread's automaton; its dflag is not used *)
  a_phases : list phase;          (* most recent first; the head is open *)
  a_last : list (N * nat);        (* per thread: the phase of its last wake *)
  a_begin : list (N * nat);       (* per thread: log index of its last AWAKE_BEGIN *)
  a_defer : list (nat * (N * N * N) * option nat)
     (* (log index, event, begin index): waker events waiting for a phase that the
        driver has started but not logged yet, in log order *)
}.

Fixpoint last_of (th : N) (l : list (N * nat)) : option nat :=
  match l with
  | [] => None
  | (t, k) :: r => if N.eqb t th then Some k else last_of th r
  end.
Fixpoint set_last (th : N) (k : nat) (l : list (N * nat)) : list (N * nat) :=
  match l with
  | [] => [(th, k)]
  | (t, k0) :: r => if N.eqb t th then (t, k) :: r else (t, k0) :: set_last th k r
  end.

Definition base_of (prior : N) : N := N.land prior AWAKE_AWAKE.

Definition PHASE_WINDOW : nat := 64.

(* replace the first phase of [l] (within [w]) satisfying [ok] by [f] of it *)
Fixpoint place (w : nat) (ok : phase -> bool) (f : phase -> phase) (l : list phase)
  : option (nat * list phase) :=
  match w, l with
  | S w', p :: r =>
    if ok p then Some (ph_id p, f p :: r)
    else match place w' ok f r with
         | Some (k, r') => Some (k, p :: r')
         | None => None
         end
  | _, _ => None
  end.

Definition current_value (a : ast) : N :=
  match a_phases a with
  | p :: _ => if ph_first p || ph_debt p then fl_wake (ph_base p) else ph_base p
  | [] => AWAKE_IDLE
  end.

(* a wake (fetch_or) with the recorded prior, by thread th *)
Definition place_wake (a : ast) (bg : option nat) (th prior : N) : option ast :=
  let b := base_of prior in
  let later := has_notified prior in
  let lo := last_of th (a_last a) in
  let after_last (strict : bool) (p : phase) : bool :=
    match lo with
    | None => true
    | Some k => if strict then Nat.ltb k (ph_id p) else Nat.leb k (ph_id p)
    end in
  let own := N.eqb th 0 in   (* the driver thread's own wake belongs to the open phase *)
  let w := if own then 1 else PHASE_WINDOW in
  let res :=
    if later then
      match place w (fun p => N.eqb (ph_base p) b && alive bg p && after_last false p && (ph_first p || ph_debt p))
                  (fun p => p) (a_phases a) with
      | Some r => Some r
      | None =>
        (* its first wake is not in the log yet: a debt *)
        place w (fun p => N.eqb (ph_base p) b && alive bg p && after_last false p && takes_later p && takes_first p)
              ph_set_debt (a_phases a)
      end
    else
      match place w (fun p => N.eqb (ph_base p) b && alive bg p && after_last true p && ph_debt p && takes_first p)
                  ph_set_first (a_phases a) with
      | Some r => Some r
      | None =>
        place w (fun p => N.eqb (ph_base p) b && alive bg p && after_last true p && takes_first p)
              ph_set_first (a_phases a)
      end in
  match res with
  | None => None
  | Some (k, phs) =>
    let dv := a_drv a in
    if mem th (owing dv) then None else
    let dv' := mk_dst (dflag dv) (dneed dv) (dph dv) (dnw dv)
                      (if fl_idle prior then th :: owing dv else owing dv) (S (nwakes dv)) in
    Some (mk_ast dv' phs (set_last th k (a_last a)) (a_begin a) (a_defer a))
  end.

Definition new_phase (a : ast) (cl : closing) (at_ : nat) (base : N) : list phase :=
  match a_phases a with
  | p :: r => mk_ph (S (ph_id p)) base false false COpen None :: ph_closed cl at_ p :: r
  | [] => [mk_ph 0 base false false COpen None]
  end.

(* reset with a prior that lacks NOTIFIED although the open phase holds a first
   wake: that wake (and the later ones) really belong to the preceding phase of
   the same base, whose NOTIFIED the intervening store discarded *)
Definition relocate (a : ast) : option ast :=
  match a_phases a with
  | p :: q :: r =>
    if (ph_first p || ph_debt p) && N.eqb (ph_base p) (ph_base q) && takes_first q && takes_later q
    then
      let q' := mk_ph (ph_id q) (ph_base q) (ph_first p) (ph_debt p) (ph_close q) (ph_closed_at q) in
      let p' := mk_ph (ph_id p) (ph_base p) false false (ph_close p) (ph_closed_at p) in
      Some (mk_ast (a_drv a) (p' :: q' :: r)
                   (map (fun tk => if Nat.eqb (snd tk) (ph_id p) then (fst tk, ph_id q) else tk) (a_last a))
                   (a_begin a) (a_defer a))
    else None
  | _ => None
  end.

(* reset with a NOTIFIED prior although the open phase holds no wake, while the
   preceding phase of the same base (closed by a plain store) does: the
   driver's store was logged late, those wakes came after it *)
Definition pull_forward (a : ast) : option ast :=
  match a_phases a with
  | p :: q :: r =>
    if negb (ph_first p || ph_debt p) && (ph_first q || ph_debt q) && N.eqb (ph_base p) (ph_base q)
       && match ph_close q with CBySet => true | _ => false end
    then
      let p' := mk_ph (ph_id p) (ph_base p) (ph_first q) (ph_debt q) (ph_close p) (ph_closed_at p) in
      let q' := mk_ph (ph_id q) (ph_base q) false false (ph_close q) (ph_closed_at q) in
      Some (mk_ast (a_drv a) (p' :: q' :: r)
                   (map (fun tk => if Nat.eqb (snd tk) (ph_id q) then (fst tk, ph_id p) else tk) (a_last a))
                   (a_begin a) (a_defer a))
    else None
  | _ => None
  end.

Definition astep_now (is_uring : bool) (i : nat) (bg : option nat) (a : ast) (kind th arg : N) : option ast :=
  match kind with
  | 22%N => place_wake a bg th arg
  | 21%N =>
    (* reset: the prior must agree with the open phase; a NOTIFIED prior without
       a first wake seen so far is a debt *)
    let n := has_notified arg in
    let a1 :=
      match a_phases a with
      | p :: _ => if negb n && (ph_first p || ph_debt p)
                  then match relocate a with Some a' => a' | None => a end
                  else if n && negb (ph_first p || ph_debt p)
                  then match pull_forward a with Some a' => a' | None => a end
                  else a
      | [] => a
      end in
    match a_phases a1 with
    | [] => None
    | p :: _ =>
      if N.eqb (base_of arg) (ph_base p) && (n || negb (ph_first p || ph_debt p)) then
        (* run the driver automaton on a flag value that matches *)
        let dv := a_drv a1 in
        match dstep is_uring (mk_dst arg (dneed dv) (dph dv) (dnw dv) (owing dv) (nwakes dv)) kind th arg with
        | None => None
        | Some dv' =>
          let p' := if n then ph_set_debt p else p in
          let a' := mk_ast dv' (p' :: tl (a_phases a1)) (a_last a1) (a_begin a1) (a_defer a1) in
          Some (mk_ast dv' (new_phase a' (CByReset n) i AWAKE_IDLE) (a_last a1) (a_begin a1) (a_defer a1))
        end
      else None
    end
  | 20%N =>
    match dstep is_uring (a_drv a) kind th arg with
    | None => None
    | Some dv' => Some (mk_ast dv' (new_phase a CBySet i AWAKE_AWAKE) (a_last a) (a_begin a) (a_defer a))
    end
  | _ =>
    match dstep is_uring (a_drv a) kind th arg with
    | None => None
    | Some dv' => Some (mk_ast dv' (a_phases a) (a_last a) (a_begin a) (a_defer a))
    end
  end.

Definition has_deferred (th : N) (l : list (nat * (N * N * N) * option nat)) : bool :=
  existsb (fun x => N.eqb (snd (fst (snd (fst x)))) th) l.

(* retry the deferred events in order; an event stays deferred when it still
   cannot be placed or when an earlier event of its thread stays deferred *)
Fixpoint retry (is_uring : bool) (a : ast) (l : list (nat * (N * N * N) * option nat))
               (kept : list (nat * (N * N * N) * option nat)) : ast :=
  match l with
  | [] => mk_ast (a_drv a) (a_phases a) (a_last a) (a_begin a) kept
  | x :: r =>
    let '(k, th, arg) := snd (fst x) in
    if has_deferred th kept then retry is_uring a r (kept ++ [x]) else
    match astep_now is_uring (fst (fst x)) (snd x) a k th arg with
    | Some a' => retry is_uring a' r kept
    | None => retry is_uring a r (kept ++ [x])
    end
  end.

Definition DEFER_MAX : nat := 64.

Definition astep (is_uring : bool) (i : nat) (a : ast) (kind th arg : N) : option ast :=
  if N.eqb kind 29 then
    Some (mk_ast (a_drv a) (a_phases a) (a_last a) (set_last th i (a_begin a)) (a_defer a))
  else
  let bg := last_of th (a_begin a) in
  let waker_ev := match kind with 22%N | 23%N => negb (N.eqb th 0) | _ => false end in
  if waker_ev && has_deferred th (a_defer a) then
    if Nat.ltb (length (a_defer a)) DEFER_MAX
    then Some (mk_ast (a_drv a) (a_phases a) (a_last a) (a_begin a) (a_defer a ++ [(i, (kind, th, arg), bg)]))
    else None
  else
  match astep_now is_uring i bg a kind th arg with
  | Some a' =>
    match kind with
    | 20%N | 21%N => Some (retry is_uring a' (a_defer a') [])   (* a new phase has started *)
    | _ => Some a'
    end
  | None =>
    if waker_ev && N.eqb kind 22 && Nat.ltb (length (a_defer a)) DEFER_MAX
    then Some (mk_ast (a_drv a) (a_phases a) (a_last a) (a_begin a) (a_defer a ++ [(i, (kind, th, arg), bg)]))
    else None
  end.

Definition ainit : ast := mk_ast dinit [mk_ph 0 AWAKE_IDLE false false COpen None] [] [] [].

Fixpoint areplay (is_uring : bool) (a : ast) (es : list N) (i : nat) : ast + nat :=
  match es with
  | k :: th :: arg :: r =>
    match astep is_uring i a k th arg with
    | Some a' => areplay is_uring a' r (S i)
    | None => inr i
    end
  | _ => inl a
  end.

Definition no_debt (a : ast) : bool := forallb (fun p => negb (ph_debt p)) (a_phases a).

Definition run_c03 (l : list N) : list N :=
  match l with
  | drv :: n :: r =>
    if negb (N.leb drv 1) then BAD_CASE else
    if negb (Nat.eqb (length r) (3 * nn n)) then BAD_CASE else
    match areplay (N.eqb drv 0) ainit r 0 with
    | inl a =>
      match a_defer a with
      | x :: _ => [0%N; NN (fst (fst x)); fst (fst (snd (fst x)))]   (* a wake that fits no phase *)
      | [] =>
        if isnil (owing (a_drv a)) && no_debt a
        then [1%N; n; NN (nwakes (a_drv a))]
        else [0%N; n; 0%N]      (* a notifier write or a first wake never showed up *)
      end
    | inr i => [0%N; NN i; nth (3 * i) r 0%N]
    end
  | _ => BAD_CASE
  end.
