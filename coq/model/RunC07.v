(* RunC07.v — acceptor of buffer-ownership histories recorded on the real
   compio code (POOL_BUF hooks of compio_driver::verif + the operation events
   KEY_NEW / SUBMIT / CQE_MORE / SET_RESULT / KEY_FREE + the user actions the
   harness logs), harness/rt/src/bin/c07.rs.

   Input : [driver (0 io_uring, 1 polling); pool size; (kind a b)*]
   Output: [1; nbuf; |freed|; live handles; ring count; other holders; nbusy; kernel selections]
           when every event is a step of the LTS of Pool.v (the hook events are
           id-centric: the acceptor resolves who holds the id and fires the
           label of that holder; every id the kernel hands out must be the
           ring head the model predicts, every ring index / tail the code
           reports must be the one the model computes, exhaustion is accepted
           only when the model's ring / queue is empty);
           an awaited next() of a stream / read while the user holds every buffer
           must have produced the exhaustion error (event 109);
           [0; index of the first rejected event; its kind] otherwise;
           [2; code] when the model panics. *)
From Compio.Model Require Import Base Pool.
Local Open Scope nat_scope.

Definition ev3 := (N * N * N)%type.

Fixpoint triples (fuel : nat) (l : list N) : option (list ev3) :=
  match fuel with
  | O => match l with [] => Some [] | _ => None end
  | S f =>
    match l with
    | [] => Some []
    | k :: a :: b :: r => match triples f r with Some es => Some ((k, a, b) :: es) | None => None end
    | _ => None
    end
  end.

Definition dec_res (x : N) : rescls :=
  match x with 0%N => ROk | 1%N => RZero | 2%N => RNoBufs | 3%N => RCancel | _ => RErr end.

Record ast := mk_ast {
  a_st : option st;
  a_init : nat;               (* RING_ADD events of BufControl::new still expected *)
  a_exp44 : list nat;         (* RELEASE_DEALLOC events still expected, in order *)
  a_drop : option nat;        (* the user announced the drop of the handle with this id *)
  a_nsel : nat                (* buffers the kernel selected *)
}.

Inductive verdict := VNext (a : ast) (skip : nat) | VReject | VPanic (c : N).

Definition with_steps (a : ast) (s : st) (ls : list label) (skip : nat) : verdict :=
  match steps s ls with
  | Some (Ok s') => VNext (mk_ast (Some s') (a_init a) (a_exp44 a) (a_drop a) (a_nsel a)) skip
  | Some (Panic c) => VPanic c
  | None => VReject
  end.

(* operation whose BufferRef list starts with id *)
Fixpoint find_op (f : opst -> bool) (l : list opst) (k : nat) : option nat :=
  match l with
  | [] => None
  | o :: r => if f o then Some k else find_op f r (S k)
  end.

Fixpoint find_handle (id : nat) (l : list (option nat)) (h : nat) : option nat :=
  match l with
  | [] => None
  | Some i :: r => if Nat.eqb i id then Some h else find_handle id r (S h)
  | None :: r => find_handle id r (S h)
  end.

(* number of guard-less entries in front of the first guard, and that guard *)
Fixpoint front_guard (q : list (option nat)) (n : nat) : option (nat * nat) :=
  match q with
  | [] => None
  | Some id :: _ => Some (n, id)
  | None :: r => front_guard r (S n)
  end.

Definition guard_front_is (id : nat) (o : opst) : bool :=
  match front_guard (o_q o) 0 with Some (_, i) => Nat.eqb i id | None => false end.

Definition buf_front_is (id : nat) (o : opst) : bool :=
  match o_buf o with i :: _ => Nat.eqb i id | [] => false end.

(* who drops the BufferRef with this id *)
Definition resolve_drop (s : st) (id : nat) (user : bool) : option label :=
  if user then
    match find_handle id (handles s) 0 with Some h => Some (LDropHandle h) | None => None end
  else
  match pend s with
  | i :: _ => if Nat.eqb i id then Some LPendDrop else None
  | [] =>
    match find_op (buf_front_is id) (ops s) 0 with
    | Some k => Some (LOpBufDrop k)
    | None =>
      match find_handle id (handles s) 0 with Some h => Some (LDropHandle h) | None => None end
    end
  end.

(* the RING_ADD event a reset of the model state would report *)
Definition expected_add (s : st) (id : nat) : option ev3 :=
  match ring_idx (tail s) 0%N (nbuf s) with
  | Ok idx => Some (53%N, NN id, (NN idx + tail s * 65536)%N)
  | Panic _ => None
  end.

Definition ev_eqb (x y : ev3) : bool :=
  match x, y with (a, b, c), (a', b', c') => N.eqb a a' && N.eqb b b' && N.eqb c c' end.

(* after a reset of [id]: on io_uring the RING_ADD event must follow and agree *)
Definition reset_tail_ok (s : st) (id : nat) (rest : list ev3) : option nat :=
  if uring s && negb (released s) then
    match rest, expected_add s id with
    | e :: _, Some x => if ev_eqb e x then Some 1 else None
    | _, _ => None
    end
  else Some 0.

(* one round of the fast-forward: the pool hands out its next buffer and gets it back *)
Definition wrap_round (s : st) : option (R st) :=
  if uring s then
    match kernel_select s with
    | Some (id, s1) =>
      match slot_take (slots s1) id with
      | Some sl => Some (sh_reset (set_slots s1 sl) id)
      | None => Some (Panic P_OTHER)
      end
    | None => None
    end
  else
    match queue s with
    | id :: q =>
      match slot_take (slots s) id with
      | Some sl => Some (sh_reset (set_slots (set_queue s q) sl) id)
      | None => Some (Panic P_OTHER)
      end
    | [] => None
    end.

Fixpoint wrap_rounds (n : nat) (s : st) : option (R st) :=
  match n with
  | O => Some (Ok s)
  | S m => match wrap_round s with
           | Some (Ok s') => wrap_rounds m s'
           | other => other
           end
  end.

(* the completions reaped between two io_uring_enter calls were all posted by
   the kernel before the first of them is reaped: (op, buffer id, MORE, result) *)
Fixpoint scan_batch (es : list ev3) : list (nat * option nat * bool * rescls) :=
  match es with
  | [] => []
  | (kind, x, y) :: rest =>
    match kind with
    | 27%N => []
    | 4%N =>
      (nn x, match rest with (45%N, i, _) :: _ => Some (nn i) | _ => None end, true, dec_res y)
      :: scan_batch rest
    | 6%N =>
      (nn x, match rest with (41%N, i, _) :: _ => Some (nn i) | _ => None end, false, dec_res y)
      :: scan_batch rest
    | _ => scan_batch rest
    end
  end.

(* the kernel posts one completion; a selected buffer must be the ring head *)
Definition kernel_post (s : st) (c : nat * option nat * bool * rescls) : option (R st) :=
  let '(k, oid, more, r) := c in
  match oid with
  | Some id =>
    match kernel_target s with
    | Some t => if Nat.eqb t id then step s (LKernel k true more r) else None
    | None => None
    end
  | None => step s (LKernel k false more r)
  end.

Fixpoint kernel_posts (s : st) (cs : list (nat * option nat * bool * rescls)) : option (R st) :=
  match cs with
  | [] => Some (Ok s)
  | c :: r =>
    match kernel_post s c with
    | Some (Ok s') => kernel_posts s' r
    | other => other
    end
  end.

Definition count_sel (cs : list (nat * option nat * bool * rescls)) : nat :=
  length (filter (fun c => match c with (_, Some _, _, _) => true | _ => false end) cs).

Definition opt_eqb (a b : option nat) : bool :=
  match a, b with
  | Some x, Some y => Nat.eqb x y
  | None, None => true
  | _, _ => false
  end.

Definition set_st (a : ast) (s : st) : ast := mk_ast (Some s) (a_init a) (a_exp44 a) (a_drop a) (a_nsel a).

Definition event (drv size : N) (a : ast) (e : ev3) (rest : list ev3) : verdict :=
  let '(kind, x, y) := e in
  let id := nn x in
  match a_st a with
  | None =>
    match kind with
    | 50%N | 51%N =>
      let is_uring := N.eqb kind 50 in
      if negb (Bool.eqb is_uring (N.eqb drv 0)) then VReject else
      match pool_new is_uring (nn size) with
      | Ok s => if Nat.eqb (nbuf s) id
                then VNext (mk_ast (Some s) (if is_uring then nbuf s else 0) [] None 0) 0
                else VReject
      | Panic c => VPanic c
      end
    | 1%N | 2%N | 3%N | 4%N | 5%N | 6%N | 16%N | 27%N | 28%N => VNext a 0   (* operations that do not use the pool yet *)
    | _ => if (kind <? 100)%N then VReject else VNext a 0
    end
  | Some s =>
    match kind with
    | 53%N =>
      (* BufControl::new: add_buffer(id, .., offset = id) on tail 0 *)
      match a_init a with
      | S m =>
        match ring_idx 0%N (NN id) (nbuf s) with
        | Ok idx => if N.eqb y (NN idx) && Nat.eqb idx id
                    then VNext (mk_ast (a_st a) m (a_exp44 a) (a_drop a) (a_nsel a)) 0 else VReject
        | Panic c => VPanic c
        end
      | O => VReject
      end
    | 1%N => if Nat.eqb id (length (ops s)) then with_steps a s [LOpNew] 0 else VReject
    | 2%N =>
      match nth_error (ops s) id with
      | Some o => match o_buf o with [] => VNext a 0 | _ => with_steps a s [LOpMove id] 0 end
      | None => VReject
      end
    | 3%N => with_steps a s [LSubmit id] 0
    | 28%N =>
      (* the polling driver has no kernel-side selection: completions are taken as they come *)
      let cs := if uring s then scan_batch rest else [] in
      match kernel_posts s cs with
      | Some (Ok s') => VNext (mk_ast (Some s') (a_init a) (a_exp44 a) (a_drop a) (a_nsel a + count_sel cs)) 0
      | Some (Panic c) => VPanic c
      | None => VReject
      end
    | 27%N => match cq s with [] => VNext a 0 | _ => VReject end   (* everything posted was reaped *)
    | 4%N | 6%N =>
      let more := N.eqb kind 4 in
      let r := dec_res y in
      let sel_kind := if more then 45%N else 41%N in
      let oid := match rest with
                 | (k2, x2, _) :: _ => if N.eqb k2 sel_kind && uring s then Some (nn x2) else None
                 | [] => None
                 end in
      let sk := match oid with Some _ => 1 | None => 0 end in
      match cq s with
      | c :: _ =>
        (* posted at the last io_uring_enter: now reaped *)
        if Nat.eqb (c_op c) id && opt_eqb (c_id c) oid && Bool.eqb (c_more c) more
           && rescls_eqb (c_res c) r
        then with_steps a s [LCqe] sk else VReject
      | [] =>
        (* completed without an enter (polling driver, synchronous completion) *)
        match kernel_post s (id, oid, more, r) with
        | Some (Ok s') =>
          with_steps (mk_ast (a_st a) (a_init a) (a_exp44 a) (a_drop a) (a_nsel a + sk)) s' [LCqe] sk
        | Some (Panic c) => VPanic c
        | None => VReject
        end
      end
    | 5%N | 16%N => VNext a 0
    | 41%N => with_steps a s [LTakeLoose id] 0
    | 42%N | 43%N =>
      let user := match a_drop a with Some _ => true | None => false end in
      if match a_drop a with Some i => negb (Nat.eqb i id) | None => false end then VReject else
      if N.eqb kind 43 && negb (released s) then VReject else
      if N.eqb kind 42 && released s then VReject else
      match resolve_drop s id user, reset_tail_ok s id rest with
      | Some l, Some sk => with_steps (mk_ast (a_st a) (a_init a) (a_exp44 a) None (a_nsel a)) s [l] sk
      | _, _ => VReject
      end
    | 44%N =>
      match a_exp44 a with
      | i :: r => if Nat.eqb i id then VNext (mk_ast (a_st a) (a_init a) r (a_drop a) (a_nsel a)) 0 else VReject
      | [] => VReject
      end
    | 46%N =>
      match find_op (guard_front_is id) (ops s) 0 with
      | Some k =>
        match nth_error (ops s) k with
        | Some o =>
          match front_guard (o_q o) 0 with
          | Some (n, _) => with_steps a s (repeat (LPopMs k) (S n)) 0
          | None => VReject
          end
        | None => VReject
        end
      | None => VReject
      end
    | 47%N =>
      match rest, queue s with
      | (41%N, x2, _) :: _, q0 :: _ =>
        if Nat.eqb q0 id && Nat.eqb (nn x2) id && negb (uring s) then with_steps a s [LPop] 1 else VReject
      | _, _ => VReject
      end
    | 48%N =>
      match queue s with
      | [] => if uring s then VReject else with_steps a s [LPop] 0
      | _ => VReject
      end
    | 49%N =>
      match find_op (guard_front_is id) (ops s) 0 with
      | Some k =>
        match nth_error (ops s) k with
        | Some o =>
          match front_guard (o_q o) 0 with
          | Some (n, _) =>
            if released s then with_steps a s (repeat (LGuardDrop k) (S n)) 0 else
            (* BufferPool::reset: TAKE, RESET (, RING_ADD) for the same id follow *)
            match rest with
            | (41%N, x1, _) :: (42%N, x2, _) :: rest2 =>
              if Nat.eqb (nn x1) id && Nat.eqb (nn x2) id then
                match reset_tail_ok s id rest2 with
                | Some sk => with_steps a s (repeat (LGuardDrop k) (S n)) (2 + sk)
                | None => VReject
                end
              else VReject
            | _ => VReject
            end
          | None => VReject
          end
        | None => VReject
        end
      | None => VReject
      end
    | 52%N =>
      match step s LRelease with
      | Some (Ok s') =>
        VNext (mk_ast (Some s') (a_init a) (skipn (length (freed s)) (freed s')) (a_drop a) (a_nsel a)) 0
      | Some (Panic c) => VPanic c
      | None => VReject
      end
    | 101%N => if mem id (handle_ids s) then VNext a 0 else VReject
    | 102%N =>
      if mem id (handle_ids s)
      then VNext (mk_ast (a_st a) (a_init a) (a_exp44 a) (Some id) (a_nsel a)) 0 else VReject
    | 54%N =>
      (* the completion being reaped carries this buffer id, whatever its result:
         the kernel consumed it, so the model must have posted it with this id *)
      match cq s with
      | c :: _ => match c_id c with
                  | Some i => if Nat.eqb i id then VNext a 0 else VReject
                  | None => VReject
                  end
      | [] => VReject
      end
    | 109%N =>
      (* the consumer awaited next() on a slot: outcome x (0 = nothing within the
         budget, 1 = a buffer, 2 = an error item, 3 = end), y = error code
         + 256 * (the OS had data for the slot when the await began).
         While the user holds every buffer of a live pool (and, on io_uring, data
         is waiting) the only possible answer is the exhaustion error. *)
      let err := (y mod 256)%N in
      let pending := N.eqb ((y / 256) mod 2)%N 1 in
      if N.eqb x 1 then VNext a 0 else    (* a buffer: its way into the handle was replayed above *)
      if Nat.eqb (n_handles s) (nbuf s) && negb (released s) && (pending || negb (uring s))
      then if N.eqb x 2 && (N.eqb err 1 || N.eqb err 3) then VNext a 0 else VReject
      else VNext a 0
    | 107%N =>
      match wrap_rounds id s with
      | Some (Ok s') => VNext (set_st a s') 0
      | Some (Panic c) => VPanic c
      | None => VReject
      end
    | _ => if (kind <? 100)%N then VReject else VNext a 0
    end
  end.

Fixpoint feed (fuel : nat) (drv size : N) (a : ast) (es : list ev3) (i : nat) : ast + (nat * N) + N :=
  match fuel with
  | O => inl (inl a)
  | S f =>
    match es with
    | [] => inl (inl a)
    | e :: rest =>
      match event drv size a e rest with
      | VNext a' sk => feed f drv size a' (skipn sk rest) (S (i + sk))
      | VReject => inl (inr (i, fst (fst e)))
      | VPanic c => inr c
      end
    end
  end.

Definition summary (a : ast) : list N :=
  match a_st a with
  | None => [1%N; 0%N; 0%N; 0%N; 0%N; 0%N; 0%N; 0%N]
  | Some s =>
    [1%N; NN (nbuf s); NN (length (freed s)); NN (n_handles s); NN (length (ring_ids s));
     NN (n_selected s + n_transit s + n_inop s); NN (nbusy s); NN (a_nsel a)]
  end.

Definition run_c07 (l : list N) : list N :=
  match l with
  | drv :: size :: r =>
    match triples (length r) r with
    | None => BAD_CASE
    | Some es =>
      match feed (S (length es)) drv size (mk_ast None 0 [] None 0) es 0 with
      | inl (inl a) =>
        match a_init a, a_exp44 a, a_drop a with
        | O, [], None => summary a
        | _, _, _ => [0%N; NN (length es); 0%N]
        end
      | inl (inr (i, k)) => [0%N; NN i; k]
      | inr c => [2%N; c]
      end
    end
  | _ => BAD_CASE
  end.
