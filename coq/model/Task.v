(* Task.v — one spawned task of compio-executor and everything that can touch
   its allocation, as an interleaving labelled transition system.

   Anchors: compio-executor/src/task/{state.rs,mod.rs,local.rs,remote.rs},
   join_handle.rs, waker.rs, lib.rs (tick / clear / Drop for Executor).

   State = the task's atomic state word (seven flags + reference count, bit
   positions from Compio.Gen.Consts), the storage union (future | result |
   empty), the handle-waker slot, the pointer to the executor's Shared, the
   program counters of the threads and ghost counters.  One label = one
   atomic memory operation (or one thread-local step between two of them) of

     * the executor thread: Task::run (unschedule, cancelled?, poll the future,
       drop it and write the result, finish_running, conditional wake of the
       handle's waker), Task::drop (set_dropped, shared := null, drop the future,
       drop the waker), wait_for_scheduling, Drop for Task (dec); teardown
       (Executor::clear + Drop for Executor);
     * the final Drop for Task of whichever thread took the count to 0 (drop
       the result, drop the waker, dealloc);
     * the JoinHandle used on the home thread (Local::poll, cancel, drop, detach)
       and wakers used on the home thread (Local::schedule, clone, drop): their
       operations are single labels, they run between two executor labels or
       inside the future's poll;
     * the JoinHandle used on another thread: Remote::poll with its SETTING_WAKER
       critical section, Task::cancel (Remote::schedule, set_cancelled, drop of
       the result), drop, detach — one label per atomic operation;
     * any number of wakers on other threads (counting abstraction: how many
       threads are at each point of Remote::schedule): start_scheduling, the
       early return, the wait for the section, the load of `shared`, the push,
       finish_scheduling, clone (inc), drop (dec).

   Interleaving semantics = SEQUENTIAL CONSISTENCY.  Weak-memory reorderings are
   outside the model (the orderings in state.rs are assumed strong enough).
   Not modelled: re-entrancy from inside the destructors of the future, the
   output or the handle's waker; drops skipped while the thread is panicking;
   the reference-count overflow abort; the `console` feature.

   [cfg] selects the code version: [fixed] is the tree as it is now;
   [fix_poll := false] is Remote::poll before ae1ad32, [fix_owner := false]
   Remote::schedule before 73f1b24, [fix_tickwait := false] Executor::tick
   before fd7e5a5, [fix_wkleak := false] Remote::poll before 87d5f4f (kept for
   the refutation lemmas).

   A protocol violation that is undefined behaviour or a failed debug_assert in
   the real code (use after dealloc, storage accessed under the wrong tag,
   uninitialised waker slot read, freed Shared used, second final drop,
   reference-count underflow) sets the ghost flag [bad]; the flag never
   influences what happens next.  No proofs here. *)
From Compio.Model Require Import Base.
From Compio.Gen Require Import Consts.

Inductive outcome := OPending | OReady | OPanic.
Inductive pres := PPending | POk | PPanicked | PCancelled.
Inductive stor_t := SFuture | SEmpty | SResult (p : bool).

(* where a thread is inside Remote::schedule *)
Inductive spc :=
| SEarly   (* owns the SCHEDULING section, nothing to push: finish_scheduling next *)
| SSpin    (* has to push, another waker is inside the section: waits *)
| SLoad    (* owns the section: load of `shared` next *)
| SHold    (* owns the section and holds a non-null pointer to Shared: push next *)
| SFin.    (* pushed: finish_scheduling next *)
Inductive sact := ARetry | AEarly | ALoad | APush | ABail | AFin.
Inductive sres := SRet | SGo (p : spc).

(* executor thread, as far as this task is concerned *)
Inductive epc :=
| EIdle                          (* the task sits in the queue *)
| ERun (comp : bool)             (* unschedule done, not cancelled; comp = COMPLETED bit of the snapshot *)
| EPolling                       (* inside Future::poll *)
| EWrite (p : bool)              (* the future returned (p: panicked) and was dropped; result write next *)
| EFinish                        (* finish_running next *)
| EWake (b : bool)               (* wake the handle's waker if b *)
| EDropSet (td : bool)           (* Task::drop: set_dropped next (td: from Executor::clear) *)
| EDropNull (td comp wk : bool)  (* shared := null next; comp/wk from the set_dropped snapshot *)
| EDropFut (td comp wk : bool)
| EDropWk (td wk : bool)
| EWait                          (* wait_for_scheduling *)
| EDec                           (* Drop for Task: dec next *)
| EGone.

(* the JoinHandle when it is used on another thread *)
Inductive hpc :=
| HIdle | HGone
| HTop (res canc : bool)         (* Remote::poll, loop top, snapshot *)
| HTake                          (* HAS_RESULT cleared, take_result next *)
| HCrit (res canc wk : bool)     (* start_setting_waker done, its snapshot *)
| HFinF (cont wk : bool)         (* leave the section without a new waker (leave_setting_waker) next *)
| HWrite (wk : bool)             (* inside the section: replace/write the waker *)
| HFinT                          (* finish_setting_waker::<true> next *)
| HDec                           (* the handle lets go of the task: dec next *)
| HCan (dr : bool) (p : spc)     (* Task::cancel(dr): inside self.schedule() *)
| HCanSet (dr : bool)            (* set_cancelled next *)
| HCanClr                        (* clear HAS_RESULT next *)
| HCanDrop.                      (* drop the result next *)

Inductive fpc := FNone | FRes (r k : bool) | FWk (k : bool) | FDealloc | FDone.

Record cfg := mkcfg { fix_poll : bool; fix_owner : bool; fix_tickwait : bool; fix_wkleak : bool }.
Definition fixed : cfg := mkcfg true true true true.
Definition prefix_poll : cfg := mkcfg false true true true.      (* Remote::poll before ae1ad32 *)
Definition prefix_owner : cfg := mkcfg true false true true.     (* Remote::schedule before 73f1b24 *)
Definition prefix_tickwait : cfg := mkcfg true true false true.  (* Executor::tick before fd7e5a5 *)
Definition prefix_wkleak : cfg := mkcfg true true true false.    (* Remote::poll before 87d5f4f *)

(* ---------------------------------------------------------------------- *)
(* the state word (state.rs)                                                *)

Record word := mkw {
  scheduled : bool;
  scheduling : bool;
  nsw : bool;
  has_waker : bool;
  completed : bool;
  has_result : bool;
  not_cancelled : bool;
  count : nat
}.

Definition w_scheduled (v : bool) (x : word) : word := mkw v (scheduling x) (nsw x) (has_waker x) (completed x) (has_result x) (not_cancelled x) (count x).
Definition w_scheduling (v : bool) (x : word) : word := mkw (scheduled x) v (nsw x) (has_waker x) (completed x) (has_result x) (not_cancelled x) (count x).
Definition w_nsw (v : bool) (x : word) : word := mkw (scheduled x) (scheduling x) v (has_waker x) (completed x) (has_result x) (not_cancelled x) (count x).
Definition w_has_waker (v : bool) (x : word) : word := mkw (scheduled x) (scheduling x) (nsw x) v (completed x) (has_result x) (not_cancelled x) (count x).
Definition w_completed (v : bool) (x : word) : word := mkw (scheduled x) (scheduling x) (nsw x) (has_waker x) v (has_result x) (not_cancelled x) (count x).
Definition w_has_result (v : bool) (x : word) : word := mkw (scheduled x) (scheduling x) (nsw x) (has_waker x) (completed x) v (not_cancelled x) (count x).
Definition w_not_cancelled (v : bool) (x : word) : word := mkw (scheduled x) (scheduling x) (nsw x) (has_waker x) (completed x) (has_result x) v (count x).
Definition w_count (v : nat) (x : word) : word := mkw (scheduled x) (scheduling x) (nsw x) (has_waker x) (completed x) (has_result x) (not_cancelled x) v.


Definition cancelled (x : word) : bool := negb (not_cancelled x).

(* State::new::<N>() *)
Definition init_word (n : nat) : word := mkw false false true false false false true n.

(* the atomic read-modify-write operations of state.rs; the Snapshot they
   return is the OLD word *)
Definition start_scheduling (x : word) : word := w_scheduling true (w_scheduled true x).
Definition finish_scheduling (x : word) : word := w_scheduling false x.
Definition unschedule (x : word) : word := w_scheduled false x.
Definition set_cancelled (x : word) : word := w_not_cancelled false x.
Definition finish_running (x : word) : word := w_has_result true (w_completed true x).
Definition start_setting_waker (x : word) : word := w_nsw false x.
Definition finish_setting_waker (success : bool) (x : word) : word :=
  if success then w_has_waker true (w_nsw true x) else w_nsw true x.
Definition set_dropped (x : word) : word := w_not_cancelled false (w_has_waker false x).
Definition set_has_result (b : bool) (x : word) : word := w_has_result b x.
Definition set_has_waker (b : bool) (x : word) : word := w_has_waker b x.
Definition inc_w (x : word) : word := w_count (S (count x)) x.

(* the arithmetic the transitions use, as a parameter: the proofs normalise a
   transition with these operations kept abstract *)
Record arith := mkarith { altb : nat -> nat -> bool; aeqb : nat -> nat -> bool; apred : nat -> nat }.
Definition nat_arith : arith := mkarith Nat.ltb Nat.eqb Nat.pred.

Definition dec_w (A : arith) (x : word) : word := w_count (apred A (count x)) x.

(* the same word as the usize the code stores, and the same operations as the
   bit operations the code performs (the layout tie, TaskThm.v) *)
Definition bN (b : bool) (m : N) : N := if b then m else 0%N.
Definition flags_N (x : word) : N :=
  (bN (scheduled x) SCHEDULED + bN (scheduling x) SCHEDULING + bN (nsw x) NOT_SETTING_WAKER
   + bN (has_waker x) HAS_WAKER + bN (completed x) COMPLETED + bN (has_result x) HAS_RESULT
   + bN (not_cancelled x) NOT_CANCELLED)%N.
Definition encode (x : word) : N := (flags_N x + RC_UNIT * N.of_nat (count x))%N.
Definition bit_set (n m : N) : bool := negb (N.eqb (N.land n m) 0).
Definition decode (n : N) : word :=
  mkw (bit_set n SCHEDULED) (bit_set n SCHEDULING) (bit_set n NOT_SETTING_WAKER)
      (bit_set n HAS_WAKER) (bit_set n COMPLETED) (bit_set n HAS_RESULT)
      (bit_set n NOT_CANCELLED) (N.to_nat (N.shiftr n RC_SHIFT)).
Definition fetch_or (n m : N) : N := N.lor n m.
Definition fetch_and_not (n m : N) : N := N.ldiff n m.    (* fetch_and(!m) *)

(* ---------------------------------------------------------------------- *)
(* the whole state                                                         *)

Record st := mkst {
  wd : word;
  ep : epc;
  hp : hpc;
  fp : fpc;
  stor : stor_t;
  slot : bool;
  shnull : bool;
  shfreed : bool;
  alloc : bool;
  tearing : bool;
  hot : bool;
  synq : nat;
  lw : nat;
  wi : nat;
  we : nat;
  ws : nat;
  wl : nat;
  wh : nat;
  wf : nat;
  polls : nat;
  fdrops : nat;
  rtakes : nat;
  rdrops : nat;
  deallocs : nat;
  wakes : nat;
  hlast : option pres;
  woken : bool;
  hcanc : bool;
  hdropped : bool;
  detached : bool;
  bad : bool
}.

Definition set_wd (v : word) (x : st) : st := mkst v (ep x) (hp x) (fp x) (stor x) (slot x) (shnull x) (shfreed x) (alloc x) (tearing x) (hot x) (synq x) (lw x) (wi x) (we x) (ws x) (wl x) (wh x) (wf x) (polls x) (fdrops x) (rtakes x) (rdrops x) (deallocs x) (wakes x) (hlast x) (woken x) (hcanc x) (hdropped x) (detached x) (bad x).
Definition set_ep (v : epc) (x : st) : st := mkst (wd x) v (hp x) (fp x) (stor x) (slot x) (shnull x) (shfreed x) (alloc x) (tearing x) (hot x) (synq x) (lw x) (wi x) (we x) (ws x) (wl x) (wh x) (wf x) (polls x) (fdrops x) (rtakes x) (rdrops x) (deallocs x) (wakes x) (hlast x) (woken x) (hcanc x) (hdropped x) (detached x) (bad x).
Definition set_hp (v : hpc) (x : st) : st := mkst (wd x) (ep x) v (fp x) (stor x) (slot x) (shnull x) (shfreed x) (alloc x) (tearing x) (hot x) (synq x) (lw x) (wi x) (we x) (ws x) (wl x) (wh x) (wf x) (polls x) (fdrops x) (rtakes x) (rdrops x) (deallocs x) (wakes x) (hlast x) (woken x) (hcanc x) (hdropped x) (detached x) (bad x).
Definition set_fp (v : fpc) (x : st) : st := mkst (wd x) (ep x) (hp x) v (stor x) (slot x) (shnull x) (shfreed x) (alloc x) (tearing x) (hot x) (synq x) (lw x) (wi x) (we x) (ws x) (wl x) (wh x) (wf x) (polls x) (fdrops x) (rtakes x) (rdrops x) (deallocs x) (wakes x) (hlast x) (woken x) (hcanc x) (hdropped x) (detached x) (bad x).
Definition set_stor (v : stor_t) (x : st) : st := mkst (wd x) (ep x) (hp x) (fp x) v (slot x) (shnull x) (shfreed x) (alloc x) (tearing x) (hot x) (synq x) (lw x) (wi x) (we x) (ws x) (wl x) (wh x) (wf x) (polls x) (fdrops x) (rtakes x) (rdrops x) (deallocs x) (wakes x) (hlast x) (woken x) (hcanc x) (hdropped x) (detached x) (bad x).
Definition set_slot (v : bool) (x : st) : st := mkst (wd x) (ep x) (hp x) (fp x) (stor x) v (shnull x) (shfreed x) (alloc x) (tearing x) (hot x) (synq x) (lw x) (wi x) (we x) (ws x) (wl x) (wh x) (wf x) (polls x) (fdrops x) (rtakes x) (rdrops x) (deallocs x) (wakes x) (hlast x) (woken x) (hcanc x) (hdropped x) (detached x) (bad x).
Definition set_shnull (v : bool) (x : st) : st := mkst (wd x) (ep x) (hp x) (fp x) (stor x) (slot x) v (shfreed x) (alloc x) (tearing x) (hot x) (synq x) (lw x) (wi x) (we x) (ws x) (wl x) (wh x) (wf x) (polls x) (fdrops x) (rtakes x) (rdrops x) (deallocs x) (wakes x) (hlast x) (woken x) (hcanc x) (hdropped x) (detached x) (bad x).
Definition set_shfreed (v : bool) (x : st) : st := mkst (wd x) (ep x) (hp x) (fp x) (stor x) (slot x) (shnull x) v (alloc x) (tearing x) (hot x) (synq x) (lw x) (wi x) (we x) (ws x) (wl x) (wh x) (wf x) (polls x) (fdrops x) (rtakes x) (rdrops x) (deallocs x) (wakes x) (hlast x) (woken x) (hcanc x) (hdropped x) (detached x) (bad x).
Definition set_alloc (v : bool) (x : st) : st := mkst (wd x) (ep x) (hp x) (fp x) (stor x) (slot x) (shnull x) (shfreed x) v (tearing x) (hot x) (synq x) (lw x) (wi x) (we x) (ws x) (wl x) (wh x) (wf x) (polls x) (fdrops x) (rtakes x) (rdrops x) (deallocs x) (wakes x) (hlast x) (woken x) (hcanc x) (hdropped x) (detached x) (bad x).
Definition set_tearing (v : bool) (x : st) : st := mkst (wd x) (ep x) (hp x) (fp x) (stor x) (slot x) (shnull x) (shfreed x) (alloc x) v (hot x) (synq x) (lw x) (wi x) (we x) (ws x) (wl x) (wh x) (wf x) (polls x) (fdrops x) (rtakes x) (rdrops x) (deallocs x) (wakes x) (hlast x) (woken x) (hcanc x) (hdropped x) (detached x) (bad x).
Definition set_hot (v : bool) (x : st) : st := mkst (wd x) (ep x) (hp x) (fp x) (stor x) (slot x) (shnull x) (shfreed x) (alloc x) (tearing x) v (synq x) (lw x) (wi x) (we x) (ws x) (wl x) (wh x) (wf x) (polls x) (fdrops x) (rtakes x) (rdrops x) (deallocs x) (wakes x) (hlast x) (woken x) (hcanc x) (hdropped x) (detached x) (bad x).
Definition set_synq (v : nat) (x : st) : st := mkst (wd x) (ep x) (hp x) (fp x) (stor x) (slot x) (shnull x) (shfreed x) (alloc x) (tearing x) (hot x) v (lw x) (wi x) (we x) (ws x) (wl x) (wh x) (wf x) (polls x) (fdrops x) (rtakes x) (rdrops x) (deallocs x) (wakes x) (hlast x) (woken x) (hcanc x) (hdropped x) (detached x) (bad x).
Definition set_lw (v : nat) (x : st) : st := mkst (wd x) (ep x) (hp x) (fp x) (stor x) (slot x) (shnull x) (shfreed x) (alloc x) (tearing x) (hot x) (synq x) v (wi x) (we x) (ws x) (wl x) (wh x) (wf x) (polls x) (fdrops x) (rtakes x) (rdrops x) (deallocs x) (wakes x) (hlast x) (woken x) (hcanc x) (hdropped x) (detached x) (bad x).
Definition set_wi (v : nat) (x : st) : st := mkst (wd x) (ep x) (hp x) (fp x) (stor x) (slot x) (shnull x) (shfreed x) (alloc x) (tearing x) (hot x) (synq x) (lw x) v (we x) (ws x) (wl x) (wh x) (wf x) (polls x) (fdrops x) (rtakes x) (rdrops x) (deallocs x) (wakes x) (hlast x) (woken x) (hcanc x) (hdropped x) (detached x) (bad x).
Definition set_we (v : nat) (x : st) : st := mkst (wd x) (ep x) (hp x) (fp x) (stor x) (slot x) (shnull x) (shfreed x) (alloc x) (tearing x) (hot x) (synq x) (lw x) (wi x) v (ws x) (wl x) (wh x) (wf x) (polls x) (fdrops x) (rtakes x) (rdrops x) (deallocs x) (wakes x) (hlast x) (woken x) (hcanc x) (hdropped x) (detached x) (bad x).
Definition set_ws (v : nat) (x : st) : st := mkst (wd x) (ep x) (hp x) (fp x) (stor x) (slot x) (shnull x) (shfreed x) (alloc x) (tearing x) (hot x) (synq x) (lw x) (wi x) (we x) v (wl x) (wh x) (wf x) (polls x) (fdrops x) (rtakes x) (rdrops x) (deallocs x) (wakes x) (hlast x) (woken x) (hcanc x) (hdropped x) (detached x) (bad x).
Definition set_wl (v : nat) (x : st) : st := mkst (wd x) (ep x) (hp x) (fp x) (stor x) (slot x) (shnull x) (shfreed x) (alloc x) (tearing x) (hot x) (synq x) (lw x) (wi x) (we x) (ws x) v (wh x) (wf x) (polls x) (fdrops x) (rtakes x) (rdrops x) (deallocs x) (wakes x) (hlast x) (woken x) (hcanc x) (hdropped x) (detached x) (bad x).
Definition set_wh (v : nat) (x : st) : st := mkst (wd x) (ep x) (hp x) (fp x) (stor x) (slot x) (shnull x) (shfreed x) (alloc x) (tearing x) (hot x) (synq x) (lw x) (wi x) (we x) (ws x) (wl x) v (wf x) (polls x) (fdrops x) (rtakes x) (rdrops x) (deallocs x) (wakes x) (hlast x) (woken x) (hcanc x) (hdropped x) (detached x) (bad x).
Definition set_wf (v : nat) (x : st) : st := mkst (wd x) (ep x) (hp x) (fp x) (stor x) (slot x) (shnull x) (shfreed x) (alloc x) (tearing x) (hot x) (synq x) (lw x) (wi x) (we x) (ws x) (wl x) (wh x) v (polls x) (fdrops x) (rtakes x) (rdrops x) (deallocs x) (wakes x) (hlast x) (woken x) (hcanc x) (hdropped x) (detached x) (bad x).
Definition set_polls (v : nat) (x : st) : st := mkst (wd x) (ep x) (hp x) (fp x) (stor x) (slot x) (shnull x) (shfreed x) (alloc x) (tearing x) (hot x) (synq x) (lw x) (wi x) (we x) (ws x) (wl x) (wh x) (wf x) v (fdrops x) (rtakes x) (rdrops x) (deallocs x) (wakes x) (hlast x) (woken x) (hcanc x) (hdropped x) (detached x) (bad x).
Definition set_fdrops (v : nat) (x : st) : st := mkst (wd x) (ep x) (hp x) (fp x) (stor x) (slot x) (shnull x) (shfreed x) (alloc x) (tearing x) (hot x) (synq x) (lw x) (wi x) (we x) (ws x) (wl x) (wh x) (wf x) (polls x) v (rtakes x) (rdrops x) (deallocs x) (wakes x) (hlast x) (woken x) (hcanc x) (hdropped x) (detached x) (bad x).
Definition set_rtakes (v : nat) (x : st) : st := mkst (wd x) (ep x) (hp x) (fp x) (stor x) (slot x) (shnull x) (shfreed x) (alloc x) (tearing x) (hot x) (synq x) (lw x) (wi x) (we x) (ws x) (wl x) (wh x) (wf x) (polls x) (fdrops x) v (rdrops x) (deallocs x) (wakes x) (hlast x) (woken x) (hcanc x) (hdropped x) (detached x) (bad x).
Definition set_rdrops (v : nat) (x : st) : st := mkst (wd x) (ep x) (hp x) (fp x) (stor x) (slot x) (shnull x) (shfreed x) (alloc x) (tearing x) (hot x) (synq x) (lw x) (wi x) (we x) (ws x) (wl x) (wh x) (wf x) (polls x) (fdrops x) (rtakes x) v (deallocs x) (wakes x) (hlast x) (woken x) (hcanc x) (hdropped x) (detached x) (bad x).
Definition set_deallocs (v : nat) (x : st) : st := mkst (wd x) (ep x) (hp x) (fp x) (stor x) (slot x) (shnull x) (shfreed x) (alloc x) (tearing x) (hot x) (synq x) (lw x) (wi x) (we x) (ws x) (wl x) (wh x) (wf x) (polls x) (fdrops x) (rtakes x) (rdrops x) v (wakes x) (hlast x) (woken x) (hcanc x) (hdropped x) (detached x) (bad x).
Definition set_wakes (v : nat) (x : st) : st := mkst (wd x) (ep x) (hp x) (fp x) (stor x) (slot x) (shnull x) (shfreed x) (alloc x) (tearing x) (hot x) (synq x) (lw x) (wi x) (we x) (ws x) (wl x) (wh x) (wf x) (polls x) (fdrops x) (rtakes x) (rdrops x) (deallocs x) v (hlast x) (woken x) (hcanc x) (hdropped x) (detached x) (bad x).
Definition set_hlast (v : option pres) (x : st) : st := mkst (wd x) (ep x) (hp x) (fp x) (stor x) (slot x) (shnull x) (shfreed x) (alloc x) (tearing x) (hot x) (synq x) (lw x) (wi x) (we x) (ws x) (wl x) (wh x) (wf x) (polls x) (fdrops x) (rtakes x) (rdrops x) (deallocs x) (wakes x) v (woken x) (hcanc x) (hdropped x) (detached x) (bad x).
Definition set_woken (v : bool) (x : st) : st := mkst (wd x) (ep x) (hp x) (fp x) (stor x) (slot x) (shnull x) (shfreed x) (alloc x) (tearing x) (hot x) (synq x) (lw x) (wi x) (we x) (ws x) (wl x) (wh x) (wf x) (polls x) (fdrops x) (rtakes x) (rdrops x) (deallocs x) (wakes x) (hlast x) v (hcanc x) (hdropped x) (detached x) (bad x).
Definition set_hcanc (v : bool) (x : st) : st := mkst (wd x) (ep x) (hp x) (fp x) (stor x) (slot x) (shnull x) (shfreed x) (alloc x) (tearing x) (hot x) (synq x) (lw x) (wi x) (we x) (ws x) (wl x) (wh x) (wf x) (polls x) (fdrops x) (rtakes x) (rdrops x) (deallocs x) (wakes x) (hlast x) (woken x) v (hdropped x) (detached x) (bad x).
Definition set_hdropped (v : bool) (x : st) : st := mkst (wd x) (ep x) (hp x) (fp x) (stor x) (slot x) (shnull x) (shfreed x) (alloc x) (tearing x) (hot x) (synq x) (lw x) (wi x) (we x) (ws x) (wl x) (wh x) (wf x) (polls x) (fdrops x) (rtakes x) (rdrops x) (deallocs x) (wakes x) (hlast x) (woken x) (hcanc x) v (detached x) (bad x).
Definition set_detached (v : bool) (x : st) : st := mkst (wd x) (ep x) (hp x) (fp x) (stor x) (slot x) (shnull x) (shfreed x) (alloc x) (tearing x) (hot x) (synq x) (lw x) (wi x) (we x) (ws x) (wl x) (wh x) (wf x) (polls x) (fdrops x) (rtakes x) (rdrops x) (deallocs x) (wakes x) (hlast x) (woken x) (hcanc x) (hdropped x) v (bad x).
Definition set_bad (v : bool) (x : st) : st := mkst (wd x) (ep x) (hp x) (fp x) (stor x) (slot x) (shnull x) (shfreed x) (alloc x) (tearing x) (hot x) (synq x) (lw x) (wi x) (we x) (ws x) (wl x) (wh x) (wf x) (polls x) (fdrops x) (rtakes x) (rdrops x) (deallocs x) (wakes x) (hlast x) (woken x) (hcanc x) (hdropped x) (detached x) v.

Definition init : st :=
  mkst (init_word 2) EIdle HIdle FNone SFuture false false false true false true
       0 0 0 0 0 0 0 0 0 0 0 0 0 0 None false false false false false.

(* ---------------------------------------------------------------------- *)
(* helpers                                                                 *)

Definition chk (ok : bool) (s : st) : st := set_bad (bad s || negb ok) s.
(* the allocation is accessed *)
Definition touch (s : st) : st := chk (alloc s) s.
Definition upd_w (f : word -> word) (s : st) : st := set_wd (f (wd s)) s.

Definition is_FNone (f : fpc) : bool := match f with FNone => true | _ => false end.
Definition is_EIdle (x : epc) : bool := match x with EIdle => true | _ => false end.
Definition is_EGone (x : epc) : bool := match x with EGone => true | _ => false end.
Definition is_HIdle (x : hpc) : bool := match x with HIdle => true | _ => false end.
Definition is_res (x : stor_t) : bool := match x with SResult _ => true | _ => false end.
Definition is_fut (x : stor_t) : bool := match x with SFuture => true | _ => false end.
Definition is_empty (x : stor_t) : bool := match x with SEmpty => true | _ => false end.
Definition payload (x : stor_t) : bool := match x with SResult p => p | _ => false end.
Definition pres_of (p : bool) : pres := if p then PPanicked else POk.

(* code of the home thread that is not the executor (the body of a future, the
   code around tick) runs: between two executor operations on this task, inside
   the poll of this task's future, and after the executor is done with it *)
Definition home_user (s : st) : bool :=
  match ep s with EIdle | EPolling | EGone => true | _ => false end.

(* Drop for Task: dec; the thread that sees count 1 runs the final drop
   (debug_assert!(completed | cancelled), debug_assert!(!setting_waker)) *)
Definition do_dec (A : arith) (s0 : st) : st :=
  let s := touch s0 in
  let x := wd s in
  let last := aeqb A (count x) 1 in
  set_fp (if last then FRes (has_result x) (has_waker x) else fp s)
    (upd_w (dec_w A)
       (chk (altb A 0 (count x)
             && (negb last || (is_FNone (fp s) && (completed x || cancelled x) && nsw x))) s)).

Definition do_inc (s : st) : st := upd_w inc_w (touch s).

(* the result is moved out of / dropped in the storage *)
Definition consume_result (s : st) : st := set_stor SEmpty (chk (is_res (stor s)) s).

(* Local::schedule *)
Definition local_schedule (s0 : st) : st :=
  let s := touch s0 in
  set_hot (hot s || negb (shnull s))
    (set_synq (if shnull s then synq s else 0) (chk (shnull s || negb (shfreed s)) s)).

(* Remote::schedule: the decision taken on the snapshot of start_scheduling.
   [retry] = the repeated start_scheduling of a waker that waited for the
   section (its own SCHEDULED bit does not count). *)
Definition sched_enter (c : cfg) (retry : bool) (x : word) : sres :=
  let early := (negb retry && scheduled x) || completed x || cancelled x in
  if fix_owner c then
    if early then (if scheduling x then SRet else SGo SEarly)
    else (if scheduling x then SGo SSpin else SGo SLoad)
  else if early then SGo SEarly else SGo SLoad.

(* one more step of Remote::schedule by a thread that is at [p] *)
Definition sched_step (c : cfg) (a : sact) (p : spc) (s0 : st) : option (st * sres) :=
  let s := touch s0 in
  match a, p with
  | ARetry, SSpin => Some (upd_w start_scheduling s, sched_enter c true (wd s))
  | AEarly, SEarly => Some (upd_w finish_scheduling s, SRet)
  | ALoad, SLoad => Some (s, if shnull s then SGo SEarly else SGo SHold)
  | APush, SHold =>   (* pending.fetch_add, sync.push, wake of the driver: all use Shared *)
      Some (set_synq (S (synq s)) (chk (negb (shfreed s)) s), SGo SFin)
  | ABail, SHold =>   (* queue full and the task cancelled: pending.fetch_sub, give up *)
      if cancelled (wd s) then Some (chk (negb (shfreed s)) s, SGo SEarly) else None
  | AFin, SFin => Some (upd_w finish_scheduling s, SRet)
  | _, _ => None
  end.

Definition src_of (a : sact) : spc :=
  match a with ARetry => SSpin | AEarly => SEarly | ALoad => SLoad | APush => SHold
             | ABail => SHold | AFin => SFin end.

Definition wcnt (p : spc) (s : st) : nat :=
  match p with SEarly => we s | SSpin => ws s | SLoad => wl s | SHold => wh s | SFin => wf s end.
Definition set_wcnt (p : spc) (n : nat) (s : st) : st :=
  match p with SEarly => set_we n s | SSpin => set_ws n s | SLoad => set_wl n s
             | SHold => set_wh n s | SFin => set_wf n s end.
Definition w_arrive (r : sres) (s : st) : st :=
  match r with SRet => set_wi (S (wi s)) s | SGo p => set_wcnt p (S (wcnt p s)) s end.
Definition h_arrive (dr : bool) (r : sres) : hpc :=
  match r with SRet => HCanSet dr | SGo p => HCan dr p end.

(* the loop top of Remote::poll with snapshot [x] (debug_assert included) *)
Definition h_top (x : word) (s : st) : st :=
  set_hp (HTop (has_result x) (cancelled x))
         (chk (has_result x || cancelled x || negb (completed x)) s).

Inductive label :=
(* the executor thread *)
| EDrain | ERunStart | EPollBegin | EPollEnd (o : outcome) | EWriteRes | EFinishRun | EWakeH
| EDropSetL | EDropNullL | EDropFutL | EDropWkL | EWaitDone | EDecr
| ETeardown | ETeardownGone | ESharedFree
(* the final Drop for Task *)
| FinRes | FinWk | FinDealloc
(* the JoinHandle on the home thread *)
| LPoll (same : bool) | LCancel | LDropH | LDetach
(* wakers on the home thread; a waker changes threads *)
| LWake | LCloneW | LDropW | WSendOut | WSendIn
(* the JoinHandle on another thread *)
| HPollStart | HTopStep | HTakeRes | HCritStep (same : bool) | HFinFalse | HWriteWk | HFinTrue
| HDecr | HCancelStart (dr : bool) | HSched (a : sact) | HCanSetL | HCanClear | HCanDropRes
| HDetach
(* wakers on other threads *)
| WClone | WDropW | WStart | WSched (a : sact).

Definition step_gen (A : arith) (c : cfg) (s : st) (l : label) : option st :=
  match l with
  (* ---- executor ------------------------------------------------------ *)
  | EDrain =>   (* drain_sync at the start of a tick *)
    if (is_EIdle (ep s) || is_EGone (ep s)) && negb (tearing s) then
      Some (set_synq 0 (set_hot (hot s || (altb A 0 (synq s) && is_EIdle (ep s))) s))
    else None
  | ERunStart =>   (* tick takes the task (make_cold, take); Task::run: unschedule *)
    if is_EIdle (ep s) && hot s && negb (tearing s) then
      let s1 := touch s in
      let x := wd s1 in
      Some (set_ep (if cancelled x then EDropSet false else ERun (completed x))
                   (set_hot false (upd_w unschedule s1)))
    else None
  | EPollBegin =>
    match ep s with
    | ERun comp =>
      let s1 := touch s in
      Some (set_ep EPolling (set_polls (S (polls s1)) (chk (negb comp && is_fut (stor s1)) s1)))
    | _ => None
    end
  | EPollEnd o =>
    match ep s with
    | EPolling =>
      match o with
      | OPending => Some (set_ep EIdle s)          (* queue.reset *)
      | OReady | OPanic =>                         (* run_future drops the future in place *)
        let s1 := touch s in
        Some (set_ep (EWrite (match o with OPanic => true | _ => false end))
                     (set_fdrops (S (fdrops s1)) (set_stor SEmpty (chk (is_fut (stor s1)) s1))))
      end
    | _ => None
    end
  | EWriteRes =>
    match ep s with
    | EWrite p =>
      let s1 := touch s in
      Some (set_ep EFinish (set_stor (SResult p) (chk (is_empty (stor s1)) s1)))
    | _ => None
    end
  | EFinishRun =>
    match ep s with
    | EFinish =>
      let s1 := touch s in
      let x := wd s1 in
      Some (set_ep (EWake (has_waker x && nsw x)) (upd_w finish_running s1))
    | _ => None
    end
  | EWakeH =>
    match ep s with
    | EWake b =>
      let s1 := touch s in
      Some (set_ep (EDropSet false)
              (set_wakes (if b then S (wakes s1) else wakes s1)
                 (set_woken (woken s1 || b) (chk (negb b || slot s1) s1))))
    | _ => None
    end
  | EDropSetL =>
    match ep s with
    | EDropSet td =>
      let s1 := touch s in
      let x := wd s1 in
      Some (set_ep (EDropNull td (completed x) (has_waker x && nsw x)) (upd_w set_dropped s1))
    | _ => None
    end
  | EDropNullL =>
    match ep s with
    | EDropNull td comp wk => Some (set_ep (EDropFut td comp wk) (set_shnull true (touch s)))
    | _ => None
    end
  | EDropFutL =>
    match ep s with
    | EDropFut td comp wk =>
      let s1 := touch s in
      Some (set_ep (EDropWk td wk)
              (set_fdrops (if comp then fdrops s1 else S (fdrops s1))
                 (set_stor (if comp then stor s1 else SEmpty) (chk (comp || is_fut (stor s1)) s1))))
    | _ => None
    end
  | EDropWkL =>
    match ep s with
    | EDropWk td wk =>
      let s1 := touch s in
      Some (set_ep (if td || fix_tickwait c then EWait else EDec)
              (set_slot (slot s1 && negb wk) (chk (negb wk || slot s1) s1)))
    | _ => None
    end
  | EWaitDone =>
    match ep s with
    | EWait => let s1 := touch s in
               if scheduling (wd s1) then None else Some (set_ep EDec s1)
    | _ => None
    end
  | EDecr =>
    match ep s with
    | EDec => Some (do_dec A (set_ep EGone s))
    | _ => None
    end
  | ETeardown =>   (* Executor::drop -> clear: the sync queue is emptied, the task is dropped *)
    if is_EIdle (ep s) && negb (tearing s) then
      Some (set_ep (EDropSet true) (set_tearing true (set_synq 0 (set_hot false s))))
    else None
  | ETeardownGone =>   (* ... the task left the queue earlier *)
    if is_EGone (ep s) && negb (tearing s) then Some (set_tearing true (set_synq 0 s)) else None
  | ESharedFree =>
    if tearing s && is_EGone (ep s) && negb (shfreed s) then Some (set_shfreed true s) else None
  (* ---- final drop ---------------------------------------------------- *)
  | FinRes =>
    match fp s with
    | FRes r k =>
      let s1 := touch s in
      Some (set_fp (FWk k)
              (set_rdrops (if r then S (rdrops s1) else rdrops s1)
                 (set_stor (if r then SEmpty else stor s1) (chk (negb r || is_res (stor s1)) s1))))
    | _ => None
    end
  | FinWk =>
    match fp s with
    | FWk k =>
      let s1 := touch s in
      Some (set_fp FDealloc (set_slot (slot s1 && negb k) (chk (negb k || slot s1) s1)))
    | _ => None
    end
  | FinDealloc =>
    match fp s with
    | FDealloc =>
      let s1 := touch s in
      Some (set_fp FDone (set_deallocs (S (deallocs s1)) (set_alloc false s1)))
    | _ => None
    end
  (* ---- JoinHandle on the home thread ---------------------------------- *)
  | LPoll same =>
    if home_user s && is_HIdle (hp s) then
      let s1 := set_hlast None (set_woken false (touch s)) in
      let x := wd s1 in
      let s2 := chk (has_result x || negb (completed x) || cancelled x) s1 in
      if has_result x then
        Some (do_dec A (set_hp HGone (set_hlast (Some (pres_of (payload (stor s2))))
                (set_rtakes (S (rtakes s2)) (consume_result (upd_w (set_has_result false) s2))))))
      else if cancelled x then
        Some (do_dec A (set_hp HGone (set_hlast (Some PCancelled) s2)))
      else if completed x then Some (set_bad true s2)    (* unreachable!() *)
      else if has_waker x && same then
        Some (set_hlast (Some PPending) (chk (slot s2) s2))
      else
        Some (set_hlast (Some PPending)
                (upd_w (set_has_waker true) (set_slot true (chk (implb (has_waker x) (slot s2)) s2))))
    else None
  | LCancel =>   (* Task::cancel(false) *)
    if home_user s && is_HIdle (hp s) then
      Some (set_hcanc true (upd_w set_cancelled (local_schedule s)))
    else None
  | LDropH =>    (* Drop for JoinHandle: Task::cancel(true), then the Task reference *)
    if home_user s && is_HIdle (hp s) then
      let s1 := local_schedule s in
      let x := wd s1 in
      let s2 := upd_w set_cancelled s1 in
      if has_result x then
        Some (do_dec A (set_hp HGone (set_hdropped true (set_hcanc true
                (set_rdrops (S (rdrops s2)) (consume_result (upd_w (set_has_result false) s2)))))))
      else Some (do_dec A (set_hp HGone (set_hdropped true (set_hcanc true s2))))
    else None
  | LDetach =>
    if home_user s && is_HIdle (hp s) then
      Some (do_dec A (set_hp HGone (set_detached true s)))
    else None
  (* ---- wakers on the home thread -------------------------------------- *)
  | LWake =>     (* wake_by_ref through a clone, or through cx.waker() inside the poll *)
    if home_user s && (altb A 0 (lw s) || match ep s with EPolling => true | _ => false end) then
      Some (local_schedule s)
    else None
  | LCloneW =>
    if home_user s && (altb A 0 (lw s) || match ep s with EPolling => true | _ => false end) then
      Some (set_lw (S (lw s)) (do_inc s))
    else None
  | LDropW =>
    if home_user s && altb A 0 (lw s) then Some (do_dec A (set_lw (apred A (lw s)) s)) else None
  | WSendOut =>
    if home_user s && altb A 0 (lw s) then Some (set_wi (S (wi s)) (set_lw (apred A (lw s)) s)) else None
  | WSendIn =>
    if altb A 0 (wi s) then Some (set_lw (S (lw s)) (set_wi (apred A (wi s)) s)) else None
  (* ---- JoinHandle on another thread ----------------------------------- *)
  | HPollStart =>
    match hp s with
    | HIdle => let s1 := set_hlast None (set_woken false (touch s)) in Some (h_top (wd s1) s1)
    | _ => None
    end
  | HTopStep =>
    match hp s with
    | HTop res canc =>
      let s1 := touch s in
      if res then Some (set_hp HTake (upd_w (set_has_result false) s1))
      else if canc then Some (set_hp HDec (set_hlast (Some PCancelled) s1))
      else let x := wd s1 in
           Some (set_hp (HCrit (has_result x) (cancelled x) (has_waker x))
                        (upd_w start_setting_waker s1))
    | _ => None
    end
  | HTakeRes =>
    match hp s with
    | HTake =>
      let s1 := touch s in
      Some (set_hp HDec (set_hlast (Some (pres_of (payload (stor s1))))
              (set_rtakes (S (rtakes s1)) (consume_result s1))))
    | _ => None
    end
  | HCritStep same =>
    match hp s with
    | HCrit r cn k =>
      if r then Some (set_hp (HFinF true k) s)
      else if cn then Some (set_hp (HFinF false k) s)
      else if k && same then Some (set_hp HFinT (chk (slot s) (touch s)))   (* will_wake reads the slot *)
      else Some (set_hp (HWrite k) s)
    | _ => None
    end
  | HFinFalse =>
    match hp s with
    | HFinF cont k =>   (* finish_setting_waker::<k> since 87d5f4f, ::<false> before *)
      let s1 := touch s in
      let x := wd s1 in
      let s2 := upd_w (finish_setting_waker (fix_wkleak c && k)) s1 in
      if cont then Some (h_top x s2) else Some (set_hp HDec (set_hlast (Some PCancelled) s2))
    | _ => None
    end
  | HWriteWk =>
    match hp s with
    | HWrite k =>
      let s1 := touch s in
      Some (set_hp HFinT (set_slot true (chk (implb k (slot s1)) s1)))
    | _ => None
    end
  | HFinTrue =>
    match hp s with
    | HFinT =>
      let s1 := touch s in
      let x := wd s1 in
      let s2 := upd_w (finish_setting_waker true) s1 in
      if fix_poll c && (has_result x || cancelled x) then Some (h_top x s2)
      else Some (set_hp HIdle (set_hlast (Some PPending) s2))
    | _ => None
    end
  | HDecr =>
    match hp s with
    | HDec => Some (do_dec A (set_hp HGone s))
    | _ => None
    end
  | HCancelStart dr =>   (* Task::cancel(dr): self.schedule() = Remote::schedule: start_scheduling *)
    match hp s with
    | HIdle =>
      let s1 := touch s in
      Some (set_hcanc true (set_hp (h_arrive dr (sched_enter c false (wd s1)))
                                   (upd_w start_scheduling s1)))
    | _ => None
    end
  | HSched a =>
    match hp s with
    | HCan dr p =>
      match sched_step c a p s with
      | Some (s1, r) => Some (set_hp (h_arrive dr r) s1)
      | None => None
      end
    | _ => None
    end
  | HCanSetL =>
    match hp s with
    | HCanSet dr =>
      let s1 := touch s in
      let x := wd s1 in
      let s2 := upd_w set_cancelled s1 in
      if dr && has_result x then Some (set_hp HCanClr s2)
      else if dr then Some (set_hp HDec (set_hdropped true s2))
      else Some (set_hp HIdle s2)
    | _ => None
    end
  | HCanClear =>
    match hp s with
    | HCanClr => Some (set_hp HCanDrop (upd_w (set_has_result false) (touch s)))
    | _ => None
    end
  | HCanDropRes =>
    match hp s with
    | HCanDrop =>
      let s1 := touch s in
      Some (set_hp HDec (set_hdropped true (set_rdrops (S (rdrops s1)) (consume_result s1))))
    | _ => None
    end
  | HDetach =>
    match hp s with
    | HIdle => Some (set_hp HDec (set_detached true s))
    | _ => None
    end
  (* ---- wakers on other threads ---------------------------------------- *)
  | WClone => if altb A 0 (wi s) then Some (set_wi (S (wi s)) (do_inc s)) else None
  | WDropW => if altb A 0 (wi s) then Some (do_dec A (set_wi (apred A (wi s)) s)) else None
  | WStart =>
    if altb A 0 (wi s) then
      let s1 := touch s in
      Some (w_arrive (sched_enter c false (wd s1))
                     (set_wi (apred A (wi s1)) (upd_w start_scheduling s1)))
    else None
  | WSched a =>
    let p := src_of a in
    if altb A 0 (wcnt p s) then
      match sched_step c a p s with
      | Some (s1, r) => Some (w_arrive r (set_wcnt p (apred A (wcnt p s1)) s1))
      | None => None
      end
    else None
  end.


Definition step (c : cfg) (s : st) (l : label) : option st := step_gen nat_arith c s l.

Fixpoint steps (c : cfg) (s : st) (ls : list label) : option st :=
  match ls with
  | [] => Some s
  | l :: r => match step c s l with Some s' => steps c s' r | None => None end
  end.

(* which thread performs a label *)
Inductive thread := THome | TFinal | THandle | TWaker.
Definition thread_of (l : label) : thread :=
  match l with
  | EDrain | ERunStart | EPollBegin | EPollEnd _ | EWriteRes | EFinishRun | EWakeH
  | EDropSetL | EDropNullL | EDropFutL | EDropWkL | EWaitDone | EDecr
  | ETeardown | ETeardownGone | ESharedFree
  | LPoll _ | LCancel | LDropH | LDetach | LWake | LCloneW | LDropW | WSendOut => THome
  | FinRes | FinWk | FinDealloc => TFinal
  | HPollStart | HTopStep | HTakeRes | HCritStep _ | HFinFalse | HWriteWk | HFinTrue
  | HDecr | HCancelStart _ | HSched _ | HCanSetL | HCanClear | HCanDropRes | HDetach => THandle
  | WSendIn | WClone | WDropW | WStart | WSched _ => TWaker
  end.

(* the labels of the executor itself (Task::run, Task::drop, tick, clear) *)
Definition exec_label (l : label) : bool :=
  match l with
  | EDrain | ERunStart | EPollBegin | EPollEnd _ | EWriteRes | EFinishRun | EWakeH
  | EDropSetL | EDropNullL | EDropFutL | EDropWkL | EWaitDone | EDecr
  | ETeardown | ETeardownGone | ESharedFree => true
  | _ => false
  end.

(* everybody let go and the final drop ran *)
Definition quiescent (s : st) : bool :=
  is_EGone (ep s) && match hp s with HGone => true | _ => false end
  && Nat.eqb (lw s + wi s + we s + ws s + wl s + wh s + wf s) 0
  && match fp s with FDone => true | _ => false end.
