(* RecvMsgOut.v — executable model of the result buffer of a multishot RECVMSG
   (compio-driver/src/sys/op/managed/iour.rs: io_uring_recvmsg_out,
   RecvMsgMultiResultImpl::{new, data, ancillary, addr, flags}).

   Layout of the selected pool buffer, as the kernel fills it:
     [0, 16)                     struct io_uring_recvmsg_out { namelen, controllen, payloadlen, flags : u32 }
     [16, 16 + NLEN)             name area (reserved: msg_namelen = NLEN), first namelen bytes valid
     [16 + NLEN, 16 + NLEN + clen)   control area (reserved: msg_controllen = clen), first controllen bytes valid
     [16 + NLEN + clen, res)     payload
   The reserved parts beyond namelen / controllen keep whatever the buffer held
   before (pool buffers are reused).  A buffer is a byte list; slices are
   (offset, bytes).  No proofs in this file. *)
From Compio.Model Require Import Base Frame Cmsg.

Definition OUT_HDR : nat := 16.      (* sizeof(io_uring_recvmsg_out) *)
Definition NLEN : nat := 128.        (* sizeof(sockaddr_storage) *)
Definition MSG_TRUNC : N := 32.

Record out_hdr := mkoh { oh_namelen : N; oh_controllen : N; oh_payloadlen : N; oh_flags : N }.

(* read_unaligned of the header (little endian u32 fields) *)
Definition parse_hdr (buf : list byte) : out_hdr :=
  mkoh (get_le 4 0 buf) (get_le 4 4 buf) (get_le 4 8 buf) (get_le 4 12 buf).

Definition hdr_bytes_out (h : out_hdr) : list byte :=
  le_bytes 4 (oh_namelen h) ++ le_bytes 4 (oh_controllen h) ++
  le_bytes 4 (oh_payloadlen h) ++ le_bytes 4 (oh_flags h).

(* ---------------------------------------------------------------------- *)
(* RecvMsgMultiResultImpl                                                   *)

(* new(buffer, clen): assert!(buffer.len() >= header + NLEN + clen) *)
Definition rm_new (buf : list byte) (clen : nat) : R unit :=
  if Nat.ltb (length buf) (OUT_HDR + NLEN + clen) then Panic P_ASSERT else Ok tt.

(* new() as it was before commit 004c7e7: the datagram length reported in the
   header was taken for a lower bound of the buffer length; kept for the
   witness in prop/C13.v *)
Definition rm_new_v0 (buf : list byte) (clen : nat) : R unit :=
  if Nat.ltb (length buf) OUT_HDR then Panic P_ASSERT else
  if (NN (length buf) <? NN (OUT_HDR + NLEN + clen) + oh_payloadlen (parse_hdr buf))%N
  then Panic P_ASSERT else Ok tt.

(* data(): &buffer[offset..] *)
Definition rm_data (buf : list byte) (clen : nat) : R (nat * list byte) :=
  let off := OUT_HDR + NLEN + clen in
  if Nat.ltb (length buf) off then Panic P_SLICE_INDEX else Ok (off, skipn off buf).

(* ancillary(): &buffer[offset..offset + header.controllen] *)
Definition rm_ancillary (buf : list byte) : R (nat * list byte) :=
  let off := OUT_HDR + NLEN in
  let cl := oh_controllen (parse_hdr buf) in
  if (NN (length buf) <? NN off + cl)%N then Panic P_SLICE_INDEX
  else Ok (off, sub_list buf off (nn cl)).

(* addr(): None for namelen = 0; otherwise namelen bytes of the name area are
   copied into a zeroed sockaddr_storage.  A namelen above NLEN would overrun
   that storage (undefined behaviour: the harness does not execute it). *)
Inductive addr_res := ANone | ASome (bytes : list byte) | AOverrun.

Definition rm_addr (buf : list byte) : addr_res :=
  let nl := oh_namelen (parse_hdr buf) in
  if (nl =? 0)%N then ANone
  else if (NN NLEN <? nl)%N then AOverrun
  else ASome (sub_list buf OUT_HDR (nn nl)).

Definition rm_flags (buf : list byte) : N := oh_flags (parse_hdr buf).

(* ---------------------------------------------------------------------- *)
(* the environment: what the kernel leaves in a selected buffer whose previous
   content was [old] (io_recvmsg_multishot), for a datagram with source
   address [name], control data [ctl] (not truncated: |ctl| <= clen) and
   [payload]; [want_trunc] = MSG_TRUNC among the receive flags               *)

Definition payload_space (old : list byte) (clen : nat) : nat :=
  length old - (OUT_HDR + NLEN + clen).

Definition kernel_fill (old : list byte) (clen : nat) (name ctl payload : list byte)
  (flags : N) (want_trunc : bool) : list byte :=
  let stored := firstn (payload_space old clen) payload in
  let truncated := Nat.ltb (length stored) (length payload) in
  let h := mkoh (NN (length name)) (NN (length ctl))
                (NN (if want_trunc then length payload else length stored))
                (if truncated then N.lor flags MSG_TRUNC else flags) in
  hdr_bytes_out h
  ++ name ++ sub_list old (OUT_HDR + length name) (NLEN - length name)
  ++ ctl ++ sub_list old (OUT_HDR + NLEN + length ctl) (clen - length ctl)
  ++ stored.

(* the pool buffer after the result was dropped: same cells, reused later *)
Definition buffer_after (old filled : list byte) : list byte :=
  filled ++ skipn (length filled) old.
