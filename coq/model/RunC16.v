(* RunC16.v — case interpreter for the C16 correspondence check.

   quinn-proto is an environment, so the model is run on what the implementation
   was OBSERVED to do to its waker tables (tools/p_c16.py builds the input from
   the compio_quic::verif log recorded by harness/ext/src/bin/c16.rs): every
   registration made by a future that returned Pending, every protocol event
   handled by the connection worker, every terminate, every stream-handle drop.
   For each of them the model (model/QuicWakers.v) gives the sizes of all tables
   before and after and the number of wakers woken; they must equal what the
   hook recorded.

   input : 1 nconn conn*        conn = nlab lab*
           lab = 1 table key      a future registered (table numbering of the hook; key = stream / dir;
                                  table 0 (on_connected): key 1 = the polling task is already in the queue)
               | 2 kind key       protocol event (numbering of the hook; Connected: key 1 = streams woken too)
               | 3                terminate by close
               | 4 stream         SendStream dropped
               | 5 stream         RecvStream dropped
   output: per lab: 13 sizes before, 13 sizes after, number of wakers woken
   Any other first integer: [0]. *)
From Compio.Model Require Import Base QuicWakers.

Definition obind {A B} (o : option A) (f : A -> option B) : option B :=
  match o with Some a => f a | None => None end.
Notation "'let?' x ':=' o 'in' k" := (obind o (fun x => k))
  (at level 200, x binder, right associativity).

Definition dec_dir (k : N) : dir := negb (N.eqb k 0).

Definition dec_waiter (table key : N) : option waiter :=
  match table with
  | 0%N => Some WConnecting
  | 1%N => Some WHandshakeData
  | 2%N => Some WRecvDatagram
  | 3%N => Some WSendDatagram
  | 4%N => Some (WAccept (dec_dir key))
  | 5%N => Some (WOpen (dec_dir key))
  | 6%N => Some (WWrite (nn key))
  | 7%N => Some (WRead (nn key))
  | 8%N => Some (WStopped (nn key))
  | _ => None
  end.

Definition dec_event (kind key : N) : option qevent :=
  match kind with
  | 1%N => Some QHandshakeDataReady
  | 2%N => Some (QConnected (negb (N.eqb key 0)))
  | 3%N => Some (QConnectionLost 1%N)
  | 4%N => Some (QReadable (nn key))
  | 5%N => Some (QWritable (nn key))
  | 6%N => Some (QFinished (nn key))
  | 7%N => Some (QStopped (nn key))
  | 8%N => Some (QAvailable (dec_dir key))
  | 9%N => Some (QOpened (dec_dir key))
  | 10%N => Some QDatagramReceived
  | 11%N => Some QDatagramsUnblocked
  | _ => None
  end.

Definition nwoken (o : output) : N :=
  match o with OWoken ws => NN (length ws) | _ => 0%N end.

Definition enc_step (c c1 : conn) (o : output) : list N := sizes c ++ sizes c1 ++ [nwoken o].

(* [next] = the fresh waker identity of the next registration *)
(* [acc] collects the per-label outputs in reverse order *)
Fixpoint run_conn (nlab : nat) (l : list N) (c : conn) (next : nat) (acc : list (list N))
  : option (list N * list N) :=
  match nlab with
  | O => Some (concat (rev acc), l)
  | S k =>
    match l with
    | 1%N :: table :: key :: r =>
      let? x := dec_waiter table key in
      (* a task that is already waiting in on_connected polls again: same waker *)
      let w := match table, key, on_connected c with
               | 0%N, 1%N, w0 :: _ => w0
               | _, _, _ => next
               end in
      let c1 := reg_waiter c x w in
      run_conn k r c1 (S next) (enc_step c c1 ONone :: acc)
    | 2%N :: kind :: key :: r =>
      let? e := dec_event kind key in
      let '(c1, o) := step c (LEvent e) in
      run_conn k r c1 next (enc_step c c1 o :: acc)
    | 3%N :: r =>
      let '(c1, o) := step c LClose in
      run_conn k r c1 next (enc_step c c1 o :: acc)
    | 4%N :: key :: r =>
      let '(c1, o) := step c (LDropSend (nn key)) in
      run_conn k r c1 next (enc_step c c1 o :: acc)
    | 5%N :: key :: r =>
      let '(c1, o) := step c (LDropRecv (nn key)) in
      run_conn k r c1 next (enc_step c c1 o :: acc)
    | _ => None
    end
  end.

Fixpoint run_conns (n : nat) (l : list N) (acc : list N) : option (list N) :=
  match n with
  | O => Some acc
  | S k =>
    match l with
    | nlab :: r =>
      let? '(out, r') := run_conn (nn nlab) r conn0 0 [] in
      run_conns k r' (acc ++ out)
    | [] => None
    end
  end.

Definition run_c16 (l : list N) : list N :=
  match l with
  | 1%N :: nconn :: r =>
    match run_conns (nn nconn) r [] with Some o => o | None => BAD_CASE end
  | _ => [0%N]
  end.
