(* RunC10.v — case interpreter for the C10 correspondence check.
   A case is a list of N (one line of integers); so is the result.  The Rust
   harness (harness/pure/src/bin/c10.rs) decodes the same line, builds the same
   view tree over real compio-buf buffers and prints the same encoding.

   buffer case    1 kind len cap nsteps (code a b)*
     kinds   0 Vec  1 [u8;N] (len=cap<=16)  2 Box<[u8]> (len=cap)
             3 ArrayVec<u8,N> (cap<=16)  4 SmallVec<[u8;4]> (cap>=4)  5 BytesMut
     steps   0 query | 1 b e1 slice(b..e1-1), e1=0: slice(b..) | 2 uninit()
             3 k fill+advance_to(k) | 4 k fill+advance(k) | 5 k fill+set_len(k)
             6 flatten (when the view is a Slice of a Slice, else nothing)
             7 n root.set_capacity(n) (pool buffers, else nothing)
             8 k extend_from_slice(k pattern bytes): prints res (0 Ok, 1 NotSupported)
             9 k reserve(k): prints res | 10 k as_writer().write(k bytes): prints res n
             11 views of the initialised bytes: prints as_mut_slice (off len), Slice's
                deref_mut (off len; as_init when the view is not a Slice), the root's Deref
                and DerefMut (off len each); then every byte of as_mut_slice() += 1
             12 every byte of the root's DerefMut view += 1
     result  Q0 Q1 .. Qn  rlen cap cells..     Q = o l o' c rlen
   pool case      3 drv full nsteps (code a b)*    drv 0 polling (fallback pool) 1 io_uring
     a fresh BufferRef of `full` bytes (len 0); same steps; result Q.. rlen cap full cells..
   vectored case  2 container nm (kind len cap)* nsteps (code a)*
     container 0 Vec<T>  1 (T,(T,..(T,)))  2 (T,(T,..()))
     steps   0 query | 1 b slice(b) | 2 b slice_mut(b) | 3 n fill+advance_vec_to(n)
             4 n fill+set_len(n) | 5 owned_iter
             iterator mode: 6 k fill+advance_to | 7 k fill+set_len | 8 next
             9 k fill+advance | 10 b slice(b..) | 11 uninit() | 12 e slice(..e)
             13 k extend_from_slice(k bytes) through the view over the iterator: prints res
     result  prints, then per member: rlen cap cells..
       vectored print  7 ns (m o n)* nu (m o n)*
       iterator print  8 m o l o' c        marker 9: owned_iter/next returned Err *)
From Compio.Model Require Import Base Buf.

Definition obind {A B} (o : option A) (f : A -> option B) : option B :=
  match o with Some a => f a | None => None end.
Notation "'let?' x ':=' o 'in' k" := (obind o (fun x => k))
  (at level 200, x binder, right associativity).

Definition dec_kind (k : N) : option kind :=
  match k with
  | 0%N => Some KVec | 1%N => Some KArray | 2%N => Some KArray
  | 3%N => Some KArrayVec | 4%N => Some KSmallVec | 5%N => Some KBytesMut
  | _ => None
  end.

(* which (kind, len, cap) the harness can build *)
Definition root_ok (k : N) (len cap : nat) : bool :=
  (len <=? cap) && (cap <=? 64) &&
  match k with
  | 0%N | 5%N => true
  | 1%N => (len =? cap) && (cap <=? 16)
  | 2%N => len =? cap
  | 3%N => cap <=? 16
  | 4%N => 4 <=? cap
  | _ => false
  end.

Definition dec_root (l : list N) : option (root * list N) :=
  match l with
  | k :: len :: cap :: r =>
    let? kd := dec_kind k in
    if N.leb len 64 && N.leb cap 64 && root_ok k (nn len) (nn cap)
    then Some (mkroot kd (canaries_from 0 (nn cap)) (nn len) 0, r)
    else None
  | _ => None
  end.

Fixpoint dec_roots (n : nat) (l : list N) : option (list root * list N) :=
  match n with
  | O => Some ([], l)
  | S k => let? '(r, l') := dec_root l in
           let? '(rs, l'') := dec_roots k l' in Some (r :: rs, l'')
  end.

Definition enc_root (r : root) : list N := [NN (rlen r); NN (rcap r)] ++ rcells r.
Definition enc_panic (c : N) : list N := [2%N; c].

(* ---- buffer cases ----------------------------------------------------- *)

Inductive bstep :=
| BQuery | BSlice (b : nat) (e : option nat) | BUninit
| BFillTo (k : nat) | BFillAdv (k : nat) | BFillSet (k : nat)
| BFlatten | BSetCap (n : N)
| BExtend (k : nat) | BReserve (k : nat) | BWriter (k : nat) | BViews | BBumpRoot.

Definition dec_bstep (code a b : N) : option bstep :=
  match code with
  | 0%N => Some BQuery
  | 1%N => Some (BSlice (nn a) (if N.eqb b 0 then None else Some (nn b - 1)))
  | 2%N => Some BUninit
  | 3%N => Some (BFillTo (nn a))
  | 4%N => Some (BFillAdv (nn a))
  | 5%N => Some (BFillSet (nn a))
  | 6%N => Some BFlatten
  | 7%N => Some (BSetCap a)
  | 8%N => Some (BExtend (nn a))
  | 9%N => Some (BReserve (nn a))
  | 10%N => Some (BWriter (nn a))
  | 11%N => Some BViews
  | 12%N => Some BBumpRoot
  | _ => None
  end.

Fixpoint dec_bsteps (n : nat) (l : list N) : option (list bstep) :=
  match n with
  | O => match l with [] => Some [] | _ => None end
  | S k =>
    match l with
    | c :: a :: b :: r =>
      let? s := dec_bstep c a b in let? ss := dec_bsteps k r in Some (s :: ss)
    | _ => None
    end
  end.

Definition enc_q (v : view) (r : root) : R (list N) :=
  let! '(o, l) := r_as_init v r in
  let! '(o', c) := r_as_uninit v r in
  Ok [NN o; NN l; NN o'; NN c; NN (rlen r)].

(* write min(k, capacity) pattern bytes at the start of the writable region *)
Definition b_write (v : view) (j k : nat) (r : root) : R root :=
  let! '(o, c) := r_as_uninit v r in
  Ok (root_write o (pat_from j 0 (Nat.min k c)) r).

Definition enc_rsv (x : rsv) : N := match x with RsOk => 0%N | RsNotSupported => 1%N end.
Definition enc_rg (rg : nat * nat) : list N := [NN (fst rg); NN (snd rg)].

(* result: new view, root, fill counter, and what the step itself prints *)
Definition bstep_apply (st : bstep) (v : view) (r : root) (j : nat)
  : R (view * root * nat * list N) :=
  match st with
  | BQuery => Ok (v, r, j, [])
  | BSlice b e => let! v' := r_mk_slice v b e r in Ok (v', r, j, [])
  | BUninit => let! v' := r_mk_uninit v r in Ok (v', r, j, [])
  | BFillTo k => let! r1 := b_write v j k r in let! r2 := r_advance_to v k r1 in Ok (v, r2, S j, [])
  | BFillAdv k => let! r1 := b_write v j k r in let! r2 := r_advance v k r1 in Ok (v, r2, S j, [])
  | BFillSet k => let! r1 := b_write v j k r in let! r2 := r_set_len v k r1 in Ok (v, r2, S j, [])
  | BFlatten => Ok (match flatten_view v with Some v' => v' | None => v end, r, j, [])
  | BSetCap n => Ok (v, pool_set_capacity n r, j, [])
  | BExtend k =>
      let! '(res, r') := r_extend v (pat_from j 0 k) r in Ok (v, r', S j, [enc_rsv res])
  | BReserve k =>
      let! '(res, r') := r_reserve v k r in Ok (v, r', j, [enc_rsv res])
  | BWriter k =>
      let! '(res, r') := r_extend v (pat_from j 0 k) r in
      Ok (v, r', S j, [enc_rsv res; match res with RsOk => NN k | RsNotSupported => 0%N end])
  | BViews =>
      let! m := r_as_mut_slice v r in
      let! sd := r_slice_deref_mut v r in
      if fst m + snd m <=? root_alloc r then
        Ok (v, root_bump (fst m) (snd m) r, j,
            enc_rg m ++ enc_rg sd ++ enc_rg (root_deref r) ++ enc_rg (root_deref_mut r))
      else Panic P_SET_LEN
  | BBumpRoot =>
      let m := root_deref_mut r in Ok (v, root_bump (fst m) (snd m) r, j, [])
  end.

Fixpoint run_b (steps : list bstep) (v : view) (r : root) (j : nat) (acc : list N)
  : R (list N) :=
  match steps with
  | [] => Ok (acc ++ enc_root r)
  | st :: rest =>
    let! '(v', r', j', pr) := bstep_apply st v r j in
    let! q := enc_q v' r' in
    run_b rest v' r' j' (acc ++ pr ++ q)
  end.

Definition run_buffer (r : root) (steps : list bstep) : R (list N) :=
  let! q := enc_q VBase r in run_b steps VBase r 0 q.

(* pool buffers print the full length of the underlying buffer too *)
Definition enc_pool_root (r : root) : list N :=
  [NN (rlen r); NN (rcap r); NN (length (rcells r))] ++ rcells r.

Fixpoint run_p (steps : list bstep) (v : view) (r : root) (j : nat) (acc : list N)
  : R (list N) :=
  match steps with
  | [] => Ok (acc ++ enc_pool_root r)
  | st :: rest =>
    let! '(v', r', j', pr) := bstep_apply st v r j in
    let! q := enc_q v' r' in
    run_p rest v' r' j' (acc ++ pr ++ q)
  end.

Definition run_pool (r : root) (steps : list bstep) : R (list N) :=
  let! q := enc_q VBase r in run_p steps VBase r 0 q.

(* ---- vectored cases --------------------------------------------------- *)

Inductive vstep :=
| SQuery | SSlice (b : nat) | SSliceMut (b : nat) | SFillTo (n : nat) | SFillSet (n : nat)
| SIter
| IFillTo (k : nat) | IFillSet (k : nat) | INext | IFillAdv (k : nat)
| ISliceFrom (b : nat) | IUninit | ISliceTo (e : nat) | IExtend (k : nat).

Definition dec_vstep (code a : N) : option vstep :=
  match code with
  | 0%N => Some SQuery | 1%N => Some (SSlice (nn a)) | 2%N => Some (SSliceMut (nn a))
  | 3%N => Some (SFillTo (nn a)) | 4%N => Some (SFillSet (nn a)) | 5%N => Some SIter
  | 6%N => Some (IFillTo (nn a)) | 7%N => Some (IFillSet (nn a)) | 8%N => Some INext
  | 9%N => Some (IFillAdv (nn a)) | 10%N => Some (ISliceFrom (nn a)) | 11%N => Some IUninit
  | 12%N => Some (ISliceTo (nn a))
  | 13%N => Some (IExtend (nn a))
  | _ => None
  end.

Fixpoint dec_vsteps (n : nat) (l : list N) : option (list vstep) :=
  match n with
  | O => match l with [] => Some [] | _ => None end
  | S k =>
    match l with
    | c :: a :: r => let? s := dec_vstep c a in let? ss := dec_vsteps k r in Some (s :: ss)
    | _ => None
    end
  end.

Definition dec_container (c : N) : option container :=
  match c with 0%N => Some CList | 1%N => Some CTuple | 2%N => Some CTupleUnit | _ => None end.

(* the harness has tuple types of arity 1..3 (T-terminated) and 0..3 (unit-terminated) *)
Definition container_ok (c : container) (nm : nat) : bool :=
  match c with
  | CList => nm <=? 6
  | CTuple => (1 <=? nm) && (nm <=? 3)
  | CTupleUnit => nm <=? 3
  end.

Definition enc_vr (x : vrange) : list N :=
  let '(m, o, n) := x in [NN m; NN o; NN n].
Definition enc_vq (w : vview) (ms : list root) : R (list N) :=
  let! li := iter_slice w ms in
  let! lu := iter_uninit w ms in
  Ok ([7%N; NN (length li)] ++ flat_map enc_vr li ++ [NN (length lu)] ++ flat_map enc_vr lu).

Definition enc_iq (w : vview) (v : view) (s : istate) : R (list N) :=
  let! '(o, l) := i_as_init w v s in
  let! '(o', c) := i_as_uninit w v s in
  let! x := viter_uninit w (fst s) (snd s) in
  Ok [8%N; NN (fst (fst x)); NN o; NN l; NN o'; NN c].

Definition pat_total (rgs : list vrange) : nat := sum_len rgs.

Definition v_write (w : vview) (j n : nat) (ms : list root) : R (list root) :=
  let! rgs := iter_uninit w ms in
  Ok (scatter rgs (pat_from j 0 (Nat.min n (pat_total rgs))) ms).

Definition i_write (w : vview) (v : view) (j k : nat) (s : istate) : R istate :=
  let! '(o, c) := i_as_uninit w v s in
  let! x := viter_uninit w (fst s) (snd s) in
  Ok (fst s, write_member (snd s) (fst (fst x)) o (pat_from j 0 (Nat.min k c))).

(* mode: None = vectored, Some (iterator, buffer view over it) *)
Definition mode := option (viter * view).

Definition has_wrapper (v : view) : bool := match v with VBase => false | _ => true end.

Inductive sres :=
| SBad
| SOk (w : vview) (md : mode) (ms : list root) (j : nat) (marker : list N).

Definition vstep_apply (c : container) (st : vstep) (w : vview) (md : mode)
  (ms : list root) (j : nat) : R sres :=
  match md, st with
  | None, SQuery => Ok (SOk w None ms j [])
  | None, SSlice b => let! w' := mk_vslice false w b ms in Ok (SOk w' None ms j [])
  | None, SSliceMut b => let! w' := mk_vslice true w b ms in Ok (SOk w' None ms j [])
  | None, SFillTo n =>
      let! ms1 := v_write w j n ms in
      let! ms2 := advance_vec_to c w n ms1 in Ok (SOk w None ms2 (S j) [])
  | None, SFillSet n =>
      let! ms1 := v_write w j n ms in
      let! ms2 := vset_len c w n ms1 in Ok (SOk w None ms2 (S j) [])
  | None, SIter =>
      let! oi := viter_new w ms in
      match oi with
      | Some it => Ok (SOk w (Some (it, VBase)) ms j [])
      | None => Ok (SOk w None ms j [9%N])
      end
  | Some (it, v), IFillTo k =>
      let! s1 := i_write w v j k (it, ms) in
      let! '(it', ms') := i_advance_to c w v k s1 in Ok (SOk w (Some (it', v)) ms' (S j) [])
  | Some (it, v), IFillSet k =>
      let! s1 := i_write w v j k (it, ms) in
      let! '(it', ms') := i_set_len c w v k s1 in Ok (SOk w (Some (it', v)) ms' (S j) [])
  | Some (it, v), IFillAdv k =>
      let! s1 := i_write w v j k (it, ms) in
      let! '(it', ms') := i_advance c w v k s1 in Ok (SOk w (Some (it', v)) ms' (S j) [])
  | Some (it, v), INext =>
      if has_wrapper v then Ok SBad else
      match viter_next it with
      | Some it' => Ok (SOk w (Some (it', VBase)) ms j [])
      | None => Ok (SOk w None ms j [9%N])
      end
  | Some (it, v), ISliceFrom b =>
      let! v' := i_mk_slice w v b None (it, ms) in Ok (SOk w (Some (it, v')) ms j [])
  | Some (it, v), IExtend k =>
      let! '(res, s') := i_extend c w v (pat_from j 0 k) (it, ms) in
      Ok (SOk w (Some (fst s', v)) (snd s') (S j) [enc_rsv res])
  | Some (it, v), ISliceTo e =>
      let! v' := i_mk_slice w v 0 (Some e) (it, ms) in Ok (SOk w (Some (it, v')) ms j [])
  | Some (it, v), IUninit =>
      let! v' := i_mk_uninit w v (it, ms) in Ok (SOk w (Some (it, v')) ms j [])
  | _, _ => Ok SBad
  end.

Definition enc_mode (w : vview) (md : mode) (ms : list root) : R (list N) :=
  match md with
  | None => enc_vq w ms
  | Some (it, v) => enc_iq w v (it, ms)
  end.

Fixpoint run_v (c : container) (steps : list vstep) (w : vview) (md : mode)
  (ms : list root) (j : nat) (acc : list N) : R (option (list N)) :=
  match steps with
  | [] => Ok (Some (acc ++ flat_map enc_root ms))
  | st :: rest =>
    let! sr := vstep_apply c st w md ms j in
    match sr with
    | SBad => Ok None
    | SOk w' md' ms' j' marker =>
      let! q := enc_mode w' md' ms' in
      run_v c rest w' md' ms' j' (acc ++ marker ++ q)
    end
  end.

Definition run_vectored (c : container) (ms : list root) (steps : list vstep)
  : R (option (list N)) :=
  let! q := enc_vq WBase ms in run_v c steps WBase None ms 0 q.

(* ---- the interpreter -------------------------------------------------- *)

Definition run_opt (l : list N) : option (list N) :=
  let? '(op, l) := take1 l in
  match op with
  | 1%N =>
    let? '(r, l) := dec_root l in
    let? '(ns, l) := take1 l in
    if negb (N.leb ns 64) then None else
    let? steps := dec_bsteps (nn ns) l in
    match run_buffer r steps with
    | Ok out => Some out
    | Panic c => Some (enc_panic c)
    end
  | 3%N =>
    let? '(drv, l) := take1 l in
    let? '(full, l) := take1 l in
    if negb (N.leb drv 1 && N.leb 1 full && N.leb full 64) then None else
    let? '(ns, l) := take1 l in
    if negb (N.leb ns 64) then None else
    let? steps := dec_bsteps (nn ns) l in
    match run_pool (mkroot KPool (canaries_from 0 (nn full)) 0 (nn full)) steps with
    | Ok out => Some out
    | Panic c => Some (enc_panic c)
    end
  | 2%N =>
    let? '(cn, l) := take1 l in
    let? c := dec_container cn in
    let? '(nm, l) := take1 l in
    if negb (N.leb nm 6) then None else
    if negb (container_ok c (nn nm)) then None else
    let? '(ms, l) := dec_roots (nn nm) l in
    let? '(ns, l) := take1 l in
    if negb (N.leb ns 64) then None else
    let? steps := dec_vsteps (nn ns) l in
    match run_vectored c ms steps with
    | Ok (Some out) => Some out
    | Ok None => None
    | Panic c => Some (enc_panic c)
    end
  | _ => None
  end.

Definition run_c10 (l : list N) : list N :=
  match run_opt l with Some r => r | None => BAD_CASE end.
