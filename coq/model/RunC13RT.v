(* RunC13RT.v — case interpreter for the runtime part of the C13 correspondence
   check (harness/rt/src/bin/c13rt.rs): multishot RECVMSG result buffers. *)
From Compio.Model Require Import Base Frame Cmsg RecvMsgOut.

Definition obind {A B} (o : option A) (f : A -> option B) : option B :=
  match o with Some a => f a | None => None end.
Notation "'let?' x ':=' o 'in' k" := (obind o (fun x => k))
  (at level 200, x binder, right associativity).

Definition is_bytes (l : list N) : bool := forallb (fun b => (b <? 256)%N) l.

Definition dec_bytes (l : list N) : option (list N * list N) :=
  let? '(n, r) := take1 l in
  let? '(bs, r') := takeN (nn n) r in
  if is_bytes bs then Some (bs, r') else None.

Fixpoint dec_list {A} (n : nat) (f : list N -> option (A * list N)) (l : list N)
  : option (list A * list N) :=
  match n with
  | O => Some ([], l)
  | S k => let? '(a, r) := f l in let? '(s, r') := dec_list k f r in Some (a :: s, r')
  end.

(* expected control message: level, type, data *)
Definition dec_cmsg (l : list N) : option (msg * list N) :=
  match l with
  | level :: ty :: r =>
    let? '(d, r') := dec_bytes r in
    if ((level <? 4294967296) && (ty <? 4294967296))%N then Some (mkmsg level ty d, r') else None
  | _ => None
  end.

Definition dec_cmsgs (l : list N) : option (list msg * list N) :=
  let? '(n, r) := take1 l in dec_list (nn n) dec_cmsg r.

(* one datagram of a scenario: (name length, payload, control messages) *)
Record dgram := mkdg { dg_namelen : nat; dg_payload : list byte; dg_cmsgs : list msg }.

(* UDP: opts tos ttl payload cmsgs *)
Definition dec_udp (l : list N) : option (dgram * list N) :=
  match l with
  | opts :: tos :: ttl :: r =>
    let? '(p, r) := dec_bytes r in
    let? '(ms, r) := dec_cmsgs r in
    if ((opts <=? 7) && (tos <=? 255) && (N.land tos 3 =? 0) && (1 <=? ttl) && (ttl <=? 255))%N
    then Some (mkdg 16 p ms, r) else None
  | _ => None
  end.

(* unix stream: passcred nfds payload cmsgs *)
Definition dec_unix (l : list N) : option (dgram * list N) :=
  match l with
  | pc :: nfds :: r =>
    let? '(p, r) := dec_bytes r in
    let? '(ms, r) := dec_cmsgs r in
    match p with
    | [] => None
    | _ => if ((pc <=? 1) && (nfds <=? 16))%N then Some (mkdg 0 p ms, r) else None
    end
  | _ => None
  end.

Definition enc_lp (bs : list N) : list N := NN (length bs) :: bs.

Definition enc_cmsg_item (buf : list byte) (it : citem) : list N :=
  let m := item_msg buf it in [m_level m; m_type m] ++ enc_lp (m_data m).

Definition total_space_of (ms : list msg) : nat :=
  fold_right (fun m a => cmsg_space (length (m_data m)) + a) 0 ms.

(* the control bytes the kernel writes for a list of messages *)
Definition ctl_bytes (ms : list msg) : option (list byte) :=
  match ms with
  | [] => Some []
  | _ => match build (total_space_of ms) ms with
         | Ok (st, bytes) => if forallb (N.eqb 0) st then Some bytes else None
         | Panic _ => None
         end
  end.

(* what the harness prints for a received result buffer *)
Definition enc_result (buf : list byte) (clen : nat) : list N :=
  match rm_new buf clen with
  | Panic c => [2%N; c]
  | Ok _ =>
    match rm_data buf clen, rm_ancillary buf with
    | Ok (_, d), Ok (_, anc) =>
      let nm := match rm_addr buf with
                | ASome bs => [NN (length bs); 1%N]
                | _ => [0; 0]%N
                end in
      let items := if Nat.ltb (length anc) HDR then Ok []
                   else iterate anc [] 0 in
      match items with
      | Ok its =>
        0%N :: enc_lp d ++ nm ++ [N.land (rm_flags buf) 40; NN (length anc); NN (length its)]
        ++ flat_map (enc_cmsg_item anc) its
      | Panic c => [2%N; c]
      end
    | Panic c, _ => [2%N; c]
    | _, Panic c => [2%N; c]
    end
  end.

(* a scenario: every datagram lands in the (single, reused) model buffer *)
Fixpoint run_scenario (old : list byte) (clen : nat) (want_trunc : bool) (ds : list dgram)
  : option (list N) :=
  match ds with
  | [] => Some []
  | d :: ds' =>
    let? ctl := ctl_bytes (dg_cmsgs d) in
    if Nat.ltb clen (length ctl) then None else
    let name := repeat 2%N (dg_namelen d) in
    let buf := kernel_fill old clen name ctl (dg_payload d) 0 want_trunc in
    let? rest := run_scenario (buffer_after old buf) clen want_trunc ds' in
    Some (enc_result buf clen ++ rest)
  end.

Definition enc_slice (r : R (nat * list byte)) (with_bytes : bool) : list N :=
  match r with
  | Panic c => [2%N; c]
  | Ok (off, bs) => [0%N; NN off; NN (length bs)] ++ (if with_bytes then bs else [])
  end.

Definition run_opt (l : list N) : option (list N) :=
  let? '(op, l) := take1 l in
  match op with
  | 1%N => (* UDP scenario: psize buflen clen rflags n datagrams *)
    match l with
    | psize :: buflen :: clen :: rflags :: n :: r =>
      let? '(ds, _) := dec_list (nn n) dec_udp r in
      if ((psize <? 2) || (16 <? psize) || (65536 <? buflen) || (4096 <? clen) || (64 <? n)
          || negb ((rflags =? 0) || (rflags =? 32))
          || (buflen <? NN (OUT_HDR + NLEN) + clen))%N then None else
      let? out := run_scenario (repeat 0%N (nn buflen)) (nn clen) (N.eqb rflags 32) ds in
      Some (0%N :: out)
    | _ => None
    end
  | 2%N => (* unix stream scenario: psize buflen clen n messages *)
    match l with
    | psize :: buflen :: clen :: n :: r =>
      let? '(ds, _) := dec_list (nn n) dec_unix r in
      if ((psize <? 2) || (16 <? psize) || (65536 <? buflen) || (4096 <? clen) || (64 <? n)
          || (buflen <? NN (OUT_HDR + NLEN) + clen))%N then None else
      let? out := run_scenario (repeat 0%N (nn buflen)) (nn clen) false ds in
      Some (0%N :: out)
    | _ => None
    end
  | 3%N => (* hostile buffer content: clen, bytes *)
    let? '(clen, l) := take1 l in
    if (4096 <? clen)%N || negb (is_bytes l) || Nat.ltb 4096 (length l) then None else
    Some match rm_new l (nn clen) with
         | Panic c => [2%N; c]
         | Ok _ =>
           [0; 0]%N ++ enc_slice (rm_data l (nn clen)) false ++ enc_slice (rm_ancillary l) true
           ++ match rm_addr l with
              | ANone => [0; 0]%N
              | ASome bs => [0; 1]%N ++ enc_lp bs
              | AOverrun => [9%N]
              end
           ++ [rm_flags l]
         end
  | _ => None
  end.

Definition BAD : list N := BAD_CASE.

Definition run_c13rt (l : list N) : list N :=
  match run_opt l with Some r => r | None => BAD end.
