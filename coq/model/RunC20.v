(* RunC20.v — case interpreter for the C20 correspondence check.

   One case = one child-process scenario (the Rust harness
   harness/rt/src/bin/c20.rs decodes the same line and runs a real child):

     [drv; n_out; n_err; n_in; use_stdin; rchunk; wchunk; exit_kind; exit_arg;
      order; reuse; delay_ms]

   The child (sh -c) copies its stdin to stdout until end of file (only when
   use_stdin = 1), then writes n_out pattern bytes to stdout, then n_err pattern
   bytes to stderr, sleeps delay_ms, and exits with code exit_arg (exit_kind 0)
   or kills itself with signal exit_arg (exit_kind 1).  The parent writes n_in
   pattern bytes to the child's stdin in write calls of at most wchunk bytes and
   closes it, reads stdout and stderr in read calls of at most rchunk bytes, and
   waits: order 0 = wait first (nothing is read or written for a while), 1 =
   drain to end of file, then wait, 2 = all at once, 3 = wait_with_output,
   4 / 5 = wait / wait_with_output while the Child still owns its ChildStdin
   (n_in = 0): the handle is consumed by the wait, nobody else can close it any
   more, and waiting closes it first (the behaviour std::process::Child::wait
   documents, to which compio-process refers) — in the reference this is the
   parent writer closing at once, i.e. order 2 with nothing to write.

   The scenario is SIMULATED on the reference: three pipes of capacity 65536
   (PipeSpec), a fair round-robin schedule of the actors (parent writer, child,
   two parent readers, the waiting thread), the wait state machine of ProcSpec
   in blocking mode.  drv, reuse and delay_ms do not influence the reference:
   the result must not depend on them.  Streams are position-dependent
   patterns; lengths, byte sums and in-order flags are accumulated as bytes are
   consumed (no list is longer than the pipe capacity).

   Result: [0; out_len; out_sum; out_ok; echo_ok; err_len; err_sum; err_ok;
            in_written; code (256 = none); signal (0 = none); not_early]
   or [2; 8] when the scenario does not terminate. *)
From Compio.Model Require Import Base PipeSpec ProcSpec.

Local Open Scope N_scope.

Definition CAP : nat := 65536%nat.
Definition MAXSZ : N := 4194304.
Definition MAXSTEPS : N := 20000.

(* ---- patterns --------------------------------------------------------- *)

Inductive pat := PIn | POut | PErr.

Definition period (p : pat) : N := match p with PIn => 251 | _ => 63 end.

(* the line printed by yes(1): 62 characters and a newline *)
Definition byte_out (j : N) : byte :=
  if j <? 10 then 48 + j else if j <? 36 then 55 + j else if j <? 62 then 61 + j else 10.

Definition byte_of (p : pat) (j : N) : byte :=
  match p with
  | PIn => j
  | POut => byte_out j
  | PErr => if j <? 62 then byte_out (61 - j) else 10
  end.

(* the patterns as tables, walked with a cursor (no arithmetic per byte) *)
Fixpoint table_from (p : pat) (j : N) (n : nat) : list byte :=
  match n with
  | O => []
  | S n' => byte_of p j :: table_from p (N.succ j) n'
  end.
Definition tbl_in : list byte := table_from PIn 0 251.
Definition tbl_out : list byte := table_from POut 0 63.
Definition tbl_err : list byte := table_from PErr 0 63.
Definition tbl (p : pat) : list byte :=
  match p with PIn => tbl_in | POut => tbl_out | PErr => tbl_err end.

(* [k] pattern bytes starting at the cursor [cur] (a suffix of the table [t]) *)
Fixpoint gen_from (t cur : list byte) (k : nat) : list byte :=
  match k with
  | O => []
  | S k' =>
    match cur with
    | b :: r => b :: gen_from t r k'
    | [] => match t with
            | b :: r => b :: gen_from t r k'
            | [] => []
            end
    end
  end.

Definition gen (p : pat) (ph : N) (k : nat) : list byte :=
  gen_from (tbl p) (skipn (nn ph) (tbl p)) k.

(* ---- a parent reader: counts, sums and checks what it reads ------------ *)

Record cons_st := mkcons {
  k_cnt : N; k_sum : N;
  k_ok1 : bool;           (* first segment (the echo of stdin) matched so far *)
  k_ok2 : bool;           (* second segment (the child's own output) matched  *)
  k_rem1 : N;             (* bytes of the first segment still expected        *)
  k_cur : list byte;      (* cursor into the table of the expected pattern    *)
  k_eof : bool
}.

(* compare [bs] with the pattern at the cursor; returns cursor, verdict, sum *)
Fixpoint check_seg (t cur bs : list byte) (ok : bool) (sum : N) : list byte * bool * N :=
  match bs with
  | [] => (cur, ok, sum)
  | b :: r =>
    match cur with
    | e :: cur' => check_seg t cur' r (ok && (b =? e)) (sum + b)
    | [] => match t with
            | e :: cur' => check_seg t cur' r (ok && (b =? e)) (sum + b)
            | [] => (cur, false, sum)
            end
    end
  end.

Definition absorb (p1 p2 : pat) (bs : list byte) (c : cons_st) : cons_st :=
  let len := NN (length bs) in
  let n1 := N.min (k_rem1 c) len in
  let '(cur1, ok1, sum1) := check_seg (tbl p1) (k_cur c) (firstn (nn n1) bs) (k_ok1 c) 0 in
  let rem := k_rem1 c - n1 in
  let cur1 := if (rem =? 0) && negb (n1 =? 0) then tbl p2 else cur1 in
  let '(cur2, ok2, sum2) := check_seg (tbl p2) cur1 (skipn (nn n1) bs) (k_ok2 c) 0 in
  mkcons (k_cnt c + len) (k_sum c + sum1 + sum2) ok1 ok2 rem cur2 (k_eof c).

Definition cons_init (p1 p2 : pat) (rem1 : N) : cons_st :=
  mkcons 0 0 true true rem1 (if rem1 =? 0 then tbl p2 else tbl p1) false.

Definition cons_eof (c : cons_st) : cons_st :=
  mkcons (k_cnt c) (k_sum c) (k_ok1 c) (k_ok2 c) (k_rem1 c) (k_cur c) true.

(* one read(2) of at most k bytes *)
Definition reader_step (p1 p2 : pat) (k : nat) (p : pipe) (c : cons_st) : pipe * cons_st :=
  if k_eof c then (p, c) else
  match pipe_read p k with
  | (p', ROk []) => (p', cons_eof c)
  | (p', ROk bs) => (p', absorb p1 p2 bs c)
  | (_, RBlock) => (p, c)
  end.

(* ---- the scenario ------------------------------------------------------ *)

Record cfg := mkcfg {
  g_stdin : bool; g_in : N; g_out : N; g_err : N;
  g_rchunk : N; g_wchunk : N; g_status : N; g_order : N
}.

Record writer := mkwr { w_ph : N; w_left : N; w_closed : bool; w_written : N }.

(* child program counter: 0 = copying stdin to stdout, 1 = writing stdout,
   2 = writing stderr, 3 = exited *)
Record childp := mkch { c_pc : N; c_buf : list byte; c_ph : N; c_left : N }.

Record sim := mksim {
  p_in : pipe; p_out : pipe; p_err : pipe;
  wr : writer; ch : childp; ro : cons_st; re : cons_st;
  ws : wstate;
  delivered : option N;
  early : bool           (* a status was delivered while the child was running *)
}.

Definition set_pin (s : sim) (p : pipe) (w : writer) : sim :=
  mksim p (p_out s) (p_err s) w (ch s) (ro s) (re s) (ws s) (delivered s) (early s).
Definition set_child (s : sim) (pi po pe : pipe) (c : childp) : sim :=
  mksim pi po pe (wr s) c (ro s) (re s) (ws s) (delivered s) (early s).
Definition set_ro (s : sim) (p : pipe) (c : cons_st) : sim :=
  mksim (p_in s) p (p_err s) (wr s) (ch s) c (re s) (ws s) (delivered s) (early s).
Definition set_re (s : sim) (p : pipe) (c : cons_st) : sim :=
  mksim (p_in s) (p_out s) p (wr s) (ch s) (ro s) c (ws s) (delivered s) (early s).
Definition set_ws (s : sim) (w : wstate) : sim :=
  mksim (p_in s) (p_out s) (p_err s) (wr s) (ch s) (ro s) (re s) w (delivered s) (early s).

(* a write(2) of the next min(k, left) pattern bytes; the chunk is cut to the
   free space beforehand (pipe_write would accept no more than that anyway) *)
Definition write_some (pt : pat) (p : pipe) (ph left k : N) : pipe * N :=
  let want := N.min (N.min k left) (NN (pipe_free p)) in
  match pipe_write p (gen pt ph (nn want)) with
  | (p', WOk n) => (p', NN n)
  | (_, _) => (p, 0)
  end.

(* parent: one ChildStdin::write, or the drop of ChildStdin when all is written *)
Definition step_writer (g : cfg) (s : sim) : sim :=
  let w := wr s in
  if negb (g_stdin g) || w_closed w then s else
  if w_left w =? 0 then
    set_pin s (pipe_close_w (p_in s)) (mkwr (w_ph w) 0 true (w_written w))
  else
    let '(p', n) := write_some PIn (p_in s) (w_ph w) (w_left w) (g_wchunk g) in
    set_pin s p' (mkwr ((w_ph w + n) mod period PIn) (w_left w - n) false (w_written w + n)).

Definition apply_label (s : sim) (l : wlabel) : sim :=
  match wstep (ws s) l with
  | Some (Ok w') => set_ws s w'
  | _ => s
  end.

(* the child: one system call per step *)
Definition step_child (g : cfg) (s : sim) : sim :=
  let c := ch s in
  match c_pc c with
  | 0 =>
    match c_buf c with
    | [] =>
      match pipe_read (p_in s) CAP with
      | (p', ROk []) => set_child s p' (p_out s) (p_err s) (mkch 1 [] 0 (g_out g))
      | (p', ROk bs) => set_child s p' (p_out s) (p_err s) (mkch 0 bs 0 0)
      | (_, RBlock) => s
      end
    | buf =>
      match pipe_write (p_out s) buf with
      | (p', WOk n) => set_child s (p_in s) p' (p_err s) (mkch 0 (skipn n buf) 0 0)
      | (_, _) => s
      end
    end
  | 1 =>
    if c_left c =? 0 then set_child s (p_in s) (p_out s) (p_err s) (mkch 2 [] 0 (g_err g))
    else
      let '(p', n) := write_some POut (p_out s) (c_ph c) (c_left c) MAXSZ in
      set_child s (p_in s) p' (p_err s) (mkch 1 [] ((c_ph c + n) mod period POut) (c_left c - n))
  | 2 =>
    if c_left c =? 0 then
      (* exit: every descriptor of the child is closed, the environment
         signals the exit status *)
      apply_label
        (set_child s (p_in s) (pipe_close_w (p_out s)) (pipe_close_w (p_err s)) (mkch 3 [] 0 0))
        (EnvExit (g_status g))
    else
      let '(p', n) := write_some PErr (p_err s) (c_ph c) (c_left c) MAXSZ in
      set_child s (p_in s) (p_out s) p' (mkch 2 [] ((c_ph c + n) mod period PErr) (c_left c - n))
  | _ => s
  end.

Definition chunk_nat (k : N) : nat := nn (N.min k (NN CAP)).

Definition step_readers (g : cfg) (s : sim) : sim :=
  let '(po, co) := reader_step PIn POut (chunk_nat (g_rchunk g)) (p_out s) (ro s) in
  let s := set_ro s po co in
  let '(pe, ce) := reader_step PIn PErr (chunk_nat (g_rchunk g)) (p_err s) (re s) in
  set_re s pe ce.

(* the thread inside Child::wait (blocking mode: a pool thread in waitpid) *)
Definition step_wait (g : cfg) (s : sim) : sim :=
  match wwait (ws s) with
  | WIdle =>
    (* order 1: wait is called once both streams reached end of file *)
    if (g_order g =? 1) && k_eof (ro s) && k_eof (re s)
    then apply_label s (StartWait MBlocking) else s
  | WQueued => apply_label s EnterWaitpid
  | WInWaitpid =>
    match wchild (ws s) with
    | CZombie st => apply_label s (WaitpidReturn st)
    | _ => s                       (* waitpid does not return for a running child *)
    end
  | WGot st =>
    let s' := apply_label s (Deliver st) in
    mksim (p_in s') (p_out s') (p_err s') (wr s') (ch s') (ro s') (re s') (ws s')
          (Some st) (early s' || negb (c_pc (ch s') =? 3))
  | _ => s
  end.

Definition round (g : cfg) (parent_active : bool) (s : sim) : sim :=
  let s := if parent_active then step_writer g s else s in
  let s := step_child g s in
  let s := if parent_active then step_readers g s else s in
  step_wait g s.

Definition finished (s : sim) : bool :=
  k_eof (ro s) && k_eof (re s) && match wwait (ws s) with WDone => true | _ => false end.

(* the fair schedule: [n] rounds of every actor in turn *)
Fixpoint run_rounds (n : nat) (g : cfg) (parent_active : bool) (s : sim) : sim :=
  match n with
  | O => s
  | S n' => if finished s then s else run_rounds n' g parent_active (round g parent_active s)
  end.

Definition sim_init (g : cfg) : sim :=
  let s := mksim (pipe_new CAP) (pipe_new CAP) (pipe_new CAP)
                 (mkwr 0 (g_in g) false 0)
                 (if g_stdin g then mkch 0 [] 0 0 else mkch 1 [] 0 (g_out g))
                 (cons_init PIn POut (g_in g))
                 (cons_init PIn PErr 0)
                 winit None false in
  if g_order g =? 1 then s else apply_label s (StartWait MBlocking).

Definition min3 (a b c : N) : N := N.min a (N.min b c).

Definition simulate (g : cfg) : sim :=
  let total := g_in g + g_out g + g_err g in
  let m := min3 (g_rchunk g) (g_wchunk g) (NN CAP) in
  let bound := nn (4 * (total / m) + 64) in
  let s := sim_init g in
  (* order 0: the wait runs alone first; the parent neither reads nor writes *)
  let s := if g_order g =? 0 then run_rounds 8 g false s else s in
  run_rounds bound g true s.

Definition b2n (b : bool) : N := if b then 1 else 0.

Definition encode (g : cfg) (s : sim) : list N :=
  if negb (finished s) then [2; 8] else
  match delivered s with
  | None => [2; 8]
  | Some st =>
    [0;
     k_cnt (ro s); k_sum (ro s) mod 4294967296;
     b2n (k_ok2 (ro s) && k_eof (ro s) && (k_cnt (ro s) =? g_in g + g_out g));
     b2n (k_ok1 (ro s) && (g_in g <=? k_cnt (ro s)));
     k_cnt (re s); k_sum (re s) mod 4294967296;
     b2n (k_ok2 (re s) && k_eof (re s) && (k_cnt (re s) =? g_err g));
     w_written (wr s);
     status_code st; status_signal st;
     b2n (negb (early s))]
  end.

Definition valid_signal (x : N) : bool :=
  existsb (N.eqb x) [1; 2; 9; 10; 12; 13; 14; 15].

Definition decode (l : list N) : option cfg :=
  match l with
  | [drv; n_out; n_err; n_in; use_stdin; rchunk; wchunk; ekind; earg; order; reuse; delay] =>
    if (drv <=? 1) && (n_out <=? MAXSZ) && (n_err <=? MAXSZ) && (n_in <=? MAXSZ)
       && (use_stdin <=? 1) && ((use_stdin =? 1) || (n_in =? 0))
       && (1 <=? rchunk) && (rchunk <=? MAXSZ) && (1 <=? wchunk) && (wchunk <=? MAXSZ)
       && ((n_in + n_out + n_err) / N.min rchunk wchunk <=? MAXSTEPS)
       && (if ekind =? 0 then earg <=? 255 else (ekind =? 1) && valid_signal earg)
       && (order <=? 5) && ((order <? 4) || ((use_stdin =? 1) && (n_in =? 0)))
       && (reuse <=? 1) && (delay <=? 500)
    then Some (mkcfg (use_stdin =? 1) n_in n_out n_err rchunk wchunk
                     (if ekind =? 0 then earg * 256 else earg) order)
    else None
  | _ => None
  end.

(* ---- huge buffers: one read / write call with a buffer of m * 2^32 + k bytes
   case   = [drv; dir; m; k; n_out]   (1 <= m <= 2, k <= 65536, n_out <= 65536)
   dir 0: the child does not read its stdin; the parent makes ONE write call with a
          buffer of that length: the empty pipe takes min(request, capacity) bytes
   dir 1: the child writes n_out >= 1 pattern bytes and exits; after the wait the
          parent makes ONE read call with a Vec of that capacity, then a small one
   result = [0; n; byte sum; bytes ok; second read = end of file; exit code] *)
Definition run_huge (drv dir m k n_out : N) : list N :=
  let size := m * 4294967296 + k in
  let req := request_len (drv =? 0) size in
  if dir =? 0 then
    [0; write_accepts (pipe_new CAP) req; 0; 1; 1; 0]
  else
    let p := pipe_close_w (pipe_with_q (pipe_new CAP) (gen POut 0 (nn n_out))) in
    let n := read_returns p req in
    match pipe_read p (nn (N.min req (NN CAP))) with
    | (p', ROk bs) =>
      let c := absorb PIn POut bs (cons_init PIn POut 0) in
      let eof := match pipe_read p' 16 with (_, ROk []) => true | _ => false end in
      if NN (length bs) =? n
      then [0; n; k_sum c mod 4294967296; b2n (k_ok2 c); b2n eof; 0]
      else [2; 9]
    | (_, RBlock) => [2; 8]
    end.

Definition run_c20 (l : list N) : list N :=
  match l with
  | [drv; dir; m; k; n_out] =>
    if (drv <=? 1) && (dir <=? 1) && (1 <=? m) && (m <=? 2) && (k <=? 65536)
       && (n_out <=? 65536) && ((dir =? 0) || (1 <=? n_out))
    then run_huge drv dir m k n_out else BAD_CASE
  | _ =>
    match decode l with
    | Some g => encode g (simulate g)
    | None => BAD_CASE
    end
  end.
