(* RunC05RT.v — case interpreter of the runtime-level C05 correspondence check
   (harness/rt/src/bin/c05rt.rs runs the same programs on a real
   compio_runtime::Runtime).

   case : drv n_res (kind)* n_tok n_steps step*
     drv  : 0 io_uring | 1 polling
     kind : 0 socket recv | 1 pipe read | 2 accept | 3 poll-readable | 4 connect to a black hole
     step : 1 r wx n (wrap arg)*   spawn the next task on resource r; wraps innermost first:
                                   1 t with_cancel | 2 p with_personality | 3 t with_cancel.fail_fast
                                   4 d timeout (0 zero 1 short 2 long) | 5 t with_cancel.fail_fast.fail_slow
            2 r extra              write one chunk per live task of r plus extra
            3 t                    token t .cancel()
            4 i                    drop the JoinHandle of task i
            5                      run the runtime for a bounded time
   out  : 0 n_tasks (fin_run class value pers)* n_res (leftover)* (dcancels freed)* n_tok (is_cancelled wait_done)*

   The program is executed as a sequence of steps of the LTS of CancelTok.v
   ([app]); the environment of that LTS (which operations the driver completes,
   with what, and when the sleeps fire) is decided here:
     io_uring : a request is looked at when the driver next enters the kernel; an operation whose
                data is there completes with it even when a cancel was requested (the kernel finds
                nothing left to cancel); an unknown personality fails the request with EINVAL
     polling  : Recv / Accept are attempted at push (inline completion); a cancel removes the
                operation from the descriptor queue at once, so it wins over data delivered later *)
From Compio.Model Require Import Base CancelTok.
Local Open Scope nat_scope.

Definition obind {A B} (o : option A) (f : A -> option B) : option B :=
  match o with Some a => f a | None => None end.
Notation "'let?' x ':=' o 'in' k" := (obind o (fun x => k))
  (at level 200, x binder, right associativity).

Record tmeta := mk_tm {
  m_r : nat;          (* resource *)
  m_wx : bool;        (* Submit::with_extra: the harness can read the personality back *)
  m_seen : nat;       (* number of the run after which the harness saw the result; 0 = not yet *)
  m_hdrop : bool;     (* JoinHandle dropped before a result was seen *)
  m_dropdone : bool   (* ... and the executor has dropped the future since *)
}.

Record hst := mk_h {
  h_sys : sys;
  h_log : list step;        (* the LTS steps performed so far: h_sys = do_steps init h_log *)
  h_poll : bool;            (* polling driver *)
  h_kinds : list nat;
  h_avail : list nat;       (* unconsumed chunks per resource *)
  h_meta : list tmeta;
  h_runs : nat
}.

Definition set_sys s l h := mk_h s l (h_poll h) (h_kinds h) (h_avail h) (h_meta h) (h_runs h).
Definition set_avail a h := mk_h (h_sys h) (h_log h) (h_poll h) (h_kinds h) a (h_meta h) (h_runs h).
Definition set_meta m h := mk_h (h_sys h) (h_log h) (h_poll h) (h_kinds h) (h_avail h) m (h_runs h).
Definition set_runs n h := mk_h (h_sys h) (h_log h) (h_poll h) (h_kinds h) (h_avail h) (h_meta h) n.

(* every change of the LTS state goes through here *)
Definition app (st : step) (h : hst) : hst :=
  set_sys (do_step (h_sys h) st) (h_log h ++ [st]) h.

Definition kind_of (h : hst) (r : nat) : nat := nth r (h_kinds h) 9.
Definition avail_of (h : hst) (r : nat) : nat := nth r (h_avail h) 0.
Definition res_of_task (h : hst) (i : nat) : nat :=
  match nth_error (h_meta h) i with Some m => m_r m | None => 0 end.

(* readiness never consumed by PollOnce; a black hole never answers *)
Definition ready (h : hst) (r : nat) : bool :=
  match kind_of h r with 4 => false | _ => 0 <? avail_of h r end.
Definition consume (r : nat) (h : hst) : hst :=
  match kind_of h r with
  | 3 => h
  | _ => set_avail (updl (h_avail h) r pred) h
  end.
(* which operations the polling driver attempts at push *)
Definition eager_kind (k : nat) : bool := match k with 0 | 2 => true | _ => false end.

Definition BOGUS : pers := 2.       (* personality index nobody registered *)
Definition E_INVAL : N := 22.

Definition key_of (h : hst) (i : nat) : option kst :=
  match nth_error (tasks (h_sys h)) i with Some tk => Some (t_key tk) | None => None end.

(* one poll of task i by the executor *)
Definition poll_one (h : hst) (i : nat) : hst :=
  match nth_error (tasks (h_sys h)) i with
  | None => h
  | Some tk =>
    if t_done tk then h else
    let r := res_of_task h i in
    let idle := match k_sub (t_key tk) with SIdle => true | _ => false end in
    if h_poll h && eager_kind (kind_of h r) && ready h r && idle then
      let h' := app (StPoll i (Some KData)) h in
      match key_of h' i with
      | Some k => match k_sub k with SIdle => h' | _ => consume r h' end   (* the push took the data *)
      | None => h'
      end
    else app (StPoll i None) h
  end.

Definition poll_all (h : hst) : hst :=
  fold_left poll_one (seq 0 (length (h_meta h))) h.

(* what the driver does with operation i when it next looks at it *)
Definition resolve_one (h : hst) (i : nat) : hst :=
  match key_of h i with
  | None => h
  | Some k =>
    if negb (k_infl k) then h else
    let r := res_of_task h i in
    if h_poll h then
      if 0 <? k_dc k then app (StComplete i KCancelled) h
      else if ready h r then consume r (app (StComplete i KData) h)
      else h
    else
      if match e_pers (k_ext k) with Some p => Nat.eqb p BOGUS | None => false end
      then app (StComplete i (KErr E_INVAL)) h
      else if ready h r then consume r (app (StComplete i KData) h)
      else if 0 <? k_dc k then app (StComplete i KCancelled) h
      else h
  end.

Definition resolve (h : hst) : hst :=
  fold_left resolve_one (seq 0 (length (h_meta h))) h.

Definition drop_one (h : hst) (i : nat) : hst :=
  match nth_error (h_meta h) i with
  | Some m =>
    if m_hdrop m && negb (m_dropdone m) then
      set_meta (updl (h_meta h) i (fun m => mk_tm (m_r m) (m_wx m) (m_seen m) (m_hdrop m) true))
               (app (StDrop i) h)
    else h
  | None => h
  end.

Definition elapse_all (h : hst) : hst :=
  fold_left (fun h0 i => app (StElapse i) h0) (seq 0 (length (h_meta h))) h.

Definition see_one (n : nat) (h : hst) (i : nat) : hst :=
  match nth_error (tasks (h_sys h)) i, nth_error (h_meta h) i with
  | Some tk, Some m =>
    match t_out tk with
    | Some _ =>
      if Nat.eqb (m_seen m) 0 && negb (m_hdrop m) then
        set_meta (updl (h_meta h) i (fun m => mk_tm (m_r m) (m_wx m) n (m_hdrop m) (m_dropdone m))) h
      else h
    | None => h
    end
  | _, _ => h
  end.

Fixpoint settle (fuel : nat) (h : hst) : hst :=
  match fuel with
  | O => h
  | S f => settle f (poll_all (resolve h))
  end.

(* one bounded run of the runtime *)
Definition run_rt (h : hst) : hst :=
  let ids := seq 0 (length (h_meta h)) in
  let h1 := fold_left drop_one ids h in          (* cancelled tasks are dropped by the executor *)
  let h2 := poll_all h1 in                       (* scheduled tasks are polled: submissions, registrations *)
  let h3 := poll_all (resolve h2) in             (* the driver enters the kernel, completions wake their tasks *)
  let h4 := poll_all (elapse_all h3) in          (* the short sleeps fire *)
  let h5 := settle (length (h_meta h) + 2) h4 in (* cancels requested on the way complete *)
  let n := S (h_runs h) in
  set_runs n (fold_left (see_one n) ids h5).

(* ---------------------------------------------------------------------- *)
(* program steps                                                           *)

Inductive wrap := WCancel (t : nat) | WPers (p : nat) | WFailFast (t : nat) | WTimeout (d : dur).

Inductive pstep :=
| PSpawn (r : nat) (wx : bool) (ws : list wrap)
| PWrite (r extra : nat)
| PFire (t : nat)
| PDropHandle (i : nat)
| PRun.

Definition exp_of (ws : list wrap) : fexp :=
  fold_left (fun f w =>
    match w with
    | WCancel t => WithCancel t f
    | WPers p => WithPersonality p f
    | WFailFast t => FailFast t f
    | WTimeout d => Timeout d f
    end) ws Op.

Definition live_count (h : hst) (r : nat) : nat :=
  length (filter (fun m => Nat.eqb (m_r m) r && Nat.eqb (m_seen m) 0
                           && negb (m_hdrop m && m_dropdone m)) (h_meta h)).

Definition exec_step (h : hst) (p : pstep) : hst :=
  match p with
  | PSpawn r wx ws =>
      set_meta (h_meta h ++ [mk_tm r wx 0 false false]) (app (StSpawn (exp_of ws)) h)
  | PWrite r extra =>
      let n := live_count h r + extra in
      set_avail (updl (h_avail h) r (fun a => a + n)) h
  | PFire t => app (StFire t) h
  | PDropHandle i =>
      set_meta (updl (h_meta h) i (fun m =>
        if Nat.eqb (m_seen m) 0 then mk_tm (m_r m) (m_wx m) (m_seen m) true (m_dropdone m) else m)) h
  | PRun => run_rt h
  end.

(* ---------------------------------------------------------------------- *)
(* decoding                                                                *)

Fixpoint dec_wraps (n : nat) (ntok : nat) (l : list N) : option (list wrap * list N) :=
  match n with
  | O => Some ([], l)
  | S k =>
    match l with
    | w :: a :: r =>
      let a' := nn a in
      let? x :=
        match w with
        | 1%N => if a' <? ntok then Some (WCancel a') else None
        | 2%N => if a' <? 3 then Some (WPers a') else None
        | 3%N => if a' <? ntok then Some (WFailFast a') else None
        | 4%N => match a' with 0 => Some (WTimeout DZero) | 1 => Some (WTimeout DShort)
                             | 2 => Some (WTimeout DLong) | _ => None end
        | 5%N => if a' <? ntok then Some (WCancel a') else None
        | _ => None
        end in
      let? '(ws, r') := dec_wraps k ntok r in Some (x :: ws, r')
    | _ => None
    end
  end.

(* [ntasks] = tasks spawned so far *)
Fixpoint dec_steps (n : nat) (kinds : list nat) (ntok ntasks : nat) (l : list N)
  : option (list pstep * list N) :=
  match n with
  | O => Some ([], l)
  | S k =>
    match l with
    | 1%N :: r :: wx :: nw :: rest =>
      if (nn r <? length kinds) && (N.leb wx 1) && (nn nw <=? 8) && (ntasks <? 12) then
        let? '(ws, rest') := dec_wraps (nn nw) ntok rest in
        let? '(ps, rest'') := dec_steps k kinds ntok (S ntasks) rest' in
        Some (PSpawn (nn r) (N.eqb wx 1) ws :: ps, rest'')
      else None
    | 2%N :: r :: extra :: rest =>
      if (nn r <? length kinds) && (nn extra <=? 2) && negb (Nat.eqb (nth (nn r) kinds 9) 4) then
        let? '(ps, rest') := dec_steps k kinds ntok ntasks rest in
        Some (PWrite (nn r) (nn extra) :: ps, rest')
      else None
    | 3%N :: t :: rest =>
      if nn t <? ntok then
        let? '(ps, rest') := dec_steps k kinds ntok ntasks rest in Some (PFire (nn t) :: ps, rest')
      else None
    | 4%N :: i :: rest =>
      if nn i <? ntasks then
        let? '(ps, rest') := dec_steps k kinds ntok ntasks rest in Some (PDropHandle (nn i) :: ps, rest')
      else None
    | 5%N :: rest =>
      let? '(ps, rest') := dec_steps k kinds ntok ntasks rest in Some (PRun :: ps, rest')
    | _ => None
    end
  end.

Definition dec_kinds (n : nat) (l : list N) : option (list nat * list N) :=
  let? '(ks, r) := takeN n l in
  if forallb (fun k => N.leb k 4) ks then Some (map nn ks, r) else None.

(* ---------------------------------------------------------------------- *)
(* encoding                                                                *)

Definition enc_pers (h : hst) (m : tmeta) (k : kst) : N :=
  if m_wx m && negb (h_poll h) then
    match e_pers (k_ext k) with Some p => NN (S p) | None => 0%N end
  else 0%N.

Definition enc_task (h : hst) (i : nat) : list N :=
  match nth_error (tasks (h_sys h)) i, nth_error (h_meta h) i with
  | Some tk, Some m =>
    if m_hdrop m then [0; 6; 0; 0]%N
    else
      match t_out tk with
      | None => [0; 0; 0; 0]%N
      | Some r =>
        let fin := NN (m_seen m) in
        match r with
        | RData => [fin; 1%N; 0%N; enc_pers h m (t_key tk)]
        | RErr e => if N.eqb e E_CANCELED then [fin; 2%N; 0%N; enc_pers h m (t_key tk)]
                    else [fin; 5%N; e; enc_pers h m (t_key tk)]
        | RElapsed => [fin; 3; 0; 0]%N
        | RCancelled => [fin; 4; 0; 0]%N
        end
      end
  | _, _ => [9; 9; 9; 9]%N
  end.

Definition enc_key (h : hst) (i : nat) : list N :=
  match key_of h i with
  | Some k => [NN (k_dc k); if k_created k then (if k_freed k then 1%N else 0%N) else 2%N]
  | None => [9; 9]%N
  end.

Definition enc_tok (ts : tokst) : list N :=
  if fired ts then [1; 1]%N else [0; 0]%N.

Definition encode (h : hst) : list N :=
  let ids := seq 0 (length (h_meta h)) in
  if s_panic (h_sys h) then [2%N; P_OTHER] else
  [0%N; NN (length (h_meta h))] ++ flat_map (enc_task h) ids
  ++ [NN (length (h_kinds h))] ++ map NN (h_avail h)
  ++ flat_map (enc_key h) ids
  ++ [NN (length (toks (h_sys h)))] ++ flat_map enc_tok (toks (h_sys h)).

Definition run_prog (poll : bool) (kinds : list nat) (ntok : nat) (ps : list pstep) : hst :=
  let h0 := mk_h (sys_init ntok) [] poll kinds (repeat 0 (length kinds)) [] 0 in
  (* the harness always ends with a closing run *)
  run_rt (fold_left exec_step ps h0).

Definition run_c05rt (l : list N) : list N :=
  match l with
  | drv :: nres :: r0 =>
    if negb (N.leb drv 1) || negb (N.leb nres 6) then BAD_CASE else
    match dec_kinds (nn nres) r0 with
    | None => BAD_CASE
    | Some (kinds, r1) =>
      match r1 with
      | ntok :: nsteps :: r2 =>
        if negb (N.leb ntok 6) || negb (N.leb nsteps 40) then BAD_CASE else
        match dec_steps (nn nsteps) kinds (nn ntok) 0 r2 with
        | Some (ps, []) => encode (run_prog (N.eqb drv 1) kinds (nn ntok) ps)
        | _ => BAD_CASE
        end
      | _ => BAD_CASE
      end
    end
  | _ => BAD_CASE
  end.
